#!/usr/bin/env python3
"""tools/seed_prompt.py Cxx N -> prints the seeder prompt for property Cxx (creates nothing)."""
import json, sys
pid, n = sys.argv[1], sys.argv[2]
start = int(sys.argv[3]) if len(sys.argv) > 3 else 1
wt = f'/tmp/seed-{pid}'
out = f'/tmp/seedout'
for l in open('/verif/properties.jsonl'):
    p = json.loads(l)
    if p['id'] == pid:
        t = open('/verif/docs/SEEDER_PROMPT.txt').read()
        t = t.replace('k = 1..{N}', 'k = %d..%d' % (start, start + int(n) - 1))
        for k, v in {'{WT}': wt, '{ID}': pid, '{TITLE}': p['title'], '{STATEMENT}': p['statement'],
                     '{QUANT}': p['quantifier']['text'], '{ANCHORS}': json.dumps(p['anchors']), '{N}': n, '{OUT}': out,
                     '{MIN}': str(15 * int(n))}.items():
            t = t.replace(k, v)
        print(t)
