#!/bin/bash
# tools/seed_batch.sh Cxx : copy /tmp/seedout/Cxx-* into seeded/, run try_seed on each, log to seeded/logs/
p="$1"; mkdir -p /verif/seeded/logs
for d in /tmp/seedout/$p-${ONLY:-[0-9]*}; do
  s=$(basename "$d"); mkdir -p /verif/seeded/$s; cp "$d"/{patch.diff,demo.py,meta.json} /verif/seeded/$s/ 2>/dev/null
  /verif/tools/try_seed.sh "$p" /verif/seeded/$s > /verif/seeded/logs/$s.log 2>&1
  echo "== $s: $(grep -c '^VIOLATION' /verif/seeded/logs/$s.log) violation lines; $(grep -c 'no-failing-input-found' /verif/seeded/logs/$s.log) nfif; $(grep 'check exit' /verif/seeded/logs/$s.log); $(grep -m1 -A1 '^VIOLATION' /verif/seeded/logs/$s.log | tail -1 | cut -c1-160)"
done
