#!/usr/bin/env python3
"""History of /repo was rewritten once (a generated parser.out had slipped into a fix commit);
fixes/sha_rewrite_map.json maps old short SHAs to the current ones. This rewrites stale references."""
import glob, json
m = json.load(open('/verif/fixes/sha_rewrite_map.json'))
for p in ['/verif/fixes/FIXLOG.md', '/verif/DESIGN.md'] + glob.glob('/verif/findings/*.json') + glob.glob('/verif/docs/C*.md') + glob.glob('/verif/corpus/*/*.json') + glob.glob('/verif/harness/c*.py'):
    s = open(p).read(); t = s
    for o, n in m.items():
        t = t.replace(o, n)
    if t != s:
        open(p, 'w').write(t); print('updated', p)
