#!/bin/bash
# tools/try_seed.sh <Cxx> <dir-with-patch.diff,demo.py> : verify a seeded change in a scratch worktree
#   (demo passes on HEAD, fails with patch; quick unit suite optional) and run ./check against it.
set -u
pid="$1"; d="$(realpath "$2")"; wt="/tmp/try-$pid-$$"
git -C /repo worktree add -q "$wt" HEAD || exit 2
trap 'git -C /repo worktree remove --force "$wt"; rm -rf "/tmp/try-evidence-$pid-$$"' EXIT
cd "$wt"
PYTHONPATH="$wt/src" /venv/bin/python "$d/demo.py" >/dev/null 2>&1; echo "demo on HEAD: exit $? (want 0)"
git apply "$d/patch.diff" || { echo "PATCH DOES NOT APPLY"; exit 2; }
PYTHONPATH="$wt/src" /venv/bin/python "$d/demo.py" >/dev/null 2>&1; echo "demo with patch: exit $? (want 1)"
if [ "${SUITE:-0}" = 1 ]; then
  PYTHONPATH="$wt/src" /venv/bin/python -m pytest -q -p no:cacheprovider -n 8 tests/unit_tests tests/contract_tests -q 2>&1 | tail -2
fi
cd /verif
VERIF_EVIDENCE_DIR="/tmp/try-evidence-$pid-$$" VERIF_REPO="$wt" VERIF_SKIP_MAKE=1 ./check "$pid" ${TIER:+--tier $TIER} 2>&1 | grep -A1 -E "^(VIOLATION|OK|KNOWN-FINDING|INTERNAL-ERROR)" | cut -c1-400 | head -14
echo "check exit: ${PIPESTATUS[0]}"
