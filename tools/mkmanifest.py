#!/usr/bin/env python3
"""Assemble MANIFEST.json from checks/Cxx.json fragments; every property without a fragment is
listed under not_applicable with the reason given in checks/UNCLAIMED.json."""
import glob
import json
import os

here = os.path.dirname(os.path.dirname(os.path.abspath(__file__)))
props = [json.loads(l)['id'] for l in open(os.path.join(here, 'properties.jsonl'))]
checks = []
claimed = set()
for p in sorted(glob.glob(os.path.join(here, 'checks', 'C*.json'))):
    frag = json.load(open(p))
    pid = frag['property_id']
    if frag.get('ready') is False:
        continue
    claimed.add(pid)
    checks.append({
        'property_id': pid,
        'quick_cmd': f'./check {pid} --tier quick',
        'thorough_cmd': f'./check {pid} --tier thorough',
        'evidence_file': f'/verif/evidence/{pid}.json',
        'replay_cmd_template': f'./check {pid} --replay {{path}}',
        'engine': 'coq-model+correspondence',
        'level_claimed': {'category': 'proof', 'text': frag['level_text'], 'design_ref': frag.get('design_ref', f'DESIGN.md §8 {pid}')},
        'level_note': frag['level_note'],
        'technique': frag['technique'],
    })
unclaimed = json.load(open(os.path.join(here, 'checks', 'UNCLAIMED.json')))
na = [{'property_id': p, 'reason': unclaimed.get(p, unclaimed['default'])} for p in props if p not in claimed]
fixes = []
fl = os.path.join(here, 'fixes', 'commits.txt')
manifest = {
    'version': 1,
    'setup_cmd': './setup.sh',
    'hooks': {
        'guard': 'PYTEZOS_VERIF',
        'enable': 'no hooks exist in /repo: the harness substitutes requests/sleep/shell/crypto primitives from outside (monkeypatching at run time); ./check exports PYTEZOS_VERIF=1 for completeness',
        'baseline_off_cmd': 'cd /repo && /venv/bin/python -m pytest -ra -q -p no:cacheprovider --timeout=900 --continue-on-collection-errors',
        'source_commits': [],
        'add_only': True,
    },
    'engines': [{
        'name': 'coq-model+correspondence',
        'path': '/verif/coq',
        'serves_properties': sorted(claimed),
        'kind_free_text': 'Hand-written Gallina models + theorems (Coq 8.16.1, full .vo build by setup.sh); per run: coqc re-checks Properties/Cxx.v (Print Assumptions captured) and a Python harness runs the implementation from /repo/src and has the model evaluated on the same inputs by vm_compute inside coqc (Base/Cases.v mismatches); tables read from /repo are re-instantiated into theorems where stated.',
    }],
    'checks': checks,
    'not_applicable': na,
    'notes': 'See DESIGN.md. KNOWN_FINDINGS.json lists recorded genuine defects and fixed ones. Seeded property-breaking changes used to validate the checks are under seeded/.',
}
json.dump(manifest, open(os.path.join(here, 'MANIFEST.json'), 'w'), indent=1)
kf = {'findings': [], 'fixed': []}
for p in sorted(glob.glob(os.path.join(here, 'findings', 'C*.json'))):
    d = json.load(open(p))
    kf['findings'] += d.get('findings', [])
    kf['fixed'] += d.get('fixed', [])
json.dump(kf, open(os.path.join(here, 'KNOWN_FINDINGS.json'), 'w'), indent=1)
print(f'{len(checks)} checks, {len(na)} unclaimed')
