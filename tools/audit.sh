#!/bin/bash
# tools/audit.sh — what a stranger would grep for.
cd "$(dirname "$0")/../coq/theories"
echo "== forbidden words (expect no hits outside comments) =="
grep -rn --include='*.v' -E '\b(Admitted|admit|Axiom|Parameter|Conjecture|Abort)\b|Unset Guard|bypass_check|type-in-type|Admit Obligations' . | grep -v '^\S*:\s*[0-9]*:\s*(\*' || echo none
echo "== Variable/Hypothesis outside sections must be checked by hand =="
grep -rn --include='*.v' -E '^\s*(Variable|Variables|Hypothesis|Hypotheses|Context)\b' . | wc -l
