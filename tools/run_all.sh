#!/bin/bash
# tools/run_all.sh [tier] [props...] : run checks sequentially, print a table (exit code, wall seconds, last line)
tier="${1:-quick}"; shift
props="$@"; [ -z "$props" ] && props=$(ls /verif/checks | grep -oE 'C[0-9]+' | sort -u)
cd /verif
for p in $props; do
  s=$(date +%s)
  out=$(VERIF_SKIP_MAKE=${VERIF_SKIP_MAKE:-1} ./check $p --tier $tier 2>&1); rc=$?
  e=$(date +%s)
  echo "$p rc=$rc $((e-s))s $(echo "$out" | grep -E '^(OK|VIOLATION|KNOWN-FINDING|INTERNAL-ERROR)' | head -3 | cut -c1-200 | tr '\n' '|')"
done
