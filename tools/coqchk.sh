#!/bin/bash
# tools/coqchk.sh — independent re-check of the compiled development and the list of axioms of
# everything it loads. Takes minutes and several GB; output kept in docs/coqchk.txt.
here="$(cd "$(dirname "$0")/.." && pwd)"
cd "$here/coq"
mods=$(find theories/Properties -name 'C*.vo' | sed 's#theories/#PV.#; s#/#.#g; s#\.vo$##' | sort)
( ulimit -s unlimited; timeout 7200 coqchk -silent -o -R theories PV $mods ) > "$here/docs/coqchk.txt" 2>&1
tail -40 "$here/docs/coqchk.txt"
