"""Shared machinery of the /verif checks.

A check for property Cxx (see DESIGN.md §1, §3):
  1. re-checks coq/theories/Properties/Cxx.v with coqc against the compiled development and
     records what `Print Assumptions` says (the proof obligations);
  2. runs harness/cxx.py, which drives the implementation imported from /repo/src *as it is now*,
     and has the Coq model evaluated on the same inputs by `vm_compute` inside coqc
     (`Ctx.coq_mismatches`): the comparison itself is computed by the kernel-side evaluator;
  3. classifies whatever disagrees (search for a failing input with the property's own oracle),
  4. writes evidence/Cxx.json.
"""
from __future__ import annotations

import collections
import concurrent.futures
import fcntl
import hashlib
import json
import os
import random
import re
import subprocess
import sys
import time
import traceback
from typing import Any, Callable, Iterable, Sequence

VERIF = os.path.dirname(os.path.dirname(os.path.abspath(__file__)))
REPO = os.environ.get('VERIF_REPO', '/repo')
COQ = os.path.join(VERIF, 'coq')
THEORIES = os.path.join(COQ, 'theories')
WORK = os.path.join(VERIF, '.work')
EVIDENCE = os.environ.get('VERIF_EVIDENCE_DIR') or os.path.join(VERIF, 'evidence')  # tools/try_seed.sh redirects runs against patched trees
REPLAY = os.path.join(EVIDENCE, 'replay')
NCPU = min(16, os.cpu_count() or 4)


def n_jobs() -> int:
    """Parallel coqc processes: all cores on an idle machine, fewer when it is already loaded."""
    if os.environ.get('VERIF_JOBS'):
        return max(1, int(os.environ['VERIF_JOBS']))
    try:
        load = os.getloadavg()[0]
    except OSError:
        load = 0.0
    return max(3, min(NCPU, int(NCPU - load)))

FIXED_TRUSTED_BASE = [
    'Coq 8.16.1 kernel (coqc), including its vm_compute evaluator (used for the correspondence comparison and for finite sweeps); no native_compute',
    'hand-written Gallina model of the anchored Python code (tied to /repo only through the correspondence run of this check)',
    'Python harness: input generators, canonicalisation Python value -> Coq literal, exception -> Reject mapping',
]


class InternalError(Exception):
    """The checker itself failed (not a verdict about the property)."""


# --------------------------------------------------------------------------------------
# Coq literal rendering
# --------------------------------------------------------------------------------------

def cZ(n: int) -> str:
    return f'({n})%Z'


def cN(n: int) -> str:
    assert n >= 0
    return f'{n}%N'


def cnat(n: int) -> str:
    assert 0 <= n < 5000, 'nat literals must stay small'
    return f'{n}%nat'


def cbool(b: bool) -> str:
    return 'true' if b else 'false'


def chex(b: bytes) -> str:
    return f'(hx "{bytes(b).hex()}")'


def cstr(s: str) -> str:
    """Coq [string] literal (ASCII only; the caller routes non-ASCII text elsewhere)."""
    assert all(32 <= ord(c) < 127 or c in '\n\t' for c in s), repr(s)
    return '"' + s.replace('"', '""') + '"%string'


def ctx_bytes(s: str) -> str:
    """ASCII text as the model's [bytes] (list byte)."""
    return chex(s.encode('ascii'))


def clist(items: Iterable[str]) -> str:
    items = list(items)
    return '[' + '; '.join(items) + ']' if items else 'nil'


def copt(x: str | None) -> str:
    return 'None' if x is None else f'(Some {x})'


def cpair(*xs: str) -> str:
    return '(' + ', '.join(xs) + ')'


def cok(x: str | None) -> str:
    """result: Ok x / Reject"""
    return 'Reject' if x is None else f'(Ok {x})'


_PRIM_TAGS = None


def prim_tag(name: str) -> int:
    global _PRIM_TAGS
    if _PRIM_TAGS is None:
        from pytezos.michelson.tags import prim_tags  # type: ignore
        _PRIM_TAGS = {k: (v[0] if isinstance(v, (bytes, bytearray)) else int(v)) for k, v in prim_tags.items()}
    return _PRIM_TAGS[name]


def cbyte(n: int) -> str:
    return 'x%02x' % n


def cnode(m: Any) -> str:
    """Micheline JSON (as pytezos produces it) -> Coq [node] literal (Codec/Micheline.v).
    Canonicalisation: integers as numbers, missing args/annots = empty."""
    if isinstance(m, list):
        return '(NSeq ' + clist(cnode(x) for x in m) + ')'
    if not isinstance(m, dict):
        raise InternalError(f'not micheline: {m!r}')
    if 'int' in m:
        return f'(NInt {cZ(int(m["int"]))})'
    if 'string' in m:
        return f'(NStr {chex(m["string"].encode("utf-8"))})'
    if 'bytes' in m:
        return f'(NByt {chex(bytes.fromhex(m["bytes"]))})'
    if 'prim' in m:
        args = clist(cnode(x) for x in m.get('args', []) or [])
        annots = clist(chex(a.encode('utf-8')) for a in m.get('annots', []) or [])
        return f'(NPrim {cbyte(prim_tag(m["prim"]))} {args} {annots})'
    raise InternalError(f'not micheline: {m!r}')


def canon_micheline(m: Any) -> Any:
    """Normalise Micheline JSON for comparison on the Python side."""
    if isinstance(m, list):
        return [canon_micheline(x) for x in m]
    if 'int' in m:
        return {'int': str(int(m['int']))}
    if 'string' in m:
        return {'string': m['string']}
    if 'bytes' in m:
        return {'bytes': m['bytes'].lower()}
    out: dict = {'prim': m['prim']}
    if m.get('args'):
        out['args'] = [canon_micheline(x) for x in m['args']]
    if m.get('annots'):
        out['annots'] = list(m['annots'])
    return out


# --------------------------------------------------------------------------------------
# running coqc
# --------------------------------------------------------------------------------------

COQ_HEADER = '''From Coq Require Import List ZArith NArith Bool String.
From Coq.Strings Require Import Byte.
From PV Require Import Base.Bytes Base.Cases Base.Result.
{imports}
Import ListNotations.
Local Open Scope list_scope.
'''


def _limit_mem() -> None:
    import resource
    cap = 24 * 1024 ** 3  # a runaway coqc must not take the machine down
    resource.setrlimit(resource.RLIMIT_AS, (cap, cap))


def _run(cmd: Sequence[str], timeout: int, cwd: str | None = None) -> subprocess.CompletedProcess:
    pre = _limit_mem if cmd and cmd[0] == 'coqc' else None
    return subprocess.run(list(cmd), cwd=cwd, stdout=subprocess.PIPE, stderr=subprocess.STDOUT, text=True, timeout=timeout,
                          preexec_fn=pre)


def ensure_built() -> None:
    """Make sure the compiled development is present and current (no-op when it is)."""
    os.makedirs(WORK, exist_ok=True)
    with open(os.path.join(WORK, '.build.lock'), 'w') as lk:
        fcntl.flock(lk, fcntl.LOCK_EX)
        if os.environ.get('VERIF_SKIP_MAKE') == '1':
            return
        r = _run(['bash', os.path.join(VERIF, 'setup.sh'), '--incremental'], timeout=3000, cwd=VERIF)
        if r.returncode != 0:
            raise InternalError('coq build failed:\n' + r.stdout[-4000:])


def coqc_file(path: str, extra_args: Sequence[str] = (), timeout: int = 600) -> tuple[int, str]:
    out_vo = path[:-2] + '.vo'
    r = _run(['coqc', '-q', '-R', THEORIES, 'PV', *extra_args, '-o', out_vo, path], timeout=timeout, cwd=os.path.dirname(path))
    return r.returncode, r.stdout


_NUM_LIST = re.compile(r'=\s*(\[[^\]]*\]|nil)\s*:\s*list nat', re.S)


class Ctx:
    def __init__(self, prop: str, tier: str, seed: int):
        self.prop = prop
        self.tier = tier
        self.seed = seed
        self.rng = random.Random(f'{prop}:{seed}')
        self.t0 = time.time()
        # one scratch directory per process: concurrent runs of the same check must not share generated files
        self.work = os.path.join(WORK, prop, str(os.getpid()))
        os.makedirs(self.work, exist_ok=True)
        self.evaluations = 0
        self._nontrivial: set[str] = set()
        self.samples: list = []
        self.dist: collections.Counter = collections.Counter()
        self.tables_compared: list[str] = []
        self.corpus_cases = 0
        self.violations: list[dict] = []
        self.known_printed: list[str] = []
        self.rule = ''
        self.extra: dict = {}
        self.assumptions: list[str] = []
        self.coq_calls = 0
        self.proof = {'obligations': 0, 'discharged': 0, 'checker_cmd': '', 'axioms': [], 'theorems': []}
        self._shard = 0
        self.known = load_known_findings().get(prop, {'findings': [], 'fixed': []})

    # ---- tier helpers
    @property
    def thorough(self) -> bool:
        return self.tier == 'thorough'

    def n(self, quick: int, thorough: int) -> int:
        return thorough if self.thorough else quick

    # ---- bookkeeping of what was explored
    def case(self, key: Any, nontrivial: bool = True, kind: str | None = None, sample: Any = None) -> None:
        """Record one explored case. `key` is the canonical input (hashed for distinctness)."""
        self.evaluations += 1
        if kind:
            self.dist[kind] += 1
        if nontrivial:
            h = hashlib.blake2b(repr(key).encode(), digest_size=12).hexdigest()
            if h not in self._nontrivial:
                self._nontrivial.add(h)
        if sample is not None and len(self.samples) < 8:
            self.samples.append(sample)

    # ---- model evaluation inside coqc
    def coq_mismatches(self, name: str, imports: str, fn: str, eqb: str, in_ty: str, out_ty: str,
                       cases: Sequence[tuple[str, str]], shard: int = 400, timeout: int = 900,
                       prelude: str = '') -> list[int]:
        """Evaluate `mismatches eqb fn cases` by vm_compute inside coqc; return failing indices.

        `cases` are (input literal, implementation output literal) pairs."""
        if not cases:
            return []
        shards = [(i, cases[i:i + shard]) for i in range(0, len(cases), shard)]
        jobs = []
        for base, chunk in shards:
            self._shard += 1
            path = os.path.join(self.work, f'{name}_{self._shard}.v')
            body = ';\n  '.join(f'({a}, {b})' for a, b in chunk)
            with open(path, 'w') as f:
                f.write(COQ_HEADER.format(imports=imports))
                f.write(prelude + '\n')
                f.write(f'Definition cases : list (({in_ty}) * ({out_ty})) := [\n  {body}\n].\n')
                f.write(f'Eval vm_compute in (mismatches ({eqb}) ({fn}) cases).\n')
            jobs.append((base, path))
        bad: list[int] = []

        def one(job):
            base, path = job
            rc, out = coqc_file(path, timeout=timeout)
            if rc != 0:
                raise InternalError(f'coqc failed on generated cases {path}:\n{out[-3000:]}')
            m = _NUM_LIST.search(out)
            if not m:
                raise InternalError(f'cannot parse coqc output for {path}:\n{out[-2000:]}')
            txt = m.group(1)
            return [base + int(x) for x in re.findall(r'\d+', txt)] if txt != 'nil' else []

        with concurrent.futures.ThreadPoolExecutor(max_workers=n_jobs()) as ex:
            for res in ex.map(one, jobs):
                bad.extend(res)
        self.coq_calls += len(jobs)
        for _, path in jobs:
            for ext in ('.v', '.vo', '.glob', '.vok', '.vos'):
                p = path[:-2] + ext
                if ext == '.v' and bad:
                    continue  # keep the cases file for the replay when something disagreed
                try:
                    os.remove(p)
                except OSError:
                    pass
            try:
                os.remove(os.path.join(os.path.dirname(path), '.' + os.path.basename(path)[:-2] + '.aux'))
            except OSError:
                pass
        return sorted(bad)

    def coq_eval(self, imports: str, expr: str, prelude: str = '', timeout: int = 300) -> str:
        """`Eval vm_compute in expr` — raw text of Coq's answer (for replay files; never parsed
        for a verdict)."""
        self._shard += 1
        path = os.path.join(self.work, f'eval_{self._shard}.v')
        with open(path, 'w') as f:
            f.write(COQ_HEADER.format(imports=imports))
            f.write(prelude + '\n')
            f.write(f'Eval vm_compute in ({expr}).\n')
        rc, out = coqc_file(path, timeout=timeout)
        self.coq_calls += 1
        if rc != 0:
            return 'coqc error: ' + out[-1500:]
        return ' '.join(out.split())[:4000]

    # ---- verdicts
    def violation(self, what: str, replay: dict, found: bool = True) -> None:
        """Record a violation. found=False: proof/correspondence broke but no concrete failing
        input of the property itself was exhibited."""
        for f in self.known['findings']:
            if f.get('_match') and f['_match'](replay):
                self.known_hit(f)
                return
        os.makedirs(REPLAY, exist_ok=True)
        idx = len(self.violations)
        path = os.path.join(REPLAY, f'{self.prop}-{self.seed}-{idx}.json')
        doc = {'property': self.prop, 'seed': self.seed, 'tier': self.tier, 'what': what,
               'failing_input_found': found, **replay}
        with open(path, 'w') as f:
            json.dump(doc, f, indent=1, default=repr)
        self.violations.append({'what': what, 'replay': path, 'found': found})

    def known_hit(self, finding: dict) -> None:
        line = f"KNOWN-FINDING: property={self.prop} {finding['id']}: {finding['what']}"
        if line not in self.known_printed:
            self.known_printed.append(line)

    def finding(self, fid: str) -> dict | None:
        for f in self.known['findings']:
            if f['id'] == fid:
                return f
        return None

    def table(self, name: str) -> None:
        self.tables_compared.append(name)


# --------------------------------------------------------------------------------------
# known findings
# --------------------------------------------------------------------------------------

def load_known_findings() -> dict:
    """findings/Cxx.json fragments are the source; KNOWN_FINDINGS.json is their committed concatenation
    (tools/mkmanifest.py). Never written at check time."""
    import glob
    out: dict = {}
    seen = set()
    paths = sorted(glob.glob(os.path.join(VERIF, 'findings', '*.json')))
    kf = os.path.join(VERIF, 'KNOWN_FINDINGS.json')
    if os.path.exists(kf):
        paths.append(kf)
    for path in paths:
        doc = json.load(open(path))
        for sect in ('findings', 'fixed'):
            for f in doc.get(sect, []):
                key = (sect, f['property'], f.get('id') or f.get('commit'), f.get('what'))
                if key in seen:
                    continue
                seen.add(key)
                out.setdefault(f['property'], {'findings': [], 'fixed': []})[sect].append(f)
    return out


# --------------------------------------------------------------------------------------
# proof re-check
# --------------------------------------------------------------------------------------

_AX_BLOCK = re.compile(r'^(Closed under the global context|Axioms:\n(?:.+\n?)+?(?=\n\S|\Z))', re.M)


def recheck_proofs(ctx: Ctx, extra_files: Sequence[str] = (), coq_args: Sequence[str] = ()) -> None:
    """coqc Properties/<prop>.v (into the scratch dir) and parse Print Assumptions."""
    src = os.path.join(THEORIES, 'Properties', f'{ctx.prop}.v')
    if not os.path.exists(src):
        raise InternalError(f'missing {src}')
    text = open(src).read()
    theorems = re.findall(r'^\s*(?:Theorem|Corollary)\s+(\w+)', text, re.M)
    ctx.proof['theorems'] = theorems
    ctx.proof['obligations'] = len(theorems)
    for bad in ('Admitted', 'admit.', 'Axiom ', 'Parameter ', 'Conjecture ', 'Unset Guard', 'bypass_check', 'Abort'):
        if bad in text:
            raise InternalError(f'{src} contains {bad!r}')
    out_vo = os.path.join(ctx.work, f'{ctx.prop}.vo')
    cmd = ['coqc', '-q', '-R', THEORIES, 'PV', *coq_args, '-o', out_vo, src]
    ctx.proof['checker_cmd'] = ' '.join(cmd)
    t = time.time()
    r = _run(cmd, timeout=1800, cwd=COQ)
    ctx.proof['coqc_s'] = round(time.time() - t, 2)
    if r.returncode != 0:
        ctx.proof['discharged'] = 0
        ctx.proof['error'] = r.stdout[-3000:]
        ctx.violation('proof obligation no longer checks: coqc rejected Properties/%s.v' % ctx.prop,
                      {'theorem_file': src, 'coqc_output': r.stdout[-3000:]}, found=False)
        return
    ctx.proof['discharged'] = len(theorems)
    axioms: list[str] = []
    closed = 0
    blocks = re.split(r'\n(?=Closed under the global context|Axioms:)', r.stdout)
    for b in blocks:
        if b.startswith('Closed under the global context'):
            closed += 1
        elif b.startswith('Axioms:'):
            for m in re.finditer(r'^(\S+)\s*:', b[len('Axioms:'):], re.M):
                if m.group(1) not in axioms:
                    axioms.append(m.group(1))
    ctx.proof['axioms'] = axioms
    ctx.proof['closed_theorems'] = closed
    n_print = len(re.findall(r'Print Assumptions', text))
    if n_print < len(theorems):
        raise InternalError(f'{src}: {len(theorems)} theorems but only {n_print} Print Assumptions')


# --------------------------------------------------------------------------------------
# evidence
# --------------------------------------------------------------------------------------

def write_evidence(ctx: Ctx, status: str) -> None:
    os.makedirs(EVIDENCE, exist_ok=True)
    tb = list(FIXED_TRUSTED_BASE)
    if ctx.proof['axioms']:
        tb.append('axioms reported by Print Assumptions in this run: ' + ', '.join(ctx.proof['axioms']))
    else:
        tb.append('Print Assumptions in this run: every property theorem is "Closed under the global context" (no axioms)')
    tb.extend(ctx.assumptions)
    cov = {
        'obligations': ctx.proof['obligations'],
        'discharged': ctx.proof['discharged'],
        'checker_cmd': ctx.proof['checker_cmd'],
        'trusted_base': tb,
        'theorems': ctx.proof['theorems'],
        'evaluations': ctx.evaluations,
        'distinct_nontrivial': len(ctx._nontrivial),
        'rule': ctx.rule,
        'samples': ctx.samples[:8] or ['(no generated case in this run)'],
        'distribution': dict(ctx.dist.most_common(60)),
        'tables_compared': ctx.tables_compared,
        'corpus_cases': ctx.corpus_cases,
        'coqc_case_files_evaluated': ctx.coq_calls,
        'known_findings_reported': ctx.known_printed,
        'status': status,
        **ctx.extra,
    }
    doc = {
        'property_id': ctx.prop,
        'tier': ctx.tier,
        'seed': ctx.seed,
        'level': 'proof',
        'coverage': cov,
        'assumptions': tb,
        'wall_s': round(time.time() - ctx.t0, 2),
        'violations': len(ctx.violations),
    }
    with open(os.path.join(EVIDENCE, f'{ctx.prop}.json'), 'w') as f:
        json.dump(doc, f, indent=1, default=repr)


# --------------------------------------------------------------------------------------
# misc helpers for harness modules
# --------------------------------------------------------------------------------------

def call(f: Callable, *a, **kw) -> tuple[bool, Any]:
    """Run an implementation call; (True, value) or (False, exception)."""
    try:
        return True, f(*a, **kw)
    except BaseException as e:  # noqa: BLE001  (SystemExit etc. are verdict-relevant too)
        if isinstance(e, (KeyboardInterrupt, MemoryError)):
            raise
        return False, e


def boundary_ints(rng: random.Random, signed: bool = True, big: bool = True) -> int:
    """Integers biased to encoding boundaries."""
    k = rng.random()
    if k < 0.25:
        v = rng.choice([0, 1, 2, 63, 64, 65, 127, 128, 129, 255, 256, 8191, 8192, 2 ** 31 - 1, 2 ** 31, 2 ** 32,
                        2 ** 63 - 1, 2 ** 63, 2 ** 64 - 1, 2 ** 64])
    elif k < 0.5:
        e = rng.randrange(0, 130 if big else 62)
        v = (1 << e) + rng.choice([-1, 0, 1])
    elif k < 0.9:
        v = rng.getrandbits(rng.choice([4, 8, 16, 31, 32, 33, 62, 63, 64, 65] + ([128, 256, 700] if big else [])))
    else:
        v = rng.getrandbits(rng.randrange(1, 2048 if big else 62))
    v = max(v, 0)
    if signed and rng.random() < 0.5:
        v = -v
    return v
