"""C33 — Registered global constants expand wherever they occur.

Correspondence (A): histories of register_global_constant / resolve_global_constants / reset calls on a real
ExecutionContext (plus contexts built with ExecutionContext(global_constants=...) and ContractInterface.from_micheline)
vs Michelson/Constants.v `run` / `final`, by vm_compute inside coqc. The hash function of the model is a parameter; it is
supplied as a table  forged bytes -> hash text  computed by the harness itself with hashlib + base58 (validated
against the three hashes recorded in tests/.../test_constants.py); the keys of the table are compared with the model's
own `enc`, so a change of the encoder or of the hashing shows up as a disagreement.
Oracle (B) on the implementation's outputs: an independent substitution-closure spec in Python (spec_resolve): the
result contains no `constant` node, equals the spec, is a fixpoint; unknown / malformed references raise; after reset()
every reference is unknown.
"""
import glob
import hashlib
import json
import os

import base58

import lib
from lib import clist, copt
from c05 import chex, cnode, gen_tree

PROP = 'C33'
IMPORTS = 'From PV Require Import Codec.Micheline Codec.Prims Codec.MichelineBin Michelson.Constants.'
PRELUDE = '''
Definition hist := (list (bytes * bytes) * list op * list bytes)%type.
Definition chk (x : hist) : list (rres node) * list (option node) :=
  let '(tbl, ops, probes) := x in
  (run (table_hash tbl) [] ops, map (fun h => lookup h (final (table_hash tbl) [] ops)) probes).
Definition chk_eqb := prod_eqb (list_eqb rres_node_eqb) (list_eqb (option_eqb node_eqb)).
Definition chk0 (x : registry * node) : rres node := resolve_top (fst x) (snd x).
'''

EXPR_PREFIX = bytes([13, 44, 64, 27])


def my_hash(forged: bytes) -> str:
    d = hashlib.blake2b(forged, digest_size=32).digest()
    return base58.b58encode_check(EXPR_PREFIX + d).decode()


class Unknown(Exception):
    pass


def spec_resolve(reg: dict, n, depth=0):
    """independent specification: substitution closure"""
    if depth > 60:
        raise RecursionError
    if isinstance(n, list):
        return [spec_resolve(reg, x, depth) for x in n]
    if n.get('prim') == 'constant':
        args = n.get('args') or []
        if not args or not isinstance(args[0], dict) or 'string' not in args[0]:
            raise Unknown('malformed')
        h = args[0]['string']
        if h not in reg:
            raise Unknown(h)
        return spec_resolve(reg, reg[h], depth + 1)
    if n.get('prim') is not None and n.get('args'):
        out = dict(n)
        out['args'] = [spec_resolve(reg, x, depth) for x in n['args']]
        return out
    return n


def has_constant(n) -> bool:
    if isinstance(n, list):
        return any(has_constant(x) for x in n)
    if n.get('prim') == 'constant':
        return True
    return any(has_constant(x) for x in n.get('args') or [])


def rres_lit(ok, val):
    if not ok:
        return 'RReject'
    try:
        return f'(ROk {cnode(lib.canon_micheline(val))})'
    except Exception:  # noqa: BLE001
        return 'RFuel'


def node_or_bad(v):
    """implementation value -> node literal; anything that is not Micheline becomes a literal that matches nothing"""
    try:
        return cnode(lib.canon_micheline(v))
    except Exception:  # noqa: BLE001
        return '(NByt [xba; xad])'


def op_lit(o):
    if o[0] == 'register':
        return f'(Register {cnode(lib.canon_micheline(o[1]))})'
    if o[0] == 'resolve':
        return f'(Resolve {cnode(lib.canon_micheline(o[1]))})'
    return 'Reset'


# ---------------------------------------------------------------------------------------------- generators

def ref(h, rng, plain=False):
    out = {'prim': 'constant', 'args': [{'string': h}]}
    if not plain:
        k = rng.random()
        if k < 0.1:
            out['annots'] = ['%a']
        elif k < 0.15:
            out['args'].append({'int': '1'})
    return out


def bad_ref(rng):
    return rng.choice([
        {'prim': 'constant'},
        {'prim': 'constant', 'args': []},
        {'prim': 'constant', 'args': [{'int': '5'}]},
        {'prim': 'constant', 'args': [{'bytes': '00'}]},
        {'prim': 'constant', 'args': [[{'string': 'x'}]]},
        {'prim': 'constant', 'args': [{'prim': 'Unit'}]},
        {'prim': 'constant', 'annots': ['%x']},
    ])


def plant(rng, tree, make, p=0.25, depth=0):
    """replace random leaves / subtrees of `tree` by make() (a reference), at any depth, in argument and sequence positions"""
    if rng.random() < p * (0.3 if depth == 0 else 1):
        return make()
    if isinstance(tree, list):
        return [plant(rng, x, make, p, depth + 1) for x in tree]
    if tree.get('args'):
        out = dict(tree)
        out['args'] = [plant(rng, x, make, p, depth + 1) for x in tree['args']]
        return out
    return tree


def nest_seq(rng, x):
    """sequences directly inside sequences"""
    for _ in range(rng.choice([1, 2, 3])):
        x = [x] if rng.random() < 0.6 else [{'int': '0'}, x, []]
    return x


def script_with(rng, names, make, budget):
    shape = rng.random()
    base = gen_tree(rng, names, budget, big_ok=False)[0]
    t = plant(rng, base, make)
    if shape < 0.25:
        # type / code / data positions of a contract-like script
        t = [{'prim': 'parameter', 'args': [plant(rng, {'prim': 'pair', 'args': [{'prim': 'int'}, {'prim': 'nat'}]}, make, 0.4)]},
             {'prim': 'storage', 'args': [make() if rng.random() < 0.5 else {'prim': 'unit'}]},
             {'prim': 'code', 'args': [[{'prim': 'DROP'}, {'prim': 'PUSH', 'args': [{'prim': 'int'}, make()]}, nest_seq(rng, make()), t]]}]
    elif shape < 0.5:
        t = nest_seq(rng, t if rng.random() < 0.5 else make())
    elif shape < 0.6:
        t = make()
    return t


def gen_history(rng, names):
    """returns list of ops; an op is ('register', e) | ('resolve', n) | ('reset',)"""
    from pytezos.michelson.forge import forge_micheline
    pool = []          # (expr, hash)
    ops = []

    def known():
        return rng.choice(pool)[1] if pool else 'exprNOPE'

    def make_ref():
        k = rng.random()
        if k < 0.8 and pool:
            return ref(known(), rng)
        if k < 0.9:
            return ref(rng.choice(['exprtrpoeDzM3su4bwEdzXewTxXjXbiCBu2bxtMKWk5k2eW2Rqod86', 'expr', '', 'x']), rng)
        return bad_ref(rng)

    def make_good_ref():
        return ref(known(), rng, plain=rng.random() < 0.7) if pool else {'prim': 'Unit'}

    # a pool of expressions: leaves first, then expressions that mention earlier ones (chains up to depth 5)
    n_pool = rng.choice([1, 2, 3, 4, 6])
    for i in range(n_pool):
        e = gen_tree(rng, names, rng.choice([1, 2, 3, 5, 8]), big_ok=False)[0]
        if pool and rng.random() < 0.7:
            e = plant(rng, e, make_good_ref, 0.5) if rng.random() < 0.7 else nest_seq(rng, make_good_ref())
            if rng.random() < 0.3:
                e = ref(pool[-1][1], rng, plain=True)   # a constant that is just another constant
        ok, b = lib.call(forge_micheline, e)
        if not ok:
            continue
        pool.append((e, my_hash(b)))
    order = list(pool)
    k = rng.random()
    if k < 0.35:
        order.reverse()                      # outer constants registered before the inner ones
    elif k < 0.7:
        rng.shuffle(order)
    missing = order.pop() if order and rng.random() < 0.25 else None   # one constant is never registered
    for i, (e, h) in enumerate(order):
        ops.append(('register', e))
        if rng.random() < 0.3:
            ops.append(('resolve', script_with(rng, names, make_ref, rng.choice([1, 3, 6, 12, 25, 50]))))
    if order and rng.random() < 0.2:
        ops.append(('register', order[0][0]))   # same expression twice
    for _ in range(rng.choice([1, 2, 3])):
        ops.append(('resolve', script_with(rng, names, make_ref if rng.random() < 0.5 else make_good_ref, rng.choice([1, 3, 6, 12, 25, 50]))))
    if rng.random() < 0.45:
        first = [o for o in ops if o[0] == 'resolve']
        ops.append(('reset',))
        ops.append(('resolve', rng.choice(first)[1]))            # the same script again: everything is unknown now
        ops.append(('resolve', script_with(rng, names, make_good_ref, 6)))
        if order and rng.random() < 0.6:
            for e, h in order[:rng.choice([1, 2])]:
                ops.append(('register', e))
            ops.append(('resolve', rng.choice(first)[1]))
            ops.append(('resolve', ref(order[0][1], rng, plain=True)))
    return ops, [h for _, h in pool]


# ---------------------------------------------------------------------------------------------- running

def run_history(ops, preset=None):
    from pytezos.context.impl import ExecutionContext
    ctx = ExecutionContext(global_constants=dict(preset)) if preset is not None else ExecutionContext()
    outs = []
    for o in ops:
        if o[0] == 'register':
            lib.call(ctx.register_global_constant, o[1])
        elif o[0] == 'resolve':
            outs.append(lib.call(ctx.resolve_global_constants, o[1]))
        else:
            ctx.reset()
    try:
        final = dict(ctx.global_constants)
    except Exception:  # noqa: BLE001
        final = {}
    return outs, final


def spec_history(ops, preset=None):
    from pytezos.michelson.forge import forge_micheline
    reg = dict(preset or {})
    outs = []
    tbl = {}
    for o in ops:
        if o[0] == 'register':
            b = forge_micheline(o[1])
            tbl[b] = my_hash(b)
            reg[tbl[b]] = o[1]
        elif o[0] == 'resolve':
            try:
                outs.append((True, spec_resolve(reg, o[1])))
            except Unknown as e:
                outs.append((False, e))
        else:
            reg = {}
    return outs, reg, tbl


def run(ctx: lib.Ctx) -> None:
    from pytezos.michelson.tags import prim_tags
    rng = ctx.rng
    names = [k for k, v in prim_tags.items() if v != b'\xee' and k != 'constant']
    ctx.rule = ('histories of register / resolve / reset calls on a real ExecutionContext: 1-6 registered expressions that mention each other (chains to depth 5, '
                'registered inner-first, outer-first or shuffled, one sometimes never registered, one sometimes twice), scripts of 1-50 nodes with references planted '
                'at every depth in argument and sequence positions (type/code/data positions of a contract skeleton, sequences directly inside sequences), '
                'unknown hashes, malformed constant nodes, annotated references; reset() followed by the same scripts; contexts created with global_constants=...; '
                'non-trivial = a resolve call whose script contains at least one constant node; distinct = distinct history')
    violations = 0

    def violate(what, replay, found=True):
        nonlocal violations
        if violations < 3:
            ctx.violation(what, replay, found=found)
        violations += 1

    # the harness's hash against the recorded vectors
    from pytezos.michelson.forge import forge_micheline
    ctx.table('expr hash vectors of tests/unit_tests/test_michelson/test_repl/test_constants.py (3) vs harness hash (hashlib.blake2b + base58check)')
    vectors = {'exprvKFFbc7SnPjkPZgyhaHewQhmrouNjNae3DpsQ8KuADn9i2WuJ8': {'prim': 'unit'},
               'expruu5BTdW7ajqJ9XPTF3kgcV78pRiaBW3Gq31mgp3WSYjjUBYxre': {'prim': 'int'},
               'exprtrpoeDzM3su4bwEdzXewTxXjXbiCBu2bxtMKWk5k2eW2Rqod86': {'int': '12345'}}
    for h, e in vectors.items():
        if my_hash(forge_micheline(e)) != h:
            raise lib.InternalError(f'harness hash disagrees with the recorded vector {h}')

    histories = []
    for path in sorted(glob.glob(os.path.join(lib.VERIF, 'corpus', PROP, '*.json'))):
        doc = json.load(open(path))
        ctx.corpus_cases += 1
        histories.append(([tuple(o) for o in doc['ops']], doc.get('probes', []), doc.get('preset')))
    # fixed shapes first (the three classic ways to get this wrong)
    a = {'int': '7'}
    ha = my_hash(forge_micheline(a))
    b = {'prim': 'Pair', 'args': [ref(ha, rng, True), {'string': 'x'}], 'annots': ['%p']}
    hb = my_hash(forge_micheline(b))
    c = [[ref(hb, rng, True)], {'prim': 'Some', 'args': [ref(ha, rng, True)]}]
    hc = my_hash(forge_micheline(c))
    for order in ([a, b, c], [c, b, a], [b, c, a]):
        ops = [('register', e) for e in order]
        ops += [('resolve', ref(hc, rng, True)), ('resolve', [[[ref(hb, rng, True)]], [[]], [[{'int': '1'}, [ref(ha, rng, True)]]]]),
                ('resolve', {'prim': 'PUSH', 'args': [ref(ha, rng, True), ref(hc, rng, True)], 'annots': ['@v']}),
                ('reset',), ('resolve', ref(hc, rng, True)), ('resolve', ref(ha, rng, True)), ('resolve', {'int': '1'}),
                ('register', a), ('resolve', ref(ha, rng, True)), ('resolve', ref(hb, rng, True))]
        histories.append((ops, [ha, hb, hc], None))
    histories.append(([('resolve', ref(hc, rng, True)), ('resolve', [[ref(hb, rng, True)]])], [ha, hb, hc], {hc: c, hb: b, ha: a}))
    histories.append(([('resolve', ref(hc, rng, True))], [ha, hb, hc], {hc: c, hb: b}))
    for _ in range(ctx.n(220, 2500)):
        ops, probes = gen_history(rng, names)
        preset = None
        if rng.random() < 0.12:   # the same registrations handed over through the constructor
            _, reg, _ = spec_history([o for o in ops if o[0] == 'register'])
            preset, ops = reg, [o for o in ops if o[0] != 'register' or rng.random() < 0.2]
        histories.append((ops, probes, preset))

    cases, meta = [], []
    for ops, probes, preset in histories:
        outs, final = run_history(ops, preset)
        s_outs, s_reg, tbl = spec_history(ops, preset)
        pre_ops = [('register', e) for e in (preset or {}).values()]
        if preset:
            for e in preset.values():
                bb = forge_micheline(e)
                tbl[bb] = my_hash(bb)
        resolves = [o[1] for o in ops if o[0] == 'resolve']
        nontrivial = any(has_constant(n) for n in resolves)
        ctx.case(json.dumps([ops, preset], sort_keys=True, default=str), nontrivial=nontrivial,
                 kind=f'registers={sum(1 for o in ops if o[0] == "register")},reset={int(any(o[0] == "reset" for o in ops))},preset={int(preset is not None)}',
                 sample={'ops': [o[0] for o in ops], 'results': ['ok' if ok else 'raises' for ok, _ in outs]} if len(ops) < 9 else None)
        for (ok, val), n in zip(outs, resolves):
            ctx.dist['resolve:' + ('ok' if ok else 'raises') + (':refs' if has_constant(n) else ':plain')] += 1
        probes = list(probes) + ['exprNOPE']
        lit_in = (f'({clist("(" + chex(k) + ", " + chex(v.encode()) + ")" for k, v in tbl.items())}, '
                  f'{clist(op_lit(o) for o in pre_ops + list(ops))}, {clist(chex(p.encode()) for p in probes)})')
        lit_out = (f'({clist(rres_lit(ok, val) for ok, val in outs)}, '
                   f'{clist(copt(node_or_bad(final[p])) if p in final else "None" for p in probes)})')
        cases.append((lit_in, lit_out))
        meta.append((ops, preset, outs, final))

        # ---- (B) the property on the implementation's outputs
        for i, ((ok, val), (s_ok, s_val), n) in enumerate(zip(outs, s_outs, resolves)):
            rep = {'history': [list(o) for o in ops], 'preset': preset, 'resolve_index': i, 'script': n,
                   'result': val if ok else repr(val), 'expected': s_val if s_ok else 'an exception (unknown or malformed reference)',
                   'repro': 'c=ExecutionContext(global_constants=preset or None); replay history with c.register_global_constant / c.resolve_global_constants / c.reset()'}
            if isinstance(val, RecursionError):
                continue
            if ok and not s_ok:
                violate('resolve_global_constants succeeds although a reference is unknown or malformed', rep)
            elif not ok and s_ok:
                violate('resolve_global_constants fails although every reference is registered', rep)
            elif ok:
                okc, cv = lib.call(lib.canon_micheline, val)
                cs = lib.canon_micheline(s_val)
                if not okc:
                    violate('resolve_global_constants returned something that is not a Micheline expression', rep)
                elif has_constant(cv):
                    violate('a constant node remains after expansion', rep)
                elif cv != cs:
                    violate('expansion differs from the registered expressions / changes something else', rep)
        if set(final) != set(s_reg):
            violate('registry keys differ from the Tezos expression hashes of the registered expressions',
                    {'history': [list(o) for o in ops], 'registry': sorted(final), 'expected': sorted(s_reg)})

    eval_error = None
    try:
        bad = ctx.coq_mismatches('hist', IMPORTS, 'chk', 'chk_eqb', 'hist', 'list (rres node) * list (option node)', cases,
                                 prelude=PRELUDE, shard=max(30, min(120, -(-len(cases) // lib.n_jobs()))))
    except lib.InternalError as e:   # never crash on what a modified implementation produced
        bad, eval_error = [], str(e)[-1500:]

    # ---- ContractInterface.from_micheline: expansion in type, code and data positions of a real script
    from pytezos.contract.interface import ContractInterface
    from pytezos.context.impl import ExecutionContext
    ci_cases = []
    for _ in range(ctx.n(6, 40)):
        ty = rng.choice([{'prim': 'int'}, {'prim': 'nat'}, {'prim': 'pair', 'args': [{'prim': 'int'}, {'prim': 'string'}]}])
        val = {'int': str(rng.randrange(100))}
        body = [{'prim': 'DROP'}, {'prim': 'PUSH', 'args': [{'prim': 'int'}, val]}, {'prim': 'NIL', 'args': [{'prim': 'operation'}]}, {'prim': 'PAIR'}]
        c = ExecutionContext()
        regs = {}
        for e in (ty, val, body[2], {'prim': 'int'}):
            c.register_global_constant(e)
            regs[my_hash(forge_micheline(e))] = e
        hk = {json.dumps(v, sort_keys=True): k for k, v in regs.items()}
        r = lambda e: ref(hk[json.dumps(e, sort_keys=True)], rng, True)  # noqa: E731
        script = [{'prim': 'parameter', 'args': [r(ty)]}, {'prim': 'storage', 'args': [r({'prim': 'int'})]},
                  {'prim': 'code', 'args': [[body[0], {'prim': 'PUSH', 'args': [r({'prim': 'int'}), r(val)]}, r(body[2]), body[3]]]}]
        ok, ci = lib.call(ContractInterface.from_micheline, script, c)
        got = lib.call(lambda: ci.context.script['code']) if ok else (False, ci)
        ok = got[0]
        ctx.case(json.dumps(script, sort_keys=True), kind='from_micheline:' + ('ok' if ok else 'raises'))
        want = spec_resolve(regs, script)
        if not ok or lib.call(lib.canon_micheline, got[1]) != (True, lib.canon_micheline(want)):
            violate('ContractInterface.from_micheline does not expand the constants of the script',
                    {'script': script, 'registered': regs, 'result': repr(got[1])[:2000], 'expected': want,
                     'repro': 'ContractInterface.from_micheline(script, context).context.script["code"]'})
        reg_lit = clist('(' + chex(k.encode()) + ', ' + cnode(lib.canon_micheline(v)) + ')' for k, v in regs.items())
        ci_cases.append((f'({reg_lit}, {cnode(lib.canon_micheline(script))})', rres_lit(*got)))
    try:
        bad_ci = ctx.coq_mismatches('ci', IMPORTS, 'chk0', 'rres_node_eqb', 'registry * node', 'rres node', ci_cases, prelude=PRELUDE)
    except lib.InternalError as e:   # never crash on what a modified implementation produced
        bad_ci, eval_error = [], str(e)[-1500:]

    ctx.extra['histories'] = len(cases)
    if violations == 0 and (bad or bad_ci or eval_error):
        rep = {'correspondence': 'C33/ExecutionContext.register_global_constant+resolve_global_constants+reset vs Michelson.Constants.run', 'model_evaluation_error': eval_error,
               'disagreements': len(bad) + len(bad_ci)}
        if bad:
            i = min(bad, key=lambda j: len(cases[j][0]))
            ops, preset, outs, final = meta[i]
            rep.update({'history': [list(o) for o in ops], 'preset': preset, 'impl_results': [v if ok else repr(v) for ok, v in outs],
                        'impl_registry': final, 'model': ctx.coq_eval(IMPORTS, f'chk {cases[i][0]}', prelude=PRELUDE)[:3000]})
        violate('implementation no longer corresponds to the model the theorems are about', rep, found=False)
