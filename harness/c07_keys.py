"""Shared by harness/c07.py and harness/c08.py.

* `Recorder` + `patched()`: while the real pytezos code runs, every native primitive it reaches through the
  module globals of pytezos.crypto.key / pytezos.crypto.encoding (pysodium, coincurve, fastecdsa, py_ecc G2,
  hashlib, blake2b, base58, mnemonic.Mnemonic) is routed through recording proxies that call the real library
  and note (name, arguments, result / exception class).  The recorded calls are the finite oracle table handed
  to the Coq model (Client/KeyGlue.v `prims_of`).
* Coq literal rendering of tables, keys, operations and outcomes (Client/KeyStore.v `op`, `outcome`).
* runners that execute one operation of the implementation and return (table, outcome literal, python result).
* independent reference computations used by the (B) oracles.
"""
from __future__ import annotations

import contextlib
import hashlib
import os
import types
import unicodedata

import lib
from lib import cbool, chex, clist, cN, copt

IMPORTS = 'From Coq Require Import Uint63.\nFrom PV Require Import Client.KeyGlue Client.KeyStore.'

# Byte strings in generated case files are packed seven bytes per primitive-integer literal: a `hx "…"` string literal
# costs Coq ~0.25 ms per byte to elaborate (every character is an `Ascii` of eight booleans), this form ~0.01 ms.
PRELUDE = '''
Fixpoint w7 (n : nat) (x : int) (acc : bytes) : bytes :=
  match n with O => acc | S n' => w7 n' (x >> 8)%uint63 (b8 (Z.to_N (to_Z (x land 255)%uint63)) :: acc) end.
Fixpoint hbw (k : nat) (ws : list int) : bytes :=
  match ws with [] => [] | [w] => w7 k w [] | w :: r => w7 7 w [] ++ hbw k r end.
Definition hb (k : int) (ws : list int) : bytes := hbw (Z.to_nat (to_Z k)) ws.
'''

ORACLE_NAMES = ['blake2b', 'sha256', 'b58enc', 'b58dec', 'ed_seed_keypair', 'ed_sk_to_pk', 'ed_sk_to_seed', 'ed_sign', 'ed_verify', 'sp_pk', 'sp_sign',
                'sp_decode', 'sp_parse', 'sp_verify', 'p2_pk', 'p2_sign', 'p2_decode', 'p2_verify', 'bl_pk', 'bl_sign', 'bl_verify', 'pbkdf2', 'secretbox',
                'secretbox_open', 'to_seed', 'nf_split', 'word_index']
PRELUDE += ''.join(f'Definition n_{n} := "{n}"%string.\n' for n in ORACLE_NAMES)


def cblob(b: bytes) -> str:
    b = bytes(b)
    if not b:
        return '(@nil byte)'
    ws = [b[i:i + 7] for i in range(0, len(b), 7)]
    return '(hb %d%%uint63 [%s]%%uint63)' % (len(ws[-1]), ';'.join('0x' + w.hex() for w in ws))

CURVES = [b'ed', b'sp', b'p2', b'BL']
BLS_R = 0x73EDA753299D7D483339D80809A1D80553BDA402FFFE5BFEFFFFFFFF00000001
SECP_N = 0xFFFFFFFFFFFFFFFFFFFFFFFFFFFFFFFEBAAEDCE6AF48A03BBFD25E8CD0364141
P256_N = 0xFFFFFFFF00000000FFFFFFFFFFFFFFFFBCE6FAADA7179E84F3B9CAC2FC632551


# ------------------------------------------------------------------------------------------------
# recording
# ------------------------------------------------------------------------------------------------

class Recorder:
    def __init__(self):
        self.calls: list[tuple[str, tuple, object]] = []
        self.salt = b'\x00' * 8
        self.conflict = None

    def rec(self, name: str, args: list, ret) -> None:
        """ret: list of values (returned), 'V' (ValueError), 'O' (other exception)"""
        key = (name, tuple(args))
        for n, a, r in self.calls:
            if (n, a) == key:
                if r != ret and self.conflict is None:
                    self.conflict = (name, args, r, ret)
                return
        self.calls.append((name, tuple(args), ret if isinstance(ret, str) else list(ret)))

    def call(self, name: str, args: list, f, conv=lambda v: [v]):
        """Run native call f(); record result or exception class; re-raise."""
        try:
            v = f()
        except ValueError:
            self.rec(name, args, 'V')
            raise
        except BaseException:
            self.rec(name, args, 'O')
            raise
        self.rec(name, args, conv(v))
        return v


def _exc_kind(e: BaseException) -> str:
    return 'V' if isinstance(e, ValueError) else 'O'


@contextlib.contextmanager
def patched(rec: Recorder):
    """Install the recording proxies into the module globals of the code under check."""
    import base58 as real_b58
    import coincurve as real_cc
    import fastecdsa as real_fe
    import fastecdsa.curve
    import fastecdsa.ecdsa
    import fastecdsa.encoding.sec1
    import fastecdsa.keys
    import mnemonic as real_mn
    import pysodium as real_ps
    from coincurve import ecdsa as real_ecdsa
    from py_ecc.bls import G2MessageAugmentation as RealG2

    import pytezos.crypto.encoding as E
    import pytezos.crypto.key as K

    # ---- hashlib / blake2b
    def blake2b_proxy(data=b'', *, digest_size=64, key=b'', **kw):
        h = hashlib.blake2b(data, digest_size=digest_size, key=key, **kw)
        if not key and not kw:
            rec.rec('blake2b', [digest_size, bytes(data)], [h.digest()])
        return h

    class HashlibProxy:
        def __getattr__(self, item):
            return getattr(hashlib, item)

        @staticmethod
        def sha256(data=b''):
            h = hashlib.sha256(data)
            rec.rec('sha256', [bytes(data)], [h.digest()])
            return h

        @staticmethod
        def pbkdf2_hmac(hash_name, password, salt, iterations, dklen=None):
            out = hashlib.pbkdf2_hmac(hash_name, password, salt, iterations, dklen)
            name = 'pbkdf2' if (hash_name, iterations, dklen) == ('sha512', 32768, 32) else f'pbkdf2/{hash_name}/{iterations}/{dklen}'
            rec.rec(name, [bytes(password), bytes(salt)], [out])
            return out

    # ---- pysodium
    class SodiumProxy:
        def __getattr__(self, item):
            return getattr(real_ps, item)

        @staticmethod
        def crypto_generichash(m, k=b'', outlen=32):
            out = real_ps.crypto_generichash(m, k=k, outlen=outlen)
            if not k:
                rec.rec('blake2b', [outlen, bytes(m)], [out])
            return out

        @staticmethod
        def crypto_sign_seed_keypair(seed):
            return rec.call('ed_seed_keypair', [bytes(seed)], lambda: real_ps.crypto_sign_seed_keypair(seed), conv=lambda v: [v[0], v[1]])

        @staticmethod
        def crypto_sign_sk_to_pk(sk):
            return rec.call('ed_sk_to_pk', [bytes(sk)], lambda: real_ps.crypto_sign_sk_to_pk(sk))

        @staticmethod
        def crypto_sign_sk_to_seed(sk):
            return rec.call('ed_sk_to_seed', [bytes(sk)], lambda: real_ps.crypto_sign_sk_to_seed(sk))

        @staticmethod
        def crypto_sign_detached(m, sk):
            return rec.call('ed_sign', [bytes(m), bytes(sk)], lambda: real_ps.crypto_sign_detached(m, sk))

        @staticmethod
        def crypto_sign_verify_detached(sig, msg, pk):
            return rec.call('ed_verify', [bytes(sig), bytes(msg), bytes(pk)],
                            lambda: real_ps.crypto_sign_verify_detached(sig, msg, pk), conv=lambda v: [1])

        @staticmethod
        def randombytes(n):
            assert n == len(rec.salt), n
            return rec.salt

        @staticmethod
        def crypto_secretbox(msg, nonce, k):
            return rec.call('secretbox', [bytes(msg), bytes(nonce), bytes(k)], lambda: real_ps.crypto_secretbox(msg, nonce, k))

        @staticmethod
        def crypto_secretbox_open(c, nonce, k):
            return rec.call('secretbox_open', [bytes(c), bytes(nonce), bytes(k)], lambda: real_ps.crypto_secretbox_open(c, nonce, k))

    # ---- coincurve
    class PrivateKeyProxy:
        def __init__(self, secret):
            self._secret = bytes(secret)
            try:
                self._k = real_cc.PrivateKey(secret)
            except BaseException as e:
                rec.rec('sp_pk', [self._secret], _exc_kind(e))
                raise

        @property
        def public_key(self):
            outer = self

            class Pub:
                @staticmethod
                def format(compressed=True):
                    out = outer._k.public_key.format(compressed)
                    rec.rec('sp_pk' if compressed else 'sp_pk/uncompressed', [outer._secret], [out])
                    return out
            return Pub()

        def sign(self, message, hasher=None, **kw):
            digest = hasher(message) if hasher is not None else b''
            der = self._k.sign(message, hasher=hasher, **kw)
            compact = real_ecdsa.serialize_compact(real_ecdsa.der_to_cdata(der))
            rec.rec('sp_sign', [self._secret, bytes(digest)], [compact])
            return der

    class PublicKeyProxy:
        def __init__(self, data):
            self._data = bytes(data)
            self._k = rec.call('sp_decode', [self._data], lambda: real_cc.PublicKey(data), conv=lambda v: [1])

        def verify(self, signature, message, hasher=None):
            digest = hasher(message) if hasher is not None else b''
            try:
                compact = real_ecdsa.serialize_compact(real_ecdsa.der_to_cdata(signature))
            except BaseException:
                compact = b'?' + bytes(signature)
            return rec.call('sp_verify', [self._data, compact, bytes(digest)],
                            lambda: self._k.verify(signature, message, hasher=hasher), conv=lambda v: [1 if v else 0])

    cc_proxy = types.SimpleNamespace(PrivateKey=PrivateKeyProxy, PublicKey=PublicKeyProxy)

    class EcdsaProxy:
        def __getattr__(self, item):
            return getattr(real_ecdsa, item)

        @staticmethod
        def deserialize_compact(ser, *a, **kw):
            return rec.call('sp_parse', [bytes(ser)], lambda: real_ecdsa.deserialize_compact(ser, *a, **kw), conv=lambda v: [1])

    # ---- fastecdsa
    points: dict[int, tuple] = {}   # id(point) -> (point, ('d', int) | ('pk', bytes))

    def fe_get_public_key(d, curve=None):
        try:
            pt = real_fe.keys.get_public_key(d, curve=curve)
        except BaseException as e:
            rec.rec('p2_pk', [int(d)], _exc_kind(e))
            raise
        points[id(pt)] = (pt, ('d', int(d), curve is real_fe.curve.P256))
        return pt

    class SEC1Proxy:
        @staticmethod
        def encode_public_key(pt, compressed=True):
            info = points.get(id(pt))
            if info and info[1][0] == 'd':
                name = 'p2_pk' if (info[1][2] and compressed) else 'p2_pk/other'
                return rec.call(name, [info[1][1]], lambda: real_fe.encoding.sec1.SEC1Encoder.encode_public_key(pt, compressed))
            return real_fe.encoding.sec1.SEC1Encoder.encode_public_key(pt, compressed)

        @staticmethod
        def decode_public_key(data, curve=None):
            name = 'p2_decode' if curve is real_fe.curve.P256 else 'p2_decode/other'
            pt = rec.call(name, [bytes(data)], lambda: real_fe.encoding.sec1.SEC1Encoder.decode_public_key(data, curve=curve), conv=lambda v: [1])
            points[id(pt)] = (pt, ('pk', bytes(data)))
            return pt

    def fe_sign(msg, d, curve=real_fe.curve.P256, hashfunc=hashlib.sha256, prehashed=False):
        digest = hashfunc(msg).digest()
        name = 'p2_sign' if (curve is real_fe.curve.P256 and not prehashed) else 'p2_sign/other'
        return rec.call(name, [int(d), digest],
                        lambda: real_fe.ecdsa.sign(msg, d, curve=curve, hashfunc=hashfunc, prehashed=prehashed),
                        conv=lambda v: [int(v[0]), int(v[1])])

    def fe_verify(sig, msg, Q, curve=real_fe.curve.P256, hashfunc=hashlib.sha256, prehashed=False):  # noqa: N803
        digest = hashfunc(msg).digest()
        info = points.get(id(Q))
        pk = info[1][1] if info and info[1][0] == 'pk' else real_fe.encoding.sec1.SEC1Encoder.encode_public_key(Q)
        name = 'p2_verify' if (curve is real_fe.curve.P256 and not prehashed) else 'p2_verify/other'
        return rec.call(name, [pk, digest, int(sig[0]), int(sig[1])],
                        lambda: real_fe.ecdsa.verify(sig, msg, Q, curve=curve, hashfunc=hashfunc, prehashed=prehashed),
                        conv=lambda v: [1 if v else 0])

    fe_proxy = types.SimpleNamespace(
        curve=real_fe.curve,
        keys=types.SimpleNamespace(get_public_key=fe_get_public_key),
        encoding=types.SimpleNamespace(sec1=types.SimpleNamespace(SEC1Encoder=SEC1Proxy)),
        ecdsa=types.SimpleNamespace(sign=fe_sign, verify=fe_verify),
    )

    # ---- py_ecc
    class G2Proxy:
        @staticmethod
        def SkToPk(sk):  # noqa: N802
            return rec.call('bl_pk', [int(sk)], lambda: RealG2.SkToPk(sk), conv=lambda v: [bytes(v)])

        @staticmethod
        def Sign(sk, message):  # noqa: N802
            return rec.call('bl_sign', [int(sk), bytes(message)], lambda: RealG2.Sign(sk, message), conv=lambda v: [bytes(v)])

        @staticmethod
        def Verify(pk, message, signature):  # noqa: N802
            return rec.call('bl_verify', [bytes(pk), bytes(message), bytes(signature)],
                            lambda: RealG2.Verify(pk, message, signature), conv=lambda v: [1 if v else 0])

    # ---- base58
    class B58Proxy:
        def __getattr__(self, item):
            return getattr(real_b58, item)

        @staticmethod
        def b58encode_check(v, *a, **kw):
            return rec.call('b58enc', [bytes(v)], lambda: real_b58.b58encode_check(v, *a, **kw))

        @staticmethod
        def b58decode_check(v, *a, **kw):
            return rec.call('b58dec', [bytes(v)], lambda: real_b58.b58decode_check(v, *a, **kw))

    # ---- mnemonic
    class RecStr(str):
        def split(self, sep=None, maxsplit=-1):
            out = str.split(self, sep, maxsplit)
            rec.rec('nf_split' if sep == ' ' and maxsplit == -1 else 'nf_split/other', [str(self._orig)], [str(w) for w in out] or [])
            return out

    class WordList(list):
        def index(self, x, *a):
            return rec.call('word_index', [str(x)], lambda: list.index(self, x, *a), conv=lambda v: [int(v)])

    class MnemonicProxy:
        def __init__(self, language='english'):
            self._m = _mnemonic(language)
            self.wordlist = WordList(self._m.wordlist)
            self.language = language

        def normalize_string(self, txt):
            out = RecStr(self._m.normalize_string(txt))
            out._orig = txt
            return out

        @staticmethod
        def to_seed(mnemonic, passphrase=''):
            return rec.call('to_seed', [str(mnemonic), str(passphrase)], lambda: real_mn.Mnemonic.to_seed(mnemonic, passphrase=passphrase))

        def __getattr__(self, item):
            return getattr(self._m, item)

    def no_getpass(*a, **kw):
        raise RuntimeError('harness: getpass must not be reached')

    saved_k = {n: getattr(K, n) for n in ('hashlib', 'blake2b', 'pysodium', 'coincurve', 'ecdsa', 'fastecdsa', 'G2', 'Mnemonic', 'getpass')}
    saved_b58 = E.base58
    saved_env = os.environ.pop('PYTEZOS_PASSPHRASE', None)
    K.hashlib = HashlibProxy()
    K.blake2b = blake2b_proxy
    K.pysodium = SodiumProxy()
    K.coincurve = cc_proxy
    K.ecdsa = EcdsaProxy()
    K.fastecdsa = fe_proxy
    K.G2 = G2Proxy
    K.Mnemonic = MnemonicProxy
    K.getpass = no_getpass
    E.base58 = B58Proxy()
    try:
        yield rec
    finally:
        for n, v in saved_k.items():
            setattr(K, n, v)
        E.base58 = saved_b58
        if saved_env is not None:
            os.environ['PYTEZOS_PASSPHRASE'] = saved_env


_MN_CACHE: dict = {}


def _mnemonic(language='english'):
    import mnemonic
    if language not in _MN_CACHE:
        _MN_CACHE[language] = mnemonic.Mnemonic(language)
    return _MN_CACHE[language]


# ------------------------------------------------------------------------------------------------
# Coq literals
# ------------------------------------------------------------------------------------------------

def cpystr(s: str) -> str:
    if not s:
        return '(@nil N)'
    if all(ord(c) < 128 for c in s):
        return '(str_of ' + cblob(s.encode('ascii')) + ')'
    return '(pu ' + cblob(b''.join(ord(c).to_bytes(3, 'big') for c in s)) + ')'


def cbigN(n: int) -> str:
    return cN(n) if n < 65536 else '(nb ' + cblob(n.to_bytes((n.bit_length() + 7) // 8, 'big')) + ')'


def cpyin(v) -> str:
    return f'(PB {cblob(v)})' if isinstance(v, (bytes, bytearray)) else f'(PS {cpystr(v)})'


def carg(a) -> str:
    if isinstance(a, (bytes, bytearray)):
        return f'AB {cblob(a)}'
    if isinstance(a, bool):
        return f'AN {cN(int(a))}'
    if isinstance(a, int):
        return f'AN {cbigN(a)}'
    if isinstance(a, str):
        return f'AS {cpystr(a)}'
    raise lib.InternalError(f'cannot render oracle argument {a!r}')


def ctable(calls) -> str:
    rows = []
    for name, args, ret in calls:
        r = {'V': 'RaiseV', 'O': 'RaiseO'}[ret] if isinstance(ret, str) else f'(Ret {clist(carg(x) for x in ret)})'
        nm = f'n_{name}' if name in ORACLE_NAMES else f'"{name}"%string'
        rows.append(f'({nm}, {clist(carg(a) for a in args)}, {r})')
    return '(' + clist(rows) + ' : otable)' if rows else '(@nil (string * list arg * ret))'


def ckey(pub: bytes, sec, tag: bytes) -> str:
    return f'(mkkey {cblob(pub)} {copt(None if sec is None else cblob(sec))} {cblob(tag)})'


def ckey_of(k) -> str:
    return ckey(k.public_point, k.secret_exponent, k.curve)


def cres(x) -> str:
    return 'Reject' if x is None else f'(Ok {x})'


def o_str(ok, v) -> str:
    return f'(OStr {cres(cpystr(v) if ok else None)})'


def o_key(ok, k) -> str:
    return f'(OKey {cres(ckey_of(k) if ok else None)})'


def o_bytes(ok, v) -> str:
    return f'(OBytes {cres(cblob(v) if ok else None)})'


def key_tuple(k):
    return (k.public_point, k.secret_exponent, k.curve)


# ------------------------------------------------------------------------------------------------
# running one operation of the implementation under the recorder
# ------------------------------------------------------------------------------------------------

def run_recorded(f, salt: bytes = b'\x00' * 8):
    """-> (ok, value_or_exception, calls)"""
    rec = Recorder()
    rec.salt = salt
    with patched(rec):
        ok, val = lib.call(f)
    if rec.conflict:
        raise lib.InternalError(f'a native primitive answered the same call differently: {rec.conflict!r}')
    return ok, val, rec.calls


def verdict(ok, val) -> str:
    if ok:
        return 'Valid' if val is True else 'Crashed'
    return 'Invalid' if isinstance(val, ValueError) else 'Crashed'


def check_signature_impl(pk: str, sig: str, msg: bytes):
    """Execute the CHECK_SIGNATURE instruction on (key, signature, bytes); returns the pushed bool."""
    from pytezos.context.impl import ExecutionContext
    from pytezos.michelson.instructions.crypto import CheckSignatureInstruction
    from pytezos.michelson.stack import MichelsonStack
    from pytezos.michelson.types import BytesType, KeyType, SignatureType

    stack = MichelsonStack()
    stack.push(BytesType.from_value(msg))
    stack.push(SignatureType.from_value(sig))
    stack.push(KeyType.from_value(pk))
    CheckSignatureInstruction.execute(stack, [], ExecutionContext())
    res = stack.pop1()
    return bool(res)


def hash_key_impl(pk: str) -> str:
    from pytezos.context.impl import ExecutionContext
    from pytezos.michelson.instructions.crypto import HashKeyInstruction
    from pytezos.michelson.stack import MichelsonStack
    from pytezos.michelson.types import KeyType

    stack = MichelsonStack()
    stack.push(KeyType.from_value(pk))
    HashKeyInstruction.execute(stack, [], ExecutionContext())
    return str(stack.pop1())


# ------------------------------------------------------------------------------------------------
# generators
# ------------------------------------------------------------------------------------------------

def rand_secret(rng, curve: bytes, boundary: bool = True) -> bytes:
    """32 bytes that the curve's native derivation accepts (BLS: < r, little endian; sp/p2: in [1, n-1] big endian),
    biased to boundary scalars."""
    order = {b'sp': SECP_N, b'p2': P256_N, b'BL': BLS_R}.get(curve)
    if curve == b'ed':
        k = rng.random()
        if boundary and k < 0.1:
            return bytes([rng.choice([0, 255])]) * 32
        return rng.randbytes(32)
    k = rng.random()
    if boundary and k < 0.25:
        n = rng.choice([1, 2, 255, 256, 2 ** 128, order - 1, order - 2, order // 2, 2 ** 248, 2 ** 248 - 1])
    elif boundary and k < 0.35:
        n = rng.getrandbits(rng.choice([8, 16, 64, 200])) or 1      # leading zero bytes
    else:
        n = rng.randrange(1, order)
    return n.to_bytes(32, 'little' if curve == b'BL' else 'big')


def rand_message(rng):
    """-> (message as handed to the API (bytes or str), the bytes it denotes or None when it is rejected)"""
    k = rng.random()
    raw = rng.randbytes(rng.choice([0, 1, 2, 3, 16, 31, 32, 33, 64, 100]))
    if k < 0.35:
        return raw, raw
    if k < 0.55:
        return raw.hex(), raw
    if k < 0.62:
        return '0x' + raw.hex(), raw
    if k < 0.68:
        return raw.hex().upper(), raw
    if k < 0.74:  # hex with whitespace between bytes
        return ' '.join(raw.hex()[i:i + 2] for i in range(0, 2 * len(raw), 2)) + rng.choice(['', ' ', '\n']), raw
    if k < 0.80:  # odd number of hex digits -> not hex -> ASCII text
        s = raw.hex() + rng.choice('0123456789abcdef')
        return s, s.encode()
    if k < 0.90:  # plain ASCII text
        s = ''.join(rng.choice('hello world, Tezos! 0x#ghiXYZ') for _ in range(rng.randrange(1, 24)))
        try:
            return s, bytes.fromhex(s.removeprefix('0x'))
        except ValueError:
            return s, s.encode()
    if k < 0.95:  # '0x0x..' : only one prefix is removed
        s = '0x0x' + raw.hex()
        try:
            return s, bytes.fromhex(s[2:])
        except ValueError:
            return s, s.encode()
    s = rng.choice(['héllo', '€', 'abÿ', '12\U0001f600'])   # non-ASCII: rejected
    return s, None


def rand_passphrase(rng):
    k = rng.random()
    if k < 0.15:
        return ''
    if k < 0.2:
        return b''
    if k < 0.5:
        return ''.join(rng.choice('abcXYZ019 _-!') for _ in range(rng.randrange(1, 20)))
    if k < 0.7:
        return ''.join(rng.choice(['é', 'ü', '€', '中', '\U0001f600', 'a', ' ', '́', '߿', 'ࠀ', '￿', '\U00010000']) for _ in range(rng.randrange(1, 8)))
    if k < 0.9:
        return rng.randbytes(rng.randrange(1, 12))
    return rng.choice(['0', ' ', '\x00', b'\x00', 'None'])


# ------------------------------------------------------------------------------------------------
# independent references for the (B) oracles
# ------------------------------------------------------------------------------------------------

PKH_BIN = {b'ed': bytes([6, 161, 159]), b'sp': bytes([6, 161, 161]), b'p2': bytes([6, 161, 164]), b'BL': bytes([6, 161, 166])}
PKH_TXT = {b'ed': 'tz1', b'sp': 'tz2', b'p2': 'tz3', b'BL': 'tz4'}


def ref_pkh(curve: bytes, pub: bytes) -> str:
    import base58
    return base58.b58encode_check(PKH_BIN[curve] + hashlib.blake2b(pub, digest_size=20).digest()).decode()


def ref_public_point(curve: bytes, secret: bytes) -> bytes | None:
    """Public key derived by an independent implementation (`cryptography`; BLS: py_ecc's non-optimized
    curve arithmetic with our own point compression)."""
    try:
        from cryptography.hazmat.primitives import serialization
        from cryptography.hazmat.primitives.asymmetric import ec, ed25519
    except ImportError:
        return None
    if curve == b'ed':
        seed = secret[:32]
        return ed25519.Ed25519PrivateKey.from_private_bytes(seed).public_key().public_bytes(
            serialization.Encoding.Raw, serialization.PublicFormat.Raw)
    if curve in (b'sp', b'p2'):
        crv = ec.SECP256K1() if curve == b'sp' else ec.SECP256R1()
        d = int.from_bytes(secret, 'big')
        return ec.derive_private_key(d, crv).public_key().public_bytes(
            serialization.Encoding.X962, serialization.PublicFormat.CompressedPoint)
    if curve == b'BL':
        from py_ecc import bls12_381 as slow
        q = slow.field_modulus
        x, y = slow.multiply(slow.G1, int.from_bytes(secret, 'little'))
        z = int(x) | (1 << 383)
        if int(y) * 2 // q:
            z |= 1 << 381
        return z.to_bytes(48, 'big')
    return None


def ref_verify(curve: bytes, pub: bytes, raw_sig: bytes, message: bytes) -> bool | None:
    """Independent verification over the Blake2b-256 digest (None: no independent implementation here)."""
    try:
        from cryptography.exceptions import InvalidSignature
        from cryptography.hazmat.primitives import hashes
        from cryptography.hazmat.primitives.asymmetric import ec, ed25519, utils
    except ImportError:
        return None
    digest = hashlib.blake2b(message, digest_size=32).digest()
    try:
        if curve == b'ed':
            ed25519.Ed25519PublicKey.from_public_bytes(pub).verify(raw_sig, digest)
            return True
        if curve in (b'sp', b'p2'):
            crv = ec.SECP256K1() if curve == b'sp' else ec.SECP256R1()
            pk = ec.EllipticCurvePublicKey.from_encoded_point(crv, pub)
            der = utils.encode_dss_signature(int.from_bytes(raw_sig[:32], 'big'), int.from_bytes(raw_sig[32:], 'big'))
            pk.verify(der, digest, ec.ECDSA(utils.Prehashed(hashes.SHA256())))
            return True
    except InvalidSignature:
        return False
    except ValueError:
        return False
    if curve == b'BL':
        # not an independent library (py_ecc is the only BLS implementation in /venv) but an independent *route*: the core
        # verification of the basic scheme, with the message augmentation (public key || message) and the domain separation
        # tag of the min-pk AUG ciphersuite written out here from the IETF draft
        from py_ecc.bls import G2Basic
        return bool(G2Basic._CoreVerify(pub, pub + message, raw_sig, b'BLS_SIG_BLS12381G2_XMD:SHA-256_SSWU_RO_AUG_'))
    return None


def ref_bip39_valid(words: list[str]) -> bool:
    """BIP-39 rule, written from the standard with integers: ENT in {128..256 step 32}, CS = ENT/32,
    mnemonic bits = entropy || first CS bits of SHA-256(entropy)."""
    wl = _mnemonic().wordlist
    if len(words) not in (12, 15, 18, 21, 24):
        return False
    try:
        idx = [wl.index(w) for w in words]
    except ValueError:
        return False
    n = 0
    for i in idx:
        n = (n << 11) | i
    total = 11 * len(words)
    cs = total // 33
    ent = total - cs
    entropy = (n >> cs).to_bytes(ent // 8, 'big')
    want = int.from_bytes(hashlib.sha256(entropy).digest(), 'big') >> (256 - cs)
    return (n & ((1 << cs) - 1)) == want


def ref_mnemonic_secret(words_joined: str, passphrase: str, email: str) -> bytes:
    mn = unicodedata.normalize('NFKD', words_joined)
    pw = unicodedata.normalize('NFKD', email + passphrase)
    return hashlib.pbkdf2_hmac('sha512', mn.encode('utf-8'), b'mnemonic' + pw.encode('utf-8'), 2048)[:32]
