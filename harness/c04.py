"""C04 — PACK produces Tezos bytes and UNPACK inverts it for every packable type.

Correspondence (A): MichelsonType.pack()/pack(legacy=True)/unpack() of /repo and the PACK / UNPACK
instructions run through the Interpreter, against Michelson/Pack.v (pack, pack_legacy, unpack),
evaluated by vm_compute inside coqc.
Oracle (B), on the implementation alone: T.unpack(v.pack()) == v; v.pack() == 0x05 ++ an
independent encoder applied to an independently built optimized tree (comb rule, binary domain forms);
whatever UNPACK accepts must be 0x05 ++ strictly valid binary Micheline (independent strict decoder:
minimal integers, exact lengths, protocol primitives); PACK/UNPACK instructions agree with pack()/unpack().
"""
from __future__ import annotations

import copy
import json

import lib
from lib import chex, cok
import c11_gen as G

PROP = 'C04'
CORR = 'C04/MichelsonType.pack+unpack vs Michelson.Pack.pack/unpack'

PACK_FN = ("fun x : (list (N * bytes) * list (node * result node)) * bool * ty * val => let '(e, leg, t, v) := x in "
           "pack_mode (real_codec (sha_fp (fst e)) table43) (if leg : bool then LegacyOptimized else Optimized) t v")
UNPACK_FN = "fun '(e, t, bs) => unpack (real_codec (sha_fp (fst e)) table43) (assoc_node (snd e)) t bs"


def match_type(tj):
    from pytezos.michelson.types.base import MichelsonType
    import pytezos.michelson.types  # noqa: F401
    import pytezos.michelson.instructions  # noqa: F401
    return MichelsonType.match(tj)


# ----------------------------------------------------------------------------- independent spec: tree, encoder, strict decoder
def spec_tree(v: tuple):
    """optimized Micheline of an abstract value (Tezos unparse_data, Optimized mode); None when the value
    holds a lambda that pushes a literal with a distinct optimized form (not transcribed here)"""
    k = v[0]
    if k == 'unit':
        return {'prim': 'Unit'}
    if k == 'bool':
        return {'prim': 'True' if v[1] else 'False'}
    if k in ('int', 'ts'):
        return {'int': str(v[1])}
    if k == 'fr':
        return {'bytes': v[1].to_bytes(32, 'little').hex()}
    if k == 'str':
        return {'string': v[1].decode('ascii')}
    if k in ('bytes', 'sig', 'cid'):
        return {'bytes': v[1].hex()}
    if k == 'addr':
        kind, h, ep = v[1], v[2], v[3]
        tz = {'tz1': 0, 'tz2': 1, 'tz3': 2, 'tz4': 3}
        b = (bytes([0, tz[kind]]) + h) if kind in tz else (bytes([{'KT1': 1, 'txr1': 2, 'sr1': 3}[kind]]) + h + b'\x00')
        if ep not in (None, b'', b'default'):
            b += ep
        return {'bytes': b.hex()}
    if k == 'kh':
        return {'bytes': (bytes([['tz1', 'tz2', 'tz3', 'tz4'].index(v[1])]) + v[2]).hex()}
    if k == 'key':
        return {'bytes': (bytes([['edpk', 'sppk', 'p2pk', 'BLpk'].index(v[1])]) + v[2]).hex()}
    if k == 'none':
        return {'prim': 'None'}
    if k in ('some', 'left', 'right'):
        x = spec_tree(v[1])
        return None if x is None else {'prim': k.capitalize(), 'args': [x]}
    if k == 'pair':
        leaves = []
        w = v
        while w[0] == 'pair':
            leaves.append(spec_tree(w[1]))
            w = w[2]
        leaves.append(spec_tree(w))
        if any(x is None for x in leaves):
            return None
        if len(leaves) == 2:
            return {'prim': 'Pair', 'args': leaves}
        if len(leaves) == 3:
            return {'prim': 'Pair', 'args': [leaves[0], {'prim': 'Pair', 'args': leaves[1:]}]}
        return leaves
    if k == 'list':
        xs = [spec_tree(x) for x in v[1]]
        return None if any(x is None for x in xs) else xs
    if k == 'map':
        out = []
        for a, b in v[1]:
            x, y = spec_tree(a), spec_tree(b)
            if x is None or y is None:
                return None
            out.append({'prim': 'Elt', 'args': [x, y]})
        return out
    if k == 'lambda':
        return None if G.code_pushes_domain(v[1]) else v[1]
    raise lib.InternalError(k)


def enc_nat(n: int) -> bytes:
    out = bytearray()
    while True:
        b = n & 0x7f
        n >>= 7
        if n:
            out.append(b | 0x80)
        else:
            out.append(b)
            return bytes(out)


def enc_int(z: int) -> bytes:
    a = abs(z)
    first = (a & 0x3f) | (0x40 if z < 0 else 0)
    a >>= 6
    if not a:
        return bytes([first])
    return bytes([first | 0x80]) + enc_nat(a)


def arr(b: bytes) -> bytes:
    return len(b).to_bytes(4, 'big') + b


def enc_tree(m) -> bytes:
    """independent binary Micheline encoder (Tezos Micheline.canonical_encoding)"""
    if isinstance(m, list):
        return b'\x02' + arr(b''.join(enc_tree(x) for x in m))
    if 'int' in m:
        return b'\x00' + enc_int(int(m['int']))
    if 'string' in m:
        return b'\x01' + arr(m['string'].encode())
    if 'bytes' in m:
        return b'\x0a' + arr(bytes.fromhex(m['bytes']))
    args, annots = m.get('args', []) or [], m.get('annots', []) or []
    tag = bytes([lib.prim_tag(m['prim'])])
    ann = arr(' '.join(annots).encode()) if annots else b''
    ea = b''.join(enc_tree(x) for x in args)
    if len(args) <= 2:
        return bytes([3 + 2 * len(args) + (1 if annots else 0)]) + tag + ea + ann
    return b'\x09' + tag + arr(ea) + (ann if annots else arr(b''))


MAX_PRIM_TAG = 0x9e


class Invalid(Exception):
    pass


def strict_decode(data: bytes):
    """independent strict decoder: returns the tree or raises Invalid"""
    pos = 0

    def need(n):
        if pos + n > len(data):
            raise Invalid('truncated')

    def take_arr():
        nonlocal pos
        need(4)
        n = int.from_bytes(data[pos:pos + 4], 'big')
        pos += 4
        need(n)
        b = data[pos:pos + n]
        pos += n
        return b

    def seq_body(body: bytes):
        sub, items = 0, []
        while sub < len(body):
            t, used = decode_at(body, sub)
            items.append(t)
            sub = used
        return items

    def decode_at(buf: bytes, start: int):
        nonlocal data, pos
        saved = (data, pos)
        data, pos = buf, start
        try:
            t = node()
            return t, pos
        finally:
            data, pos = saved

    def zint():
        nonlocal pos
        need(1)
        b = data[pos]
        pos += 1
        neg, val, shift, last, count = bool(b & 0x40), b & 0x3f, 6, b, 1
        while last & 0x80:
            need(1)
            last = data[pos]
            pos += 1
            val |= (last & 0x7f) << shift
            shift += 7
            count += 1
        if count > 1 and last == 0:
            raise Invalid('non-minimal integer')
        return -val if neg else val

    def annots():
        a = take_arr()
        return a.decode('utf-8').split(' ') if a else []

    def node():
        nonlocal pos
        need(1)
        tag = data[pos]
        pos += 1
        if tag == 0:
            return {'int': str(zint())}
        if tag == 1:
            try:
                return {'string': take_arr().decode('utf-8')}
            except UnicodeDecodeError:
                raise Invalid('utf8')
        if tag == 10:
            return {'bytes': take_arr().hex()}
        if tag == 2:
            return seq_body(take_arr())
        if 3 <= tag <= 9:
            need(1)
            p = data[pos]
            pos += 1
            if p > MAX_PRIM_TAG:
                raise Invalid('unknown primitive')
            out = {'prim': p}
            if tag == 9:
                out['args'] = seq_body(take_arr())
                out['annots'] = annots()
            else:
                out['args'] = [node() for _ in range((tag - 3) // 2)]
                if (tag - 3) % 2:
                    out['annots'] = annots()
            return out
        raise Invalid('unknown tag')

    try:
        t = node()
    except (UnicodeDecodeError, IndexError) as e:
        raise Invalid(str(e))
    if pos != len(data):
        raise Invalid('trailing bytes')
    return t


# ----------------------------------------------------------------------------- mutants
def nonminimal(rng, b: bytes) -> bytes | None:
    """re-encode one integer of the packed data non-minimally (append a zero continuation group)"""
    idx = [i for i in range(1, len(b) - 1) if b[i] == 0 and i + 1 < len(b)]
    rng.shuffle(idx)
    for i in idx[:8]:
        # b[i] == 0 might be an int tag: find the end of the zarith number that follows
        j = i + 1
        while j < len(b) and b[j] & 0x80:
            j += 1
        if j >= len(b):
            continue
        cand = b[:j] + bytes([b[j] | 0x80]) + (b'\x80' * rng.choice([0, 0, 1, 3])) + b'\x00' + b[j + 1:]
        return cand
    return None


def mutants(rng, b: bytes, n: int) -> list[tuple[str, bytes]]:
    out = []
    for _ in range(n):
        r = rng.random()
        if r < 0.22 and len(b) > 1:
            out.append(('truncate', b[:rng.randrange(0, len(b))]))
        elif r < 0.30:
            out.append(('extend', b + rng.choice([b'\x00', b'\x05', rng.randbytes(2), b[-1:]])))
        elif r < 0.48 and len(b) > 1:
            i = rng.randrange(len(b))
            out.append(('bitflip', b[:i] + bytes([b[i] ^ (1 << rng.randrange(8))]) + b[i + 1:]))
        elif r < 0.60 and len(b) > 1:
            i = rng.randrange(len(b))
            out.append(('byte', b[:i] + bytes([rng.choice([0, 1, 2, 5, 7, 9, 10, 0x80, 0xff, 0x9e, 0x9f, rng.randrange(256)])]) + b[i + 1:]))
        elif r < 0.78:
            m = nonminimal(rng, b)
            if m is not None:
                out.append(('nonminimal-int', m))
        elif r < 0.86 and len(b) > 6:
            # edit a length field (any 4 bytes that look like one)
            idx = [i for i in range(1, len(b) - 4) if b[i] in (1, 2, 10) and b[i + 1] == 0 and b[i + 2] == 0]
            if idx:
                i = rng.choice(idx) + 1
                n4 = int.from_bytes(b[i:i + 4], 'big')
                n4 = max(0, n4 + rng.choice([-1, 1, 2, 256, -2]))
                out.append(('length', b[:i] + (n4 % (1 << 32)).to_bytes(4, 'big') + b[i + 4:]))
        elif r < 0.92:
            out.append(('head', bytes([rng.choice([0, 4, 6, 0x50])]) + b[1:]))
        elif r < 0.96 and len(b) > 2:
            i = rng.randrange(1, len(b))
            out.append(('delete', b[:i] + b[i + 1:]))
        else:
            i = rng.randrange(1, len(b) + 1)
            out.append(('insert', b[:i] + bytes([rng.choice([0, 0x80, 2, 7])]) + b[i:]))
    return out


UNDEFINED_TAGS = [0x0b, 0x0c, 0x7f, 0x80, 0xfe, 0xff]


def tag_positions(body: bytes) -> list[tuple[int, int]]:
    """offsets (and values) of the node tag bytes of valid binary Micheline"""
    out = []

    def node(pos: int) -> int:
        tag = body[pos]
        out.append((pos, tag))
        pos += 1
        if tag == 0:
            while body[pos] & 0x80:
                pos += 1
            return pos + 1
        if tag in (1, 10):
            return pos + 4 + int.from_bytes(body[pos:pos + 4], 'big')
        if tag == 2:
            end = pos + 4 + int.from_bytes(body[pos:pos + 4], 'big')
            pos += 4
            while pos < end:
                pos = node(pos)
            return end
        pos += 1  # primitive tag
        if tag == 9:
            end = pos + 4 + int.from_bytes(body[pos:pos + 4], 'big')
            pos += 4
            while pos < end:
                pos = node(pos)
            return end + 4 + int.from_bytes(body[end:end + 4], 'big')
        for _ in range((tag - 3) // 2):
            pos = node(pos)
        if (tag - 3) % 2:
            pos += 4 + int.from_bytes(body[pos:pos + 4], 'big')
        return pos

    try:
        node(0)
    except IndexError:
        pass
    return out


def tag_mutants(rng, b: bytes) -> list[tuple[str, bytes]]:
    """node TAG bytes (03..0a, esp. the generic 09 of >= 3-argument primitives) replaced by undefined tag values"""
    pos = [(p + 1, t) for p, t in tag_positions(b[1:])]
    out = []
    nine = [p for p, t in pos if t == 9]
    for p in nine[:2]:
        for u in UNDEFINED_TAGS:
            out.append(('tag09-undefined', b[:p] + bytes([u]) + b[p + 1:]))
    prims = [p for p, t in pos if 3 <= t <= 10 and p not in nine[:2]]
    if prims:
        p = rng.choice(prims)
        out.append(('tag-undefined', b[:p] + bytes([rng.choice(UNDEFINED_TAGS)]) + b[p + 1:]))
    if pos and rng.random() < 0.3:
        p = rng.choice(pos)[0]
        out.append(('tag-undefined', b[:p] + bytes([rng.choice(UNDEFINED_TAGS + [0x0d, 0x10, 0x40])]) + b[p + 1:]))
    return out


# ----------------------------------------------------------------------------- running the implementation
def impl_unpack(T, b: bytes):
    ok, r = lib.call(T.unpack, bytes(b))
    if not ok:
        return False, None, r
    return True, G.ast_of_obj(r), r


def interp_pack(tj, rj):
    """PACK through the Interpreter: bytes or None (could not push)"""
    from pytezos.michelson.repl import Interpreter
    from pytezos.michelson.format import micheline_to_michelson
    i = Interpreter()
    tj = {k: v for k, v in tj.items() if k != 'annots'}  # an instruction argument carries no field annotation
    ok, src = lib.call(lambda: f'PUSH {wrap(micheline_to_michelson(tj))} {wrap(micheline_to_michelson(rj))}')
    if not ok:
        return 'unprintable', None
    r = i.execute(src)
    if r.error:
        return 'push-failed', None
    r = i.execute('PACK')
    if r.error:
        return 'pack-failed', str(r.error)
    return 'ok', bytes(i.stack.items[0])


def wrap(s: str) -> str:
    s = s.strip()
    return s if (' ' not in s and '\n' not in s) or s.startswith(('(', '{', '"')) else f'({s})'


def interp_unpack(tj, b: bytes):
    """UNPACK through the Interpreter: ('some', obj) / ('none', None) / (other, info)"""
    from pytezos.michelson.repl import Interpreter
    from pytezos.michelson.format import micheline_to_michelson
    i = Interpreter()
    tj = {k: v for k, v in tj.items() if k != 'annots'}  # an instruction argument carries no field annotation
    r = i.execute(f'PUSH bytes 0x{b.hex()} ; UNPACK {wrap(micheline_to_michelson(tj))}')
    if r.error:
        return 'error', str(r.error)
    top = i.stack.items[0]
    if top.is_none():
        return 'none', None
    return 'some', top.get_some()


def env_for(n, tree_or_none, b: bytes | None):
    """oracle tables for one unpack case: SHA digests for the strings inside, parser results for lambda positions"""
    sha = G.ShaTable()
    lam = {}
    if tree_or_none is not None:
        G.collect_texts(tree_or_none, sha)
        lam = G.lam_table(n, tree_or_none)
    return sha, lam


def prim_names(t):
    """strict decoder output (prim tags) -> names as pytezos spells them; None if a tag has no name"""
    from pytezos.michelson.tags import prim_tags
    rev = {(v[0] if isinstance(v, (bytes, bytearray)) else int(v)): k for k, v in prim_tags.items()}
    if isinstance(t, list):
        xs = [prim_names(x) for x in t]
        return None if any(x is None for x in xs) else xs
    if 'prim' in t:
        if t['prim'] not in rev:
            return None
        args = [prim_names(x) for x in t.get('args', [])]
        if any(x is None for x in args):
            return None
        out = {'prim': rev[t['prim']]}
        if args:
            out['args'] = args
        if t.get('annots'):
            out['annots'] = t['annots']
        return out
    return t


UNPACKABLE = [
    ({'prim': 'big_map', 'args': [{'prim': 'nat'}, {'prim': 'nat'}]}, []),
    ({'prim': 'pair', 'args': [{'prim': 'nat'}, {'prim': 'big_map', 'args': [{'prim': 'string'}, {'prim': 'unit'}]}]}, {'prim': 'Pair', 'args': [{'int': '1'}, []]}),
    ({'prim': 'list', 'args': [{'prim': 'operation'}]}, []),
    ({'prim': 'option', 'args': [{'prim': 'ticket', 'args': [{'prim': 'nat'}]}]}, {'prim': 'None'}),
    ({'prim': 'or', 'args': [{'prim': 'unit'}, {'prim': 'list', 'args': [{'prim': 'operation'}]}]}, {'prim': 'Left', 'args': [{'prim': 'Unit'}]}),
    ({'prim': 'map', 'args': [{'prim': 'nat'}, {'prim': 'big_map', 'args': [{'prim': 'nat'}, {'prim': 'nat'}]}]}, []),
    ({'prim': 'sapling_state', 'args': [{'int': '8'}]}, []),
    ({'prim': 'contract', 'args': [{'prim': 'ticket', 'args': [{'prim': 'nat'}]}]}, {'string': 'KT18amZmM5W7qDWVt2pH6uj7sCEd3kbzLrHT'}),
    ({'prim': 'set', 'args': [{'prim': 'nat'}]}, None),   # control: packable
]

NON_PACKABLE_PARTS = [
    {'prim': 'operation'}, {'prim': 'list', 'args': [{'prim': 'operation'}]},
    {'prim': 'big_map', 'args': [{'prim': 'nat'}, {'prim': 'string'}]}, {'prim': 'ticket', 'args': [{'prim': 'nat'}]},
    {'prim': 'sapling_state', 'args': [{'int': '8'}]}, {'prim': 'contract', 'args': [{'prim': 'ticket', 'args': [{'prim': 'unit'}]}]},
    {'prim': 'pair', 'args': [{'prim': 'nat'}, {'prim': 'big_map', 'args': [{'prim': 'nat'}, {'prim': 'nat'}]}]},
    {'prim': 'option', 'args': [{'prim': 'ticket', 'args': [{'prim': 'string'}]}]},
]
LAMBDA_BODIES = [[{'prim': 'FAILWITH'}], [{'prim': 'DROP'}, {'prim': 'UNIT'}, {'prim': 'FAILWITH'}], [],
                 [{'prim': 'LAMBDA', 'args': [{'prim': 'nat'}, {'prim': 'nat'}, [{'prim': 'DUP'}, {'prim': 'ADD'}]]}, {'prim': 'FAILWITH'}],
                 [{'prim': 'LAMBDA', 'annots': ['@f'], 'args': [{'prim': 'unit'}, {'prim': 'unit'}, []]}, {'prim': 'DROP'}, {'prim': 'FAILWITH'}]]


def lambda_signature_cases(rng):
    """Tezos packs every lambda, whatever its signature mentions: lambda types whose argument / return type is not
    packable itself, at top level and nested; (type, readable literal, abstract value)"""
    out = []
    for part in NON_PACKABLE_PARTS:
        for pos in (0, 1):
            args = [{'prim': 'unit'}, {'prim': 'unit'}]
            args[pos] = part
            lam = {'prim': 'lambda', 'args': args}
            code = rng.choice(LAMBDA_BODIES)
            wrap = rng.choice(['plain', 'plain', 'option', 'pair', 'list', 'map'])
            if wrap == 'plain':
                out.append((lam, code, ('lambda', code), lam, code))
            elif wrap == 'option':
                out.append(({'prim': 'option', 'args': [lam]}, {'prim': 'Some', 'args': [code]}, ('some', ('lambda', code)), lam, code))
            elif wrap == 'pair':
                out.append(({'prim': 'pair', 'args': [{'prim': 'nat'}, lam]}, {'prim': 'Pair', 'args': [{'int': '5'}, code]},
                            ('pair', ('int', 5), ('lambda', code)), lam, code))
            elif wrap == 'list':
                out.append(({'prim': 'list', 'args': [lam]}, [code, code], ('list', [('lambda', code), ('lambda', code)]), lam, code))
            else:
                out.append(({'prim': 'map', 'args': [{'prim': 'string'}, lam]}, [{'prim': 'Elt', 'args': [{'string': 'k'}, code]}],
                            ('map', [(('str', b'k'), ('lambda', code))]), lam, code))
    return out


def interp_lambda_pack(lam_t, code):
    """LAMBDA a b { code } ; PACK through the Interpreter"""
    from pytezos.michelson.repl import Interpreter
    from pytezos.michelson.format import micheline_to_michelson
    i = Interpreter()
    a, b = (wrap(micheline_to_michelson(x)) for x in lam_t['args'])
    body = micheline_to_michelson(code) if code else '{}'
    r = i.execute(f'LAMBDA {a} {b} {body}')
    if r.error:
        return 'lambda-failed', str(r.error)
    r = i.execute('PACK')
    if r.error:
        return 'pack-failed', str(r.error)
    return 'ok', bytes(i.stack.items[0])


OCTEZ_VECTORS = [
    # tests/unit_tests/test_michelson/test_repl/test_opcodes.py, packunpack.tz (produced by Octez)
    ({'prim': 'pair', 'args': [{'prim': 'pair', 'args': [{'prim': 'string'}, {'prim': 'list', 'args': [{'prim': 'int'}]}]}, {'prim': 'set', 'args': [{'prim': 'nat'}]}]},
     ('pair', ('pair', ('str', b'toto'), ('list', [('int', 3), ('int', 7), ('int', 9), ('int', 1)])), ('list', [('int', 1), ('int', 2), ('int', 3)])),
     '05070707070100000004746f746f020000000800030007000900010200000006000100020003'),
]


def run(ctx: lib.Ctx) -> None:
    rng = ctx.rng
    ctx.rule = ('type-directed: a packable Micheline type expression (depth <= 4; scalars, domain types, option, or, n-ary/nested combs of '
                '2..8 leaves with and without annotations, list, set, map, lambda) and a value (boundary integers, timestamps, key hashes '
                '00..03.../...00, entrypoints, lambdas incl. PUSH of domain literals) are drawn; pack(), pack(legacy), unpack() and the '
                'PACK/UNPACK instructions are run; malformed stream = truncations, extensions, bit/byte flips, non-minimal integers, edited '
                'length fields, wrong head byte, insertions/deletions of the packed bytes, node tag bytes replaced by undefined tags (0b, 0c, 7f, 80, fe, ff; every 09 of a >= 3-argument primitive), plus packed readable/legacy forms. non-trivial = value '
                'with >= 3 constructors or any mutant; distinct = distinct (type, value) / (type, bytes)')
    viols: list = []
    pack_cases, pack_meta, un_cases, un_meta = [], [], [], []
    f_push = ctx.finding('lambda-push')

    def add_unpack(tj, n, T, b: bytes, kind: str, meta: dict, via_interp: bool, good: bytes | None = None):
        ok, ast, obj = impl_unpack(T, b)
        ctx.case((json.dumps(tj), b.hex()), nontrivial=True, kind=f'unpack:{kind}:' + ('some' if ok else 'none'))
        # (B) whatever is accepted must be 05 ++ strictly valid binary Micheline
        tree = None
        try:
            if b[:1] != b'\x05':
                raise Invalid('head')
            tree = prim_names(strict_decode(b[1:]))
            valid = True
        except Invalid as e:
            valid = False
        if ok and not valid:
            viols.append((f'UNPACK accepts bytes that are not valid Tezos binary Micheline ({kind})',
                          dict(meta, bytes=b.hex(), unpacked=repr(ast),
                               repro=f"MichelsonType.match({json.dumps(tj)}).unpack(bytes.fromhex('{b.hex()}'))")))
        if via_interp:
            st, o = interp_unpack(tj, b)
            if st == 'error' and (good is None or good == b or interp_unpack(tj, good)[0] != 'some'):
                ctx.dist['interp:type-not-usable-as-instruction-argument'] += 1
            elif st == 'error':
                viols.append(('UNPACK instruction failed instead of pushing None / Some', dict(meta, bytes=b.hex(), error=str(o)[:300],
                              repro=f"Interpreter().execute('PUSH bytes 0x{b.hex()} ; UNPACK ...')")))
            if st in ('some', 'none'):
                ctx.dist['interp:UNPACK'] += 1
                if (st == 'some') != ok or (ok and not (o == obj)):
                    viols.append(('UNPACK instruction disagrees with MichelsonType.unpack', dict(meta, bytes=b.hex(), instruction=st,
                                  repro=f"Interpreter().execute('PUSH bytes 0x{b.hex()} ; UNPACK ...')")))
        if ok and G.has_opaque(ast):
            ctx.dist['skipped:unrenderable'] += 1
            return
        sha, lam = env_for(n, tree, b)
        if lam is None:
            ctx.dist['skipped:unrenderable'] += 1
            return
        un_cases.append((f'({G.coq_env(sha, lam)}, {G.coq_ty(n)}, {chex(b)})', cok(G.coq_val(ast)) if ok else 'Reject'))
        un_meta.append(dict(meta, bytes=b.hex(), kind=kind, unpacked=repr(ast) if ok else None))

    # ---- fixed witnesses and Octez vector
    for tj, v, hexs in OCTEZ_VECTORS:
        n = G.norm_type(tj)
        T = match_type(tj)
        want = bytes.fromhex(hexs)
        st = spec_tree(v)
        ctx.case(('octez', hexs), kind='octez-vector')
        if b'\x05' + enc_tree(st) != want:
            raise lib.InternalError('the independent spec encoder does not reproduce the Octez pack vector')
        obj = T.from_micheline_value(G.readable_json(v, None))
        if obj.pack() != want:
            viols.append(('pack() differs from the Octez-produced bytes', {'type': tj, 'expected': hexs, 'got': obj.pack().hex()}))
        pack_cases.append((f'({G.coq_env(G.ShaTable(), {})}, false, {G.coq_ty(n)}, {G.coq_val(v)})', cok(chex(want))))
        pack_meta.append({'type': tj, 'octez_vector': hexs})
        add_unpack(tj, n, T, want, 'octez', {'type': tj}, True)
    for f in ctx.known.get('fixed', []):
        w = f.get('witness') or {}
        if 'type' not in w:
            continue
        T = match_type(w['type'])
        n = G.norm_type(w['type'])
        ctx.case(('fixed', json.dumps(w)), kind='fixed-witness')
        if 'bytes' in w:
            b = bytes.fromhex(w['bytes'])
            ok, ast, obj = impl_unpack(T, b)
            if ok != bool(w.get('accept')):
                viols.append((f'regression of fixed defect: {f.get("what")}', {'witness': w, 'repro': f"MichelsonType.match({json.dumps(w['type'])}).unpack(bytes.fromhex('{w['bytes']}'))"}))
            add_unpack(w['type'], n, T, b, 'fixed', {'type': w['type']}, False)
        else:
            ok, obj = lib.call(T.from_micheline_value, copy.deepcopy(w['value']))
            ok2, back = lib.call(lambda: T.unpack(obj.pack())) if ok else (False, None)
            if not ok or not ok2 or not (back == obj) or ('packed' in w and obj.pack().hex() != w['packed']):
                viols.append((f'regression of fixed defect: {f.get("what")}', {'witness': w}))

    # ---- witnesses of the known findings: reported while the defect is present
    for f in ctx.known.get('findings', []):
        w = f.get('witness') or {}
        if 'type' in w and 'value' in w:
            okw, Tw = lib.call(match_type, w['type'])
            okv, objw = lib.call(Tw.from_micheline_value, copy.deepcopy(w['value'])) if okw else (False, None)
            okp, pw = lib.call(objw.pack) if okv else (False, None)
            ctx.case(('finding', json.dumps(w)), kind='known-finding-witness')
            if okp and pw.hex() == w.get('packed_by_pytezos'):
                ctx.known_hit(f)

    # ---- corpus of past / hand-picked byte strings
    import glob
    import os
    for path in sorted(glob.glob(os.path.join(lib.VERIF, 'corpus', PROP, '*.json'))):
        for c in json.load(open(path)):
            okT, T = lib.call(match_type, c['type'])
            if not okT:
                continue
            ctx.corpus_cases += 1
            add_unpack(c['type'], G.norm_type(c['type']), T, bytes.fromhex(c['bytes']), 'corpus', {'type': c['type']}, False)

    # ---- every lambda is packable, whatever its signature mentions
    for tj, lit, v, lam_t, code in lambda_signature_cases(rng):
        okT, T = lib.call(match_type, tj)
        if not okT:
            ctx.dist['lambda-signature:type-rejected'] += 1
            continue
        n = G.norm_type(tj)
        meta = {'type': tj, 'value_readable': lit}
        ctx.case(('lambda-signature', json.dumps(tj), json.dumps(lit)), nontrivial=True, kind='lambda-signature')
        okv, obj = lib.call(T.from_micheline_value, copy.deepcopy(lit))
        okp, packed = lib.call(obj.pack) if okv else (False, obj)
        st = spec_tree(v)
        if not okp or not T.is_packable() or packed != b'\x05' + enc_tree(st):
            viols.append((f'a lambda whose signature mentions a non-packable type is not packed as Tezos packs it: {packed if not okp else packed.hex()}',
                          dict(meta, expected=(b'\x05' + enc_tree(st)).hex(),
                               repro=f"MichelsonType.match({json.dumps(tj)}).from_micheline_value({json.dumps(lit)}).pack()")))
            continue
        oku, back = lib.call(T.unpack, packed)
        if not oku or G.ast_of_obj(back) != v:
            viols.append(('UNPACK of PACK does not return the value (lambda signature)', dict(meta, packed=packed.hex(),
                          repro=f"T=MichelsonType.match({json.dumps(tj)}); T.unpack(T.from_micheline_value({json.dumps(lit)}).pack())")))
        pack_cases.append((f'({G.coq_env(G.ShaTable(), {})}, false, {G.coq_ty(n)}, {G.coq_val(v)})', cok(chex(packed))))
        pack_meta.append(dict(meta, packed=packed.hex()))
        add_unpack(tj, n, T, packed, 'lambda-signature', meta, False)
        for kind, mb in tag_mutants(rng, packed):
            add_unpack(tj, n, T, mb, kind, meta, False)
        sti, ib = interp_lambda_pack(lam_t, code)
        ctx.dist[f'interp:LAMBDA;PACK:{sti}'] += 1
        want = b'\x05' + enc_tree(code)
        if sti == 'pack-failed' or (sti == 'ok' and ib != want):
            viols.append((f'LAMBDA ; PACK through the interpreter does not give the packed lambda: {ib if sti != "ok" else ib.hex()}',
                          dict(meta, lambda_type=lam_t, expected=want.hex(), repro="Interpreter().execute('LAMBDA <a> <b> { ... } ; PACK')")))

    # ---- types that cannot be packed
    for tj, val in UNPACKABLE:
        ok, T = lib.call(match_type, tj)
        if not ok:
            continue
        n = G.norm_type(tj)
        if val is None:
            continue
        ok1, obj = lib.call(T.from_micheline_value, copy.deepcopy(val))
        okp, _ = lib.call(obj.pack) if ok1 else (False, None)
        oku, _ = lib.call(T.unpack, b'\x05\x03\x0b')
        ctx.case(('unpackable', json.dumps(tj)), kind='not-packable')
        if okp or oku or T.is_packable():
            viols.append(('a type that is not packable was packed / unpacked', {'type': tj, 'repro': f"MichelsonType.match({json.dumps(tj)}).is_packable()"}))
        pack_cases.append((f'({G.coq_env(G.ShaTable(), {})}, false, {G.coq_ty(n)}, VUnit)', 'Reject'))
        pack_meta.append({'type': tj, 'not_packable': True})
        un_cases.append((f'({G.coq_env(G.ShaTable(), {})}, {G.coq_ty(n)}, {chex(bytes.fromhex("05030b"))})', 'Reject'))
        un_meta.append({'type': tj, 'not_packable': True})

    # ---- generated values
    nvals = ctx.n(190, 2000)
    for it in range(nvals):
        depth = rng.choice([1, 2, 2, 3, 3, 4])
        while True:
            tj = G.gen_type(rng, depth)
            ok, T = lib.call(match_type, tj)
            if ok and T.is_packable():
                break
        n = G.norm_type(tj)
        v = G.gen_value(rng, n, None, size=rng.choice([1, 2, 3, 4]))
        rj = G.readable_json(v, None, rng)
        ok, obj = lib.call(T.from_micheline_value, copy.deepcopy(rj))
        meta = {'type': tj, 'value_readable': G.readable_json(v, None)}
        key = (json.dumps(tj), repr(v))
        ctx.case(key, nontrivial=G.value_size(v) >= 3, kind=f'top:{n[0]}', sample={'type': tj, 'value': meta['value_readable']})
        ctx.dist[f'depth{min(G.type_depth(n), 6)}'] += 1
        mc = G.max_comb(v)
        if mc:
            ctx.dist[f'comb{min(mc, 9)}'] += 1
        if not ok or G.ast_of_obj(obj) != v:
            viols.append(('from_micheline_value does not build the value the literal denotes (see C11)', dict(meta, input=rj)))
            continue
        okp, packed = lib.call(obj.pack)
        if not okp:
            viols.append((f'pack() raised on a packable type: {packed}', dict(meta, repro=f"MichelsonType.match({json.dumps(tj)}).from_micheline_value({json.dumps(rj)}).pack()")))
            continue
        okl, packed_legacy = lib.call(obj.pack, legacy=True)
        pack_cases.append((f'({G.coq_env(G.ShaTable(), {})}, false, {G.coq_ty(n)}, {G.coq_val(v)})', cok(chex(packed))))
        pack_meta.append(dict(meta, packed=packed.hex()))
        if okl and rng.random() < 0.4:
            pack_cases.append((f'({G.coq_env(G.ShaTable(), {})}, true, {G.coq_ty(n)}, {G.coq_val(v)})', cok(chex(packed_legacy))))
            pack_meta.append(dict(meta, packed_legacy=packed_legacy.hex()))
        # (B) shape: 05 ++ independent encoding of the independent optimized tree
        st = spec_tree(v)
        in_class = G.value_has_lambda_push(v)
        if st is not None and packed != b'\x05' + enc_tree(st):
            viols.append(('pack() is not 0x05 ++ binary Micheline of the optimized tree', dict(meta, packed=packed.hex(), expected=(b'\x05' + enc_tree(st)).hex(),
                          repro=f"MichelsonType.match({json.dumps(tj)}).from_micheline_value({json.dumps(rj)}).pack().hex()")))
        if in_class:
            ctx.dist['class:lambda-push'] += 1
            if f_push is not None and any(s.encode() in packed for s in G.json_strings(rj) if len(s) > 14):
                ctx.known_hit(f_push)
        # (B) unpack . pack
        oku, back = lib.call(T.unpack, packed)
        if not oku or not (back == obj) or G.ast_of_obj(back) != v:
            viols.append(('UNPACK of PACK does not return the value', dict(meta, packed=packed.hex(),
                          repro=f"T=MichelsonType.match({json.dumps(tj)}); v=T.from_micheline_value({json.dumps(rj)}); T.unpack(v.pack()) == v")))
        # instructions
        interp = rng.random() < 0.3
        if interp:
            st_, ib = interp_pack(tj, rj)
            ctx.dist[f'interp:PACK:{st_}'] += 1
            if st_ == 'ok' and ib != packed:
                viols.append(('PACK instruction disagrees with MichelsonType.pack', dict(meta, packed=packed.hex(), instruction=ib.hex())))
        add_unpack(tj, n, T, packed, 'packed', meta, interp)
        if okl and packed_legacy != packed and rng.random() < 0.5:
            add_unpack(tj, n, T, packed_legacy, 'legacy', meta, False)
        okr_readable = None
        if rng.random() < 0.3:
            okr, readable = lib.call(lambda: b'\x05' + enc_tree(lib.canon_micheline(obj.to_micheline_value('readable'))))
            if okr and readable != packed:
                add_unpack(tj, n, T, readable, 'readable-form', meta, False)
                okr_readable = readable
        for kind, mb in mutants(rng, packed, rng.choice([2, 3, 3])):
            add_unpack(tj, n, T, mb, kind, meta, rng.random() < 0.08, good=packed)
        for kind, mb in tag_mutants(rng, packed):
            add_unpack(tj, n, T, mb, kind, meta, False)
        if okr_readable is not None:
            for kind, mb in tag_mutants(rng, okr_readable)[:7]:
                add_unpack(tj, n, T, mb, kind + ':readable-form', meta, False)
        if len(viols) > 40:
            break

    import concurrent.futures
    bad = []
    jobs = [
        ('pack', PACK_FN, 'result_eqb bytes_eqb', f'{G.ENV_TY} * bool * ty * val', 'result bytes', pack_cases, pack_meta),
        ('unpack', UNPACK_FN, 'rval_eqb', f'{G.ENV_TY} * ty * bytes', 'result val', un_cases, un_meta),
    ]

    def one(job):
        name, fn, eqb, ity, oty, cases, meta = job
        return [(name, fn, cases[i], meta[i]) for i in ctx.coq_mismatches(name, G.COQ_IMPORTS, fn, eqb, ity, oty, cases, shard=150)]

    with concurrent.futures.ThreadPoolExecutor(max_workers=2) as ex:
        for res in ex.map(one, jobs):
            bad.extend(res)
    ctx.extra['correspondence_mismatches'] = len(bad)

    reported, seen = 0, set()
    for what, rep in viols:
        if reported >= 3:
            break
        if what in seen:
            continue
        seen.add(what)
        reported += 1
        ctx.violation(what, rep, found=True)
    if reported == 0 and bad:
        name, fn, case, meta = bad[0]
        rep = {'correspondence': CORR, 'disagreements': len(bad), 'function': name, 'case': meta, 'coq_input': case[0][:3000],
               'implementation': case[1][:3000], 'model': ctx.coq_eval(G.COQ_IMPORTS, f'({fn}) {case[0]}')[:3000],
               'other_cases': [m for _, _, _, m in bad[1:4]]}
        ctx.violation('implementation no longer corresponds to the model the theorems are about', rep, found=False)
