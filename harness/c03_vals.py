"""Comparable Michelson types and values for the C03 / C14 / C15 harnesses.

Values are plain tuples (independent of /repo):
  ('int', z) ('str', s) ('bytes', b) ('bool', b) ('unit',)
  ('kh', curve, payload20) ('key', curve, payload) ('sig', raw, notation) ('cid', payload4)
  ('addr', kind, hash20, ep|None)    kind in 'tz1','tz2','tz3','tz4','KT1','sr1'
  ('pair', a, b) ('none',) ('some', a) ('left', a) ('right', b)
Types are tuples ('int',) ... ('pair', ta, tb) ('option', t) ('or', ta, tb).

The module has its own base58check encoder (so the texts pushed into the interpreter do not
depend on pytezos.crypto.encoding), printers to Michelson source, Micheline JSON and Coq literals
(Michelson/Compare.v), the text tables for the model's [texts] oracle, and an independent
Python transcription of the specification order (the (B) oracle)."""
from __future__ import annotations

import hashlib

import lib

def cb(b: bytes) -> str:
    """bytes for coqc: short strings as explicit byte constructors, longer ones as a hexadecimal number unfolded by
    Base.Bytes.N_to_be at evaluation time (coqc elaborates list and string literals at ~1-2 ms per element, a hex
    number ten times faster)."""
    b = bytes(b)
    if not b:
        return 'nil'
    if len(b) < 4:
        return '[' + ';'.join('x%02x' % x for x in b) + ']'
    return f'(N_to_be {len(b)}%nat 0x{b.hex()}%N)'


def cz(n: int) -> str:
    """Z literal; big numbers in hexadecimal (coqc converts decimal literals very slowly)."""
    if abs(n) < 10 ** 15:
        return f'({n})%Z'
    return f'({"-" if n < 0 else ""}0x{abs(n):x})%Z'


def cbt(s: str) -> str:
    return cb(s.encode('ascii'))


B58 = '123456789ABCDEFGHJKLMNPQRSTUVWXYZabcdefghijkmnopqrstuvwxyz'

PREFIX = {
    'tz1': bytes([6, 161, 159]), 'tz2': bytes([6, 161, 161]), 'tz3': bytes([6, 161, 164]), 'tz4': bytes([6, 161, 166]),
    'KT1': bytes([2, 90, 121]), 'sr1': bytes([6, 124, 117]), 'txr1': bytes([1, 128, 120, 31]),
    'edpk': bytes([13, 15, 37, 217]), 'sppk': bytes([3, 254, 226, 86]), 'p2pk': bytes([3, 178, 139, 127]),
    'BLpk': bytes([6, 149, 135, 204]),
    'Net': bytes([87, 82, 0]),
    'sig': bytes([4, 130, 43]), 'edsig': bytes([9, 245, 205, 134, 18]), 'spsig1': bytes([13, 115, 101, 19, 63]),
    'p2sig': bytes([54, 240, 44, 52]), 'BLsig': bytes([40, 171, 64, 207]),
    'expr': bytes([13, 44, 64, 27]),
}

CURVES = ['Ed', 'Secp', 'P256', 'Bls']
KH_PREFIX = {'Ed': 'tz1', 'Secp': 'tz2', 'P256': 'tz3', 'Bls': 'tz4'}
KEY_PREFIX = {'Ed': 'edpk', 'Secp': 'sppk', 'P256': 'p2pk', 'Bls': 'BLpk'}
KEY_LEN = {'Ed': 32, 'Secp': 33, 'P256': 33, 'Bls': 48}
ADDR_KINDS = ['tz1', 'tz2', 'tz3', 'tz4', 'KT1', 'sr1']
ADDR_COQ = {'tz1': '(AImpl Ed)', 'tz2': '(AImpl Secp)', 'tz3': '(AImpl P256)', 'tz4': '(AImpl Bls)', 'KT1': 'AKT',
            'txr1': 'ATxr', 'sr1': 'ASr'}
ADDR_IDX = {'tz1': 0, 'tz2': 1, 'tz3': 2, 'tz4': 3, 'KT1': 4, 'txr1': 5, 'sr1': 6}


def b58check(prefix: bytes, payload: bytes) -> str:
    raw = prefix + payload
    raw += hashlib.sha256(hashlib.sha256(raw).digest()).digest()[:4]
    n = int.from_bytes(raw, 'big')
    out = ''
    while n:
        n, r = divmod(n, 58)
        out = B58[r] + out
    pad = len(raw) - len(raw.lstrip(b'\0'))
    return '1' * pad + out


def kh_text(curve: str, payload: bytes) -> str:
    return b58check(PREFIX[KH_PREFIX[curve]], payload)


def key_text(curve: str, payload: bytes) -> str:
    return b58check(PREFIX[KEY_PREFIX[curve]], payload)


def cid_text(payload: bytes) -> str:
    return b58check(PREFIX['Net'], payload)


def addr_text(kind: str, h: bytes) -> str:
    return b58check(PREFIX[kind], h)


def sig_text(raw: bytes, notation: str) -> str:
    return b58check(PREFIX[notation], raw)


# ------------------------------------------------------------------------------------ types

LEAVES = ['int', 'nat', 'string', 'bytes', 'mutez', 'bool', 'timestamp', 'unit', 'key_hash', 'key', 'signature',
          'chain_id', 'address']


def gen_type(rng, depth: int, leaves=None, allow_never=True):
    leaves = leaves or LEAVES
    if depth <= 0 or rng.random() < 0.35:
        return (rng.choice(leaves),)
    k = rng.random()
    if k < 0.45:
        return ('pair', gen_type(rng, depth - 1, leaves, allow_never), gen_type(rng, depth - 1, leaves, allow_never))
    if k < 0.7:
        if allow_never and rng.random() < 0.05:
            return ('option', ('never',))
        return ('option', gen_type(rng, depth - 1, leaves, allow_never))
    a, b = gen_type(rng, depth - 1, leaves, allow_never), gen_type(rng, depth - 1, leaves, allow_never)
    if allow_never and rng.random() < 0.06:
        if rng.random() < 0.5:
            a = ('never',)
        else:
            b = ('never',)
    return ('or', a, b)


def inhabited(t) -> bool:
    if t[0] == 'never':
        return False
    if t[0] == 'pair':
        return inhabited(t[1]) and inhabited(t[2])
    if t[0] == 'or':
        return inhabited(t[1]) or inhabited(t[2])
    return True


def type_src(t) -> str:
    if t[0] in ('pair', 'or'):
        return f'({t[0]} {type_src(t[1])} {type_src(t[2])})'
    if t[0] == 'option':
        return f'(option {type_src(t[1])})'
    return t[0]


def type_coq(t) -> str:
    m = {'int': 'TInt', 'nat': 'TNat', 'string': 'TString', 'bytes': 'TBytes', 'mutez': 'TMutez', 'bool': 'TBool',
         'timestamp': 'TTimestamp', 'unit': 'TUnit', 'never': 'TNever', 'key_hash': 'TKeyHash', 'key': 'TKey',
         'signature': 'TSignature', 'chain_id': 'TChainId', 'address': 'TAddress'}
    if t[0] == 'pair':
        return f'(TPair {type_coq(t[1])} {type_coq(t[2])})'
    if t[0] == 'or':
        return f'(TOr {type_coq(t[1])} {type_coq(t[2])})'
    if t[0] == 'option':
        return f'(TOption {type_coq(t[1])})'
    return m[t[0]]


def type_mentions(t, names) -> bool:
    return t[0] in names or any(type_mentions(x, names) for x in t[1:] if isinstance(x, tuple))


# ------------------------------------------------------------------------------------ values

STR_ALPHA = 'abAB01 _z~'
EPS = ['a', 'e', 'd', 'defaul', 'defaulu', 'default0', 'Default', 'root', 'z', 'do', 'transfer', '0']


def _rbytes(rng, n):
    k = rng.random()
    if k < 0.15:
        return bytes([rng.choice([0, 0xff, 0x7f, 0x80])]) * n
    if k < 0.3:
        return bytes([0] * (n - 1) + [rng.randrange(256)])
    if k < 0.4:
        return bytes([rng.randrange(256)] + [0] * (n - 1))
    return bytes(rng.randrange(256) for _ in range(n))


def gen_leaf(rng, name):
    if name == 'int':
        return ('int', lib.boundary_ints(rng, signed=True) if rng.random() < 0.5 else rng.randrange(-4, 5))
    if name == 'timestamp':
        return ('int', lib.boundary_ints(rng, signed=True, big=False) if rng.random() < 0.5 else rng.randrange(-4, 5))
    if name == 'nat':
        return ('int', lib.boundary_ints(rng, signed=False) if rng.random() < 0.5 else rng.randrange(0, 5))
    if name == 'mutez':
        return ('int', min(lib.boundary_ints(rng, signed=False, big=False), 2 ** 63 - 1) if rng.random() < 0.5 else rng.randrange(0, 5))
    if name == 'string':
        return ('str', ''.join(rng.choice(STR_ALPHA) for _ in range(rng.choice([0, 1, 1, 2, 3, 5]))))
    if name == 'bytes':
        return ('bytes', _rbytes(rng, rng.choice([0, 1, 1, 2, 3, 5])) if rng.random() < 0.9 else b'')
    if name == 'bool':
        return ('bool', rng.random() < 0.5)
    if name == 'unit':
        return ('unit',)
    if name == 'key_hash':
        return ('kh', rng.choice(CURVES), _rbytes(rng, 20))
    if name == 'key':
        c = rng.choice(CURVES)
        p = _rbytes(rng, KEY_LEN[c])
        if c in ('Secp', 'P256'):
            p = bytes([rng.choice([2, 3])]) + p[1:]
        return ('key', c, p)
    if name == 'signature':
        if rng.random() < 0.15:
            return ('sig', _rbytes(rng, 96), 'BLsig')
        return ('sig', _rbytes(rng, 64), rng.choice(['sig', 'edsig', 'spsig1', 'p2sig']))
    if name == 'chain_id':
        return ('cid', _rbytes(rng, 4))
    if name == 'address':
        kind = rng.choice(ADDR_KINDS)
        ep = rng.choice(EPS) if rng.random() < 0.4 else None
        return ('addr', kind, _rbytes(rng, 20), ep)
    raise AssertionError(name)


def gen_value(rng, t):
    """A well-typed value of an inhabited type."""
    if t[0] == 'pair':
        return ('pair', gen_value(rng, t[1]), gen_value(rng, t[2]))
    if t[0] == 'option':
        if not inhabited(t[1]) or rng.random() < 0.3:
            return ('none',)
        return ('some', gen_value(rng, t[1]))
    if t[0] == 'or':
        left_ok, right_ok = inhabited(t[1]), inhabited(t[2])
        if left_ok and (not right_ok or rng.random() < 0.5):
            return ('left', gen_value(rng, t[1]))
        return ('right', gen_value(rng, t[2]))
    return gen_leaf(rng, t[0])


def _tweak_bytes(rng, b: bytes, fixed: bool) -> bytes:
    if not b:
        return b if fixed else bytes([rng.randrange(256)])
    k = rng.random()
    i = rng.choice([0, len(b) - 1, rng.randrange(len(b))])
    if fixed or k < 0.5:
        d = rng.choice([1, 255, 128, 0x80])
        return b[:i] + bytes([(b[i] + d) % 256]) + b[i + 1:]
    if k < 0.75:
        return b + bytes([rng.choice([0, 1, 255])])
    return b[:-1]


def mutate(rng, t, v):
    """A value of the same type that shares as much as possible with v (same prefix, one leaf changed)."""
    if t[0] == 'pair':
        if rng.random() < 0.6:
            return ('pair', v[1], mutate(rng, t[2], v[2]))      # equal first components: the second decides
        return ('pair', mutate(rng, t[1], v[1]), v[2] if rng.random() < 0.5 else gen_value(rng, t[2]))
    if t[0] == 'option':
        if v[0] == 'none':
            return gen_value(rng, t)
        return ('none',) if rng.random() < 0.25 else ('some', mutate(rng, t[1], v[1]))
    if t[0] == 'or':
        side = 1 if v[0] == 'left' else 2
        other = 3 - side
        if inhabited(t[other]) and rng.random() < 0.3:
            return ('left' if other == 1 else 'right', gen_value(rng, t[other]))
        return (v[0], mutate(rng, t[side], v[1]))
    n = t[0]
    if n in ('int', 'timestamp'):
        return ('int', v[1] + rng.choice([-1, 1, -v[1] * 2 if v[1] else 1]))
    if n == 'nat':
        return ('int', max(0, v[1] + rng.choice([-1, 1])))
    if n == 'mutez':
        return ('int', min(2 ** 63 - 1, max(0, v[1] + rng.choice([-1, 1]))))
    if n == 'string':
        s = v[1]
        k = rng.random()
        if k < 0.4 or not s:
            return ('str', s + rng.choice(STR_ALPHA))
        if k < 0.7:
            return ('str', s[:-1])
        return ('str', s[:-1] + rng.choice(STR_ALPHA))
    if n == 'bytes':
        return ('bytes', _tweak_bytes(rng, v[1], False))
    if n == 'bool':
        return ('bool', not v[1])
    if n == 'unit':
        return v
    if n == 'key_hash':
        if rng.random() < 0.4:
            return ('kh', rng.choice(CURVES), v[2])              # same hash, other scheme
        return ('kh', v[1], _tweak_bytes(rng, v[2], True))
    if n == 'key':
        c, p = v[1], v[2]
        k = rng.random()
        if k < 0.3 and c in ('Secp', 'P256'):
            return ('key', c, bytes([p[0] ^ 1]) + p[1:])          # same X, other parity
        if k < 0.5:
            c2 = rng.choice(CURVES)
            p2 = (p + bytes(48))[:KEY_LEN[c2]]
            if c2 in ('Secp', 'P256'):
                p2 = bytes([rng.choice([2, 3])]) + p2[1:]
            return ('key', c2, p2)
        if c in ('Secp', 'P256'):
            return ('key', c, bytes([rng.choice([2, 3])]) + _tweak_bytes(rng, p[1:], True))
        return ('key', c, _tweak_bytes(rng, p, True))
    if n == 'signature':
        raw, note = v[1], v[2]
        if rng.random() < 0.35 and len(raw) == 64:
            return ('sig', raw, rng.choice(['sig', 'edsig', 'spsig1', 'p2sig']))   # same bytes, other notation
        return ('sig', _tweak_bytes(rng, raw, True), note)
    if n == 'chain_id':
        return ('cid', _tweak_bytes(rng, v[1], True))
    if n == 'address':
        kind, h, ep = v[1], v[2], v[3]
        k = rng.random()
        if k < 0.35:
            return ('addr', rng.choice(ADDR_KINDS), h, ep)        # same hash, other kind
        if k < 0.7:
            return ('addr', kind, h, rng.choice(EPS + [None, None]))
        return ('addr', kind, _tweak_bytes(rng, h, True), ep)
    raise AssertionError(n)


# ------------------------------------------------------------------------------------ printers

def value_src(v) -> str:
    k = v[0]
    if k == 'int':
        return str(v[1])
    if k == 'str':
        return '"' + v[1] + '"'
    if k == 'bytes':
        return '0x' + v[1].hex()
    if k == 'bool':
        return 'True' if v[1] else 'False'
    if k == 'unit':
        return 'Unit'
    if k == 'kh':
        return '"' + kh_text(v[1], v[2]) + '"'
    if k == 'key':
        return '"' + key_text(v[1], v[2]) + '"'
    if k == 'sig':
        return '"' + sig_text(v[1], v[2]) + '"'
    if k == 'cid':
        return '"' + cid_text(v[1]) + '"'
    if k == 'addr':
        return '"' + addr_text(v[1], v[2]) + ('' if v[3] is None else '%' + v[3]) + '"'
    if k == 'pair':
        return f'(Pair {value_src(v[1])} {value_src(v[2])})'
    if k == 'none':
        return 'None'
    if k == 'some':
        return f'(Some {value_src(v[1])})'
    if k == 'left':
        return f'(Left {value_src(v[1])})'
    if k == 'right':
        return f'(Right {value_src(v[1])})'
    raise AssertionError(v)


def variant_src(rng, t, v) -> str:
    """Michelson source of v in one of the notations pytezos accepts for the same value: '%default' suffix on an
    address, RFC3339 text for a timestamp, the optimized bytes form of address / key_hash / key / signature / chain_id."""
    import datetime
    k = v[0]
    n = t[0]
    if n == 'pair':
        return f'(Pair {variant_src(rng, t[1], v[1])} {variant_src(rng, t[2], v[2])})'
    if n == 'option' and k == 'some':
        return f'(Some {variant_src(rng, t[1], v[1])})'
    if n == 'or':
        return f'({"Left" if k == "left" else "Right"} {variant_src(rng, t[1] if k == "left" else t[2], v[1])})'
    r = rng.random()
    if n == 'timestamp' and r < 0.3 and 0 <= v[1] <= 253402300799:
        return '"' + datetime.datetime.fromtimestamp(v[1], datetime.timezone.utc).strftime('%Y-%m-%dT%H:%M:%SZ') + '"'
    if n == 'address':
        if r < 0.2 and v[3] is None:
            return value_src(v)[:-1] + '%default"'
        if r < 0.35:
            kind, h, ep = v[1], v[2], v[3]
            raw = (b'\x00' + bytes([int(kind[2]) - 1]) + h) if kind.startswith('tz') else (bytes([{'KT1': 1, 'sr1': 3}[kind]]) + h + b'\x00')
            return '0x' + (raw + (ep or '').encode('ascii')).hex()
    if n == 'key_hash' and r < 0.2:
        return '0x' + (bytes([CURVES.index(v[1])]) + v[2]).hex()
    if n == 'key' and r < 0.2:
        return '0x' + (bytes([CURVES.index(v[1])]) + v[2]).hex()
    if n == 'chain_id' and r < 0.2:
        return '0x' + v[1].hex()
    if n == 'signature' and r < 0.2 and len(v[1]) == 64:
        return '0x' + v[1].hex()
    return value_src(v)


def elt_src(v) -> str:
    """A value as an element of a { ... ; ... } sequence (no outer parentheses there)."""
    s = value_src(v)
    return s[1:-1] if s.startswith('(') else s


def value_micheline(v):
    """Readable Micheline JSON as pytezos renders the value (for recognising outputs)."""
    k = v[0]
    if k == 'int':
        return {'int': str(v[1])}
    if k == 'bytes':
        return {'bytes': v[1].hex()}
    if k == 'bool':
        return {'prim': 'True' if v[1] else 'False'}
    if k == 'unit':
        return {'prim': 'Unit'}
    if k in ('str', 'kh', 'key', 'sig', 'cid', 'addr'):
        return {'string': value_src(v)[1:-1]}
    if k == 'pair':
        return {'prim': 'Pair', 'args': [value_micheline(v[1]), value_micheline(v[2])]}
    if k == 'none':
        return {'prim': 'None'}
    return {'prim': {'some': 'Some', 'left': 'Left', 'right': 'Right'}[k], 'args': [value_micheline(v[1])]}


def norm_out(t, m):
    """Type-directed normalisation of Micheline the implementation rendered in readable mode,
    so that it can be compared with value_micheline: timestamps back to integers."""
    import calendar
    import datetime
    if t[0] == 'timestamp' and isinstance(m, dict) and 'string' in m:
        try:
            d = datetime.datetime.strptime(m['string'], '%Y-%m-%dT%H:%M:%SZ')
            return {'int': str(calendar.timegm(d.timetuple()))}
        except ValueError:
            return m
    if t[0] == 'pair' and isinstance(m, list) and len(m) >= 2:
        m = {'prim': 'Pair', 'args': m}                       # comb written as a sequence
    if isinstance(m, dict) and m.get('prim') == 'Pair' and t[0] == 'pair' and len(m.get('args', [])) >= 2:
        args = m['args']
        rest = args[1] if len(args) == 2 else {'prim': 'Pair', 'args': args[1:]}   # right comb Pair a b c = Pair a (Pair b c)
        return {'prim': 'Pair', 'args': [norm_out(t[1], args[0]), norm_out(t[2], rest)]}
    if isinstance(m, dict) and m.get('prim') == 'Some' and t[0] == 'option':
        return {'prim': 'Some', 'args': [norm_out(t[1], m['args'][0])]}
    if isinstance(m, dict) and m.get('prim') in ('Left', 'Right') and t[0] == 'or':
        return {'prim': m['prim'], 'args': [norm_out(t[1] if m['prim'] == 'Left' else t[2], m['args'][0])]}
    return m


def value_coq(v) -> str:
    k = v[0]
    if k == 'int':
        return f'(VInt {cz(v[1])})'
    if k == 'str':
        return f'(VStr {cb(v[1].encode("ascii"))})'
    if k == 'bytes':
        return f'(VByt {cb(v[1])})'
    if k == 'bool':
        return f'(VBool {lib.cbool(v[1])})'
    if k == 'unit':
        return 'VUnit'
    if k == 'kh':
        return f'(VKeyHash {v[1]} {cb(v[2])})'
    if k == 'key':
        return f'(VKey {v[1]} {cb(v[2])})'
    if k == 'sig':
        return f'(VSig {cb(v[1])})'
    if k == 'cid':
        return f'(VChainId {cb(v[1])})'
    if k == 'addr':
        ep = 'None' if v[3] is None else f'(Some {cb(v[3].encode("ascii"))})'
        return f'(VAddr {ADDR_COQ[v[1]]} {cb(v[2])} {ep})'
    if k == 'pair':
        return f'(VPair {value_coq(v[1])} {value_coq(v[2])})'
    if k == 'none':
        return 'VNone'
    return f'({ {"some": "VSome", "left": "VLeft", "right": "VRight"}[k]} {value_coq(v[1])})'


def collect_texts(v, acc):
    k = v[0]
    if k == 'kh':
        acc['kh'][(v[1], v[2])] = kh_text(v[1], v[2])
    elif k == 'key':
        acc['key'][(v[1], v[2])] = key_text(v[1], v[2])
    elif k == 'cid':
        acc['cid'][v[1]] = cid_text(v[1])
    elif k == 'addr':
        acc['addr'][(v[1], v[2])] = addr_text(v[1], v[2])
    elif k in ('pair',):
        collect_texts(v[1], acc)
        collect_texts(v[2], acc)
    elif k in ('some', 'left', 'right'):
        collect_texts(v[1], acc)


def tables_coq(values) -> str:
    """The model's [text_tables] for all string-valued leaves of the given values."""
    acc = {'kh': {}, 'key': {}, 'cid': {}, 'addr': {}}
    for v in values:
        collect_texts(v, acc)
    kh = lib.clist(f'({c}, {cb(p)}, {cbt(t)})' for (c, p), t in acc['kh'].items())
    key = lib.clist(f'({c}, {cb(p)}, {cbt(t)})' for (c, p), t in acc['key'].items())
    cid = lib.clist(f'({cb(p)}, {cbt(t)})' for p, t in acc['cid'].items())
    addr = lib.clist(f'({ADDR_COQ[k]}, {cb(h)}, {cbt(t)})' for (k, h), t in acc['addr'].items())
    return f'{{| t_kh := {kh}; t_key := {key}; t_cid := {cid}; t_addr := {addr} |}}'


def checksums_coq(values) -> str:
    """double-SHA-256 checksums (the only oracle of the concrete texts kh_text / cid_text of Compare.v) for every
    key_hash and chain_id among the values: list of (prefix ++ payload, 4 bytes)."""
    acc = {'kh': {}, 'key': {}, 'cid': {}, 'addr': {}}
    for v in values:
        collect_texts(v, acc)
    bodies = [PREFIX[KH_PREFIX[c]] + p for (c, p) in acc['kh']] + [PREFIX['Net'] + p for p in acc['cid']]
    return lib.clist(f'({cb(b)}, {cb(hashlib.sha256(hashlib.sha256(b).digest()).digest()[:4])})' for b in bodies)


def texts_respect_order(values) -> str | None:
    """The law the theorems assume of the oracle (texts_ok), checked on the texts actually used:
    key-hash / chain-id text order = (scheme, payload) order. Returns a reason or None."""
    acc = {'kh': {}, 'key': {}, 'cid': {}, 'addr': {}}
    for v in values:
        collect_texts(v, acc)
    khs = list(acc['kh'].items())
    for (k1, t1) in khs:
        for (k2, t2) in khs:
            a = (CURVES.index(k1[0]), k1[1])
            b = (CURVES.index(k2[0]), k2[1])
            if (a < b) != (t1 < t2):
                return f'key_hash texts {t1} / {t2} order differently from their payloads'
    cids = list(acc['cid'].items())
    for (p1, t1) in cids:
        for (p2, t2) in cids:
            if (p1 < p2) != (t1 < t2):
                return f'chain_id texts {t1} / {t2} order differently from their payloads'
    return None


# ------------------------------------------------------------------------------------ the specification (Python transcription)

def _c(a, b) -> int:
    return -1 if a < b else (1 if a > b else 0)


def spec_cmp(t, a, b) -> int:
    n = t[0]
    if n in ('int', 'nat', 'mutez', 'timestamp'):
        return _c(a[1], b[1])
    if n == 'string':
        return _c(a[1].encode('ascii'), b[1].encode('ascii'))
    if n == 'bytes':
        return _c(a[1], b[1])
    if n == 'bool':
        return _c(int(a[1]), int(b[1]))
    if n == 'unit':
        return 0
    if n == 'key_hash':
        return _c((CURVES.index(a[1]), a[2]), (CURVES.index(b[1]), b[2]))
    if n == 'key':
        ka = (a[2][1:], a[2][:1]) if a[1] == 'P256' else (a[2],)
        kb = (b[2][1:], b[2][:1]) if b[1] == 'P256' else (b[2],)
        r = _c(CURVES.index(a[1]), CURVES.index(b[1]))
        return r if r else _c(ka, kb)
    if n == 'signature':
        return _c(a[1], b[1])
    if n == 'chain_id':
        return _c(a[1], b[1])
    if n == 'address':
        ea = (a[3] or 'default').encode('ascii')
        eb = (b[3] or 'default').encode('ascii')
        return _c((ADDR_IDX[a[1]], a[2], ea), (ADDR_IDX[b[1]], b[2], eb))
    if n == 'pair':
        r = spec_cmp(t[1], a[1], b[1])
        return r if r else spec_cmp(t[2], a[2], b[2])
    if n == 'option':
        if a[0] == 'none' or b[0] == 'none':
            return _c(a[0] != 'none', b[0] != 'none')
        return spec_cmp(t[1], a[1], b[1])
    if n == 'or':
        if a[0] != b[0]:
            return -1 if a[0] == 'left' else 1
        return spec_cmp(t[1] if a[0] == 'left' else t[2], a[1], b[1])
    raise AssertionError(t)


def spec_key(t):
    import functools
    return functools.cmp_to_key(lambda a, b: spec_cmp(t, a, b))


def canon(v):
    """Canonical form: values that denote the same Michelson value get the same tuple
    (signature notation dropped)."""
    k = v[0]
    if k == 'sig':
        return ('sig', v[1])
    if k == 'pair':
        return ('pair', canon(v[1]), canon(v[2]))
    if k in ('some', 'left', 'right'):
        return (k, canon(v[1]))
    return v


def contains_shape(t, v, pred) -> bool:
    """Does some sub-value (with its type) satisfy pred(t, v)?"""
    if pred(t, v):
        return True
    if t[0] == 'pair':
        return contains_shape(t[1], v[1], pred) or contains_shape(t[2], v[2], pred)
    if t[0] == 'option' and v[0] == 'some':
        return contains_shape(t[1], v[1], pred)
    if t[0] == 'or':
        return contains_shape(t[1] if v[0] == 'left' else t[2], v[1], pred)
    return False


# ------------------------------------------------------------------------------------ running case files

def par_mismatches(ctx, name, imports, fn, eqb, in_ty, out_ty, cases, shard=100):
    """ctx.coq_mismatches, but every case literal is its own [Definition] (coqc elaborates one huge list
    literal super-linearly: 8 cases of 3 KB took 24 s as one list and 2.4 s as separate definitions);
    shards run concurrently, each through ctx.coq_mismatches with its definitions as prelude."""
    import concurrent.futures
    if not cases:
        return []
    chunks = [(b, cases[b:b + shard]) for b in range(0, len(cases), shard)]

    def one(job):
        base, chunk = job
        prelude = []
        refs = []
        for k, (a, b) in enumerate(chunk):
            prelude.append(f'Definition ci{k} : {in_ty} := {a}.\nDefinition co{k} : {out_ty} := {b}.')
            refs.append((f'ci{k}', f'co{k}'))
        bad = ctx.coq_mismatches(f'{name}{base}', imports, fn, eqb, in_ty, out_ty, refs, shard=len(refs) + 1,
                                 prelude='\n'.join(prelude))
        return [base + i for i in bad]

    out = []
    with concurrent.futures.ThreadPoolExecutor(max_workers=lib.NCPU) as ex:
        for r in ex.map(one, chunks):
            out.extend(r)
    return sorted(out)


# ------------------------------------------------------------------------------------ map / big_map value types (C14, C15)

class VT:
    """A value type for map / big_map values. Values are integer *codes* (what the Coq model sees, V := Z):
    for `int` the code is the integer itself; otherwise an index into a small universe of literals whose first
    element is FALSY for pytezos (False, "", 0x, empty list/set/map: classes with __bool__/__len__)."""

    def __init__(self, src, lits=None, dup=True):
        self.src = src                      # Michelson type
        self.lits = lits                    # [(source literal, micheline json)] or None for int
        self.dup = dup                      # duplicable?
        self.is_int = lits is None and dup
        self.ticket = not dup

    def codes(self):
        return list(range(len(self.lits))) if self.lits else None

    def gen(self, rng):
        if self.is_int:
            return rng.choice([0, 1, -1, 7, rng.randrange(-1000, 1000)])
        if self.ticket:
            return rng.choice([0, 1, 1, 2, 3])
        return 0 if rng.random() < 0.45 else rng.randrange(len(self.lits))

    def lit(self, code):
        """source literal of a pushable value"""
        return str(code) if self.is_int else self.lits[code][0]

    def micheline(self, code):
        return {'int': str(code)} if self.is_int else self.lits[code][1]

    def push_opt(self, vo):
        """code that leaves `option vt` (Some value / None) on the stack"""
        if vo is None:
            return f'NONE {self.src}'
        if self.ticket:
            return f'PUSH nat {vo}; PUSH string "tk"; TICKET; SOME'
        return f'PUSH (option {self.src}) (Some {self.lit(vo)})'

    def push_val(self, code):
        if self.ticket:
            return f'PUSH nat {code}; PUSH string "tk"; TICKET'
        return f'PUSH {self.src} {self.lit(code)}'

    def decode_micheline(self, m):
        """Micheline of a value -> code (or -999)"""
        import json
        m = lib.canon_micheline(m)
        if self.is_int:
            return int(m['int']) if isinstance(m, dict) and 'int' in m else -999
        if self.ticket:                      # option (ticket string): None | Some (Pair addr "tk" amount)
            if m.get('prim') == 'None':
                return 0
            try:
                args = m['args'][0]['args']
                return int((args[2] if len(args) == 3 else args[1]['args'][1])['int'])
            except (KeyError, IndexError, TypeError):
                return -999
        j = json.dumps(m, sort_keys=True)
        for i, (_, mm) in enumerate(self.lits):
            if json.dumps(lib.canon_micheline(mm), sort_keys=True) == j:
                return i
        return -999

    def decode(self, v):
        return self.decode_micheline(v.to_micheline_value(mode='readable'))


def _elt(k, v):
    return {'prim': 'Elt', 'args': [k, v]}


VT_INT = VT('int')
VT_TICKET = VT('(option (ticket string))', dup=False)
VALUE_TYPES = [
    VT_INT,
    VT('bool', [('False', {'prim': 'False'}), ('True', {'prim': 'True'})]),
    VT('string', [('""', {'string': ''}), ('"a"', {'string': 'a'}), ('"b c"', {'string': 'b c'})]),
    VT('bytes', [('0x', {'bytes': ''}), ('0x00', {'bytes': '00'}), ('0xff01', {'bytes': 'ff01'})]),
    VT('(list nat)', [('{}', []), ('{ 0 }', [{'int': '0'}]), ('{ 1 ; 2 }', [{'int': '1'}, {'int': '2'}])]),
    VT('(set int)', [('{}', []), ('{ 0 }', [{'int': '0'}]), ('{ -1 ; 5 }', [{'int': '-1'}, {'int': '5'}])]),
    VT('(map string nat)', [('{}', []), ('{ Elt "" 0 }', [_elt({'string': ''}, {'int': '0'})]),
                            ('{ Elt "a" 1 ; Elt "b" 2 }', [_elt({'string': 'a'}, {'int': '1'}), _elt({'string': 'b'}, {'int': '2'})])]),
    VT('(option int)', [('None', {'prim': 'None'}), ('(Some 0)', {'prim': 'Some', 'args': [{'int': '0'}]}),
                        ('(Some 7)', {'prim': 'Some', 'args': [{'int': '7'}]})]),
    VT('(pair bool string)', [('(Pair False "")', {'prim': 'Pair', 'args': [{'prim': 'False'}, {'string': ''}]}),
                              ('(Pair True "x")', {'prim': 'Pair', 'args': [{'prim': 'True'}, {'string': 'x'}]})]),
]


# ------------------------------------------------------------------------------------ the assumption about sorted()

SORTED_STATS = {'calls': 0, 'distinct_key_calls': 0, 'failures': []}


def install_sorted_check():
    """The theorems assume of Python's sorted() only: on a list whose keys are pairwise distinct it returns a permutation
    of its input with non-descending keys (C14_sorted_needs_only_sorted_permutation). Every call made by pytezos' set.py,
    map.py and big_map.py during a run is checked against exactly that (the modules' global name `sorted` is shadowed
    by a checking wrapper around the builtin)."""
    import builtins
    import importlib
    if SORTED_STATS.get('installed'):
        return SORTED_STATS

    def checked(iterable, *, key=None, reverse=False):
        items = list(iterable)
        res = builtins.sorted(items, key=key, reverse=reverse)
        SORTED_STATS['calls'] += 1
        kf = key or (lambda x: x)
        try:
            keys = [kf(x) for x in items]
            distinct = all(not (keys[i] == keys[j]) for i in range(len(keys)) for j in range(i + 1, len(keys))) if len(keys) <= 40 else None
            if distinct and not reverse:
                SORTED_STATS['distinct_key_calls'] += 1
                perm = builtins.sorted(map(id, items)) == builtins.sorted(map(id, res))
                rk = [kf(x) for x in res]
                nondesc = all(not (rk[i + 1] < rk[i]) for i in range(len(rk) - 1))
                if not (perm and nondesc) and len(SORTED_STATS['failures']) < 3:
                    SORTED_STATS['failures'].append({'input': repr(items)[:300], 'output': repr(res)[:300], 'permutation': perm, 'non_descending': nondesc})
        except Exception:  # noqa: BLE001  (a comparison that raises is the implementation's business, not this check's)
            pass
        return res

    for name in ('pytezos.michelson.types.set', 'pytezos.michelson.types.map', 'pytezos.michelson.types.big_map'):
        importlib.import_module(name).sorted = checked
    SORTED_STATS['installed'] = True
    return SORTED_STATS


def report_sorted_check(ctx):
    st = SORTED_STATS
    ctx.extra['sorted_calls_checked'] = {'calls': st['calls'], 'with_distinct_keys': st['distinct_key_calls'], 'failures': len(st['failures'])}
    ctx.assumptions.append('Python sorted(): assumed only to return a permutation with non-descending keys on duplicate-free input; '
                           f'checked on all {st["distinct_key_calls"]} such calls made by set.py/map.py/big_map.py in this run')
    if st['failures']:
        ctx.violation('sorted() did not return a sorted permutation of its input (assumption of the C14/C03/C15 theorems)',
                      {'assumption': 'C14_sorted_needs_only_sorted_permutation', 'calls': st['failures']}, found=False)


# ------------------------------------------------------------------------------------ several notations of one value

def alt_micheline(t, v):
    """Micheline of v in ANOTHER notation pytezos accepts for the same value (or None when v has only one):
    signature sig <-> edsig (96 bytes: optimized bytes), address '%default' suffix / optimized bytes, key / key_hash /
    chain_id optimized bytes, timestamp RFC3339 text; the first leaf that has an alternative inside pair / option / or."""
    import datetime
    n, k = t[0], v[0]
    if n == 'pair':
        a = alt_micheline(t[1], v[1])
        if a is not None:
            return {'prim': 'Pair', 'args': [a, value_micheline(v[2])]}
        b = alt_micheline(t[2], v[2])
        return None if b is None else {'prim': 'Pair', 'args': [value_micheline(v[1]), b]}
    if n == 'option':
        if k != 'some':
            return None
        a = alt_micheline(t[1], v[1])
        return None if a is None else {'prim': 'Some', 'args': [a]}
    if n == 'or':
        a = alt_micheline(t[1] if k == 'left' else t[2], v[1])
        return None if a is None else {'prim': 'Left' if k == 'left' else 'Right', 'args': [a]}
    if n == 'signature':
        if len(v[1]) != 64:
            return {'bytes': v[1].hex()}
        return {'string': sig_text(v[1], 'edsig' if v[2] == 'sig' else 'sig')}
    if n == 'address':
        if v[3] is None:
            return {'string': addr_text(v[1], v[2]) + '%default'}
        kind, h = v[1], v[2]
        raw = (b'\x00' + bytes([int(kind[2]) - 1]) + h) if kind.startswith('tz') else (bytes([{'KT1': 1, 'sr1': 3}[kind]]) + h + b'\x00')
        return {'bytes': (raw + v[3].encode('ascii')).hex()}
    if n in ('key_hash', 'key'):
        return {'bytes': (bytes([CURVES.index(v[1])]) + v[2]).hex()}
    if n == 'chain_id':
        return {'bytes': v[1].hex()}
    if n == 'timestamp' and 0 <= v[1] <= 253402300799:
        return {'string': datetime.datetime.fromtimestamp(v[1], datetime.timezone.utc).strftime('%Y-%m-%dT%H:%M:%SZ')}
    return None


def micheline_src(m) -> str:
    if isinstance(m, list):
        return '{ ' + ' ; '.join(_strip(micheline_src(x)) for x in m) + ' }'
    if 'int' in m:
        return m['int']
    if 'string' in m:
        return '"' + m['string'] + '"'
    if 'bytes' in m:
        return '0x' + m['bytes']
    args = m.get('args') or []
    return m['prim'] if not args else '(' + m['prim'] + ' ' + ' '.join(micheline_src(a) for a in args) + ')'


def _strip(s):
    return s[1:-1] if s.startswith('(') else s


def literal_michelines(t, elems):
    """Micheline of the elements of a literal; an element equal (as a Michelson value) to its predecessor is written in
    another notation when the type has one, so that duplicates also come as two spellings of one value."""
    out = []
    for i, v in enumerate(elems):
        m = None
        if i > 0 and canon(v) == canon(elems[i - 1]):
            m = alt_micheline(t, v)
        out.append(m if m is not None else value_micheline(v))
    return out


def literal_elt_srcs(t, elems):
    return [_strip(micheline_src(m)) for m in literal_michelines(t, elems)]


NOTATION_TYPES = [('signature',), ('address',), ('key',), ('key_hash',), ('chain_id',), ('timestamp',),
                  ('pair', ('signature',), ('int',)), ('option', ('signature',)), ('or', ('address',), ('signature',)),
                  ('pair', ('nat',), ('key_hash',))]


def notation_duplicates(rng):
    """directed literals: one value twice, the second time in another notation (must be rejected), for every type
    that has several notations; yields (type, [v, v])"""
    for t in NOTATION_TYPES:
        for _ in range(2):
            v = gen_value(rng, t)
            if alt_micheline(t, v) is not None:
                yield t, [v, v]
