"""C31 — Merkle hashes (src/pytezos/crypto/hash.py).

Correspondence (A), implementation vs Codec/Merkle.v evaluated inside coqc:
  free    _reduce_operation_hashes with `_hash_tuple` replaced from outside by a free term constructor
          (the code returns the Merkle *tree term*); compared with the model's term for list lengths 0..N
          (contents are irrelevant by parametricity: the theorems quantify over every hash function);
  num     the same under a numeric algebra H(a,b) = (ab+3a+7b+12345) mod 2^31-1 with seeded leaves, every length;
  glue    operation_list_hash / operation_list_list_hash / block_payload_hash / _reduce_operation_hashes with the real
          Blake2b and base58, the oracles handed to the model as recorded tables.
Oracle (B), the property itself on the implementation's outputs: an independent recursive padded-tree
Merkle root over hashlib.blake2b + base58 (`base58` package, hard-coded Tezos prefixes), the mainnet / ithacanet
vectors of tests/unit_tests/test_crypto/test_hashes.py validate that oracle.
"""
import hashlib
import json

import base58

import lib
from c31_lits import balanced, cbp
from lib import clist, cnat, cN, cZ

PROP = 'C31'
IMPORTS = 'From PV Require Import Codec.Merkle.'
NUMP = 2147483647

# Tezos base58check prefixes (src/lib_crypto/base58.ml), independent of pytezos' table
PFX = {'o': bytes([5, 116]), 'Lo': bytes([133, 233]), 'LLo': bytes([29, 159, 109]), 'vh': bytes([1, 106, 242]),
       'B': bytes([1, 52])}


# ----------------------------------------------------------------------------------------------
# independent specification (Python): perfect tree over the leaves padded with the last leaf
# ----------------------------------------------------------------------------------------------
def spec_root(leaves, h2):
    """root of the perfect binary tree over `leaves` padded with copies of the last one to the next power of two"""
    assert leaves
    size = 1
    while size < len(leaves):
        size *= 2
    row = list(leaves) + [leaves[-1]] * (size - len(leaves))

    def rec(lo, hi):
        if hi - lo == 1:
            return row[lo]
        mid = (lo + hi) // 2
        return h2(rec(lo, mid), rec(mid, hi))

    return rec(0, size)


def b2(x: bytes) -> bytes:
    return hashlib.blake2b(x, digest_size=32).digest()


def spec_merkle_bytes(hashes):
    if not hashes:
        return b2(b'')
    return spec_root([b2(x) for x in hashes], lambda a, b: b2(a + b))


def b58e(kind: str, payload: bytes) -> str:
    return base58.b58encode_check(PFX[kind] + payload).decode()


def b58d(text: str) -> bytes:
    """decode any of the five kinds used here (independent of pytezos)"""
    raw = base58.b58decode_check(text.encode())
    for k, p in PFX.items():
        if text.startswith(k) and raw.startswith(p) and len(raw) == len(p) + 32:
            # longest textual prefix wins ('LLo' before 'Lo'): check the binary prefix, which is unambiguous
            return raw[len(p):]
    raise ValueError(text)


def spec_oplist(ops):
    return b58e('Lo', spec_merkle_bytes([b58d(x) for x in ops]))


def spec_oplistlist(opss):
    return b58e('LLo', spec_merkle_bytes([b58d(spec_oplist(ops)) for ops in opss]))


def spec_payload(pred, rnd, ops):
    if not 0 <= rnd < 2 ** 32:
        raise OverflowError
    return b58e('vh', b2(b58d(pred) + rnd.to_bytes(4, 'big') + spec_merkle_bytes([b58d(x) for x in ops])))


# ----------------------------------------------------------------------------------------------
# free terms
# ----------------------------------------------------------------------------------------------
class Raw:
    """the i-th input of a free-term run (opaque to the code under test)"""
    __slots__ = ('i',)

    def __init__(self, i):
        self.i = i


class HT:
    __slots__ = ('l', 'r')

    def __init__(self, l, r):
        self.l, self.r = l, r


EMP = b''


def ser(t, out: bytearray):
    """postfix serialisation, the same as Codec/Merkle.v [ser]"""
    stack = [(t, False)]
    while stack:
        x, done = stack.pop()
        if done:
            out.append(2)
        elif isinstance(x, HT):
            stack.append((x, True))
            stack.append((x.r, False))
            stack.append((x.l, False))
        elif isinstance(x, Raw):
            out += bytes([1, (x.i // 256) % 256, x.i % 256])
        elif isinstance(x, (bytes, bytearray)) and len(x) == 0:
            out.append(0)
        else:
            out += b'\xee' + repr(x).encode()[:40]  # something the model cannot produce
    return out


def pos_chunks(data: bytes) -> str:
    """Codec/Merkle.v [chunks]: consecutive 256-byte pieces, each int.from_bytes(piece + 01, 'little')"""
    return clist(hex(int.from_bytes(data[i:i + 256] + bytes([1]), 'little')) + '%positive' for i in range(0, len(data), 256))


def term_spec(n):
    """(B) for free terms: the padded perfect tree, as a term"""
    if n == 0:
        return HT(EMP, EMP)
    return spec_root([HT(Raw(i), EMP) for i in range(n)], HT)


class Patched:
    """substitute names inside pytezos.crypto.hash from outside"""

    def __init__(self, **kw):
        self.kw = kw

    def __enter__(self):
        import pytezos.crypto.hash as H
        self.H = H
        self.saved = {k: getattr(H, k) for k in self.kw}
        for k, v in self.kw.items():
            setattr(H, k, v)
        return H

    def __exit__(self, *a):
        for k, v in self.saved.items():
            setattr(self.H, k, v)


def free_run(n):
    """real _reduce_operation_hashes on n opaque inputs with _hash_tuple := term constructor"""
    def fake(left=EMP, right=EMP):
        return HT(left, right)

    with Patched(_hash_tuple=fake) as H:
        ok, val = lib.call(H._reduce_operation_hashes, [Raw(i) for i in range(n)])
    if not ok:
        return bytes([0xff]), f'{type(val).__name__}: {val}'
    return bytes(ser(val, bytearray())), None


def num_h(a, b):
    return (a * b + a * 3 + b * 7 + 12345) % NUMP


def gen_leaves(n, seed):
    return [(seed * (i + 1) + i * i) % NUMP for i in range(n)]


def num_run(n, seed, e):
    def fake(left=e, right=e):
        return num_h(left, right)

    with Patched(_hash_tuple=fake) as H:
        ok, val = lib.call(H._reduce_operation_hashes, gen_leaves(n, seed))
    if not ok or not isinstance(val, int):
        return -1
    return val


# ----------------------------------------------------------------------------------------------
# glue with real digests
# ----------------------------------------------------------------------------------------------
def rand_hash(rng, kind='o'):
    k = rng.random()
    if k < 0.08:
        p = bytes(32)
    elif k < 0.16:
        p = b'\xff' * 32
    elif k < 0.3:
        p = bytes(rng.randrange(0, 3)) + rng.randbytes(29) + bytes(3)
        p = p[:32].ljust(32, b'\0')
    else:
        p = rng.randbytes(32)
    return b58e(kind, p)


def glue_impl(kind, lists, pred, rnd):
    """run the real function with recording wrappers around blake2b / base58; returns (result|None, calls)"""
    import pytezos.crypto.encoding as enc
    calls = {'blake': [], 'dec': [], 'enc': []}

    class RecBlake:
        def __init__(self, data=b'', **kw):
            calls['blake'].append(bytes(data))
            self._h = hashlib.blake2b(data, **kw)

        def digest(self):
            return self._h.digest()

    def rdec(v, *a, **kw):
        calls['dec'].append(bytes(v))
        return enc.base58_decode(v, *a, **kw)

    def renc(v, prefix, *a, **kw):
        calls['enc'].append((bytes(prefix), bytes(v)))
        return enc.base58_encode(v, prefix, *a, **kw)

    flat = [x for l in lists for x in l]
    with Patched(blake2b=RecBlake, base58_decode=rdec, base58_encode=renc) as H:
        if kind == 0:
            ok, val = lib.call(H.operation_list_hash, flat)
        elif kind == 1:
            ok, val = lib.call(H.operation_list_list_hash, lists)
        elif kind == 2:
            ok, val = lib.call(H.block_payload_hash, pred, rnd, flat)
        else:
            ok, val = lib.call(H._reduce_operation_hashes, [bytes.fromhex(x) for x in flat])
    if ok and kind == 3:
        val = val.hex() if isinstance(val, (bytes, bytearray)) else repr(val)
    return (val if ok else None), calls, (None if ok else f'{type(val).__name__}: {val}')


def glue_spec(kind, lists, pred, rnd):
    """(B) expected value per the property, or None where the inputs are not hashes (decode fails / round out of range)"""
    flat = [x for l in lists for x in l]
    try:
        if kind == 0:
            return spec_oplist(flat)
        if kind == 1:
            return spec_oplistlist(lists)
        if kind == 2:
            return spec_payload(pred, rnd, flat)
        return spec_merkle_bytes([bytes.fromhex(x) for x in flat]).hex()
    except Exception:  # noqa: BLE001
        return None


def oracle_tables(kind, lists, pred, rnd, calls):
    """the oracles as data: true Blake2b-256 and pytezos' base58 on every point either side may query"""
    import pytezos.crypto.encoding as enc
    bl, dc, en = {}, {}, {}

    def blake(x):
        bl[bytes(x)] = b2(x)
        return bl[bytes(x)]

    def dec(t: bytes):
        ok, v = lib.call(enc.base58_decode, t)
        if ok:
            dc[bytes(t)] = bytes(v)
            return bytes(v)
        raise ValueError

    def encf(p: bytes, x: bytes):
        ok, v = lib.call(enc.base58_encode, x, p)
        if ok:
            en[(bytes(p), bytes(x))] = bytes(v)
            return bytes(v)
        raise ValueError

    def merkle(hs):
        if not hs:
            return blake(b'')
        return spec_root([blake(x) for x in hs], lambda a, b: blake(a + b))

    flat = [x for l in lists for x in l]
    try:
        if kind == 0:
            encf(b'Lo', merkle([dec(x.encode()) for x in flat]))
        elif kind == 1:
            los = [encf(b'Lo', merkle([dec(x.encode()) for x in l])) for l in lists]
            encf(b'LLo', merkle([dec(x) for x in los]))
        elif kind == 2:
            p = dec(pred.encode())
            raw = [dec(x.encode()) for x in flat]
            if 0 <= rnd < 2 ** 32:
                encf(b'vh', blake(p + rnd.to_bytes(4, 'big') + merkle(raw)))
        else:
            merkle([bytes.fromhex(x) for x in flat])
    except ValueError:
        pass
    for x in calls['blake']:
        blake(x)
    for t in calls['dec']:
        try:
            dec(t)
        except ValueError:
            pass
    for p, x in calls['enc']:
        try:
            encf(p, x)
        except ValueError:
            pass
    return bl, dc, en


def coq_glue_case(kind, lists, pred, rnd, tables):
    bl, dc, en = tables
    tb = lambda d: clist(f'({cbp(k)}, {cbp(v)})' for k, v in d.items())  # noqa: E731
    ten = clist(f'({cbp(p + b":" + x)}, {cbp(v)})' for (p, x), v in en.items())
    as_b = (lambda s: cbp(bytes.fromhex(s))) if kind == 3 else (lambda s: cbp(s.encode()))
    ls = clist(clist(as_b(x) for x in l) for l in lists)
    r = rnd if -2 ** 70 < rnd < 2 ** 70 else 2 ** 70
    return (f'{{| g_blake := {tb(bl)}; g_dec := {tb(dc)}; g_enc := {ten}; g_kind := {cnat(kind)}; '
            f'g_lists := {ls}; g_pred := {cbp(pred.encode())}; g_round := {cZ(r)} |}}')


def gen_glue(rng, count):
    """structured cases + a malformed stream (bad checksum, foreign kinds, round out of range)"""
    out = []
    sizes = [0, 1, 2, 3, 4, 5, 6, 7, 8, 9, 15, 16, 17]
    for k in range(count):
        kind = k % 4
        n = rng.choice(sizes)
        pred = rand_hash(rng, 'B')
        rnd = rng.choice([0, 0, 1, 2, 255, 256, 65535, 2 ** 31 - 1, 2 ** 31, 2 ** 32 - 1, rng.randrange(2 ** 32)])
        if kind == 1:
            lists = [[rand_hash(rng) for _ in range(rng.choice([0, 0, 1, 2, 3, 5]))] for _ in range(rng.choice([0, 1, 2, 3, 4, 5, 6]))]
        elif kind == 3:
            lists = [[rng.randbytes(rng.choice([32, 32, 32, 0, 1, 31, 33])).hex() for _ in range(n)]]
        else:
            lists = [[rand_hash(rng) for _ in range(n)]]
        if rng.random() < 0.25 and kind != 3:
            lists = [list(l) for l in lists]
            if rng.random() < 0.3 and lists and lists[0]:
                lists[0][-1] = lists[0][0]  # duplicates
        mal = None
        if kind != 3 and rng.random() < 0.22:
            mal = rng.choice(['checksum', 'foreign', 'round', 'pred'])
            tgt = [l for l in lists if l]
            if mal == 'checksum' and tgt:
                l = rng.choice(tgt)
                i = rng.randrange(len(l))
                c = l[i][-1]
                l[i] = l[i][:-1] + ('2' if c != '2' else '3')
            elif mal == 'foreign' and tgt:
                l = rng.choice(tgt)
                l[rng.randrange(len(l))] = rand_hash(rng, rng.choice(['B', 'Lo', 'vh']))
            elif mal == 'round' and kind == 2:
                rnd = rng.choice([-1, 2 ** 32, 2 ** 32 + 5, -2 ** 31, 2 ** 64])
            elif mal == 'pred' and kind == 2:
                pred = pred[:-2] + ('11' if not pred.endswith('11') else '22')
            else:
                mal = None
        out.append((kind, lists, pred, rnd, mal))
    return out


def gen_lol_shapes(rng, thorough):
    """lists of lists by shape: k = 1..9 empty validation passes only; exactly one non-empty pass at every position
    (all other passes empty); one empty pass at every position among non-empty ones"""
    out = []
    pred = rand_hash(rng, 'B')
    for k in range(1, 10):
        out.append((1, [[] for _ in range(k)], pred, 0, 'shape'))
    for k in range(1, 10 if thorough else 6):
        for pos in range(k):
            ll = [[] for _ in range(k)]
            ll[pos] = [rand_hash(rng) for _ in range(rng.choice([1, 1, 2, 3]))]
            out.append((1, ll, pred, 0, 'shape'))
    for k in range(2, 7 if thorough else 5):
        for pos in range(k):
            ll = [[rand_hash(rng) for _ in range(rng.choice([1, 2]))] for _ in range(k)]
            ll[pos] = []
            out.append((1, ll, pred, 0, 'shape'))
    # flat lists by shape: all elements equal, duplicates adjacent / apart, sorted / reverse-sorted; identical passes
    a, b, c = rand_hash(rng), rand_hash(rng), rand_hash(rng)
    flats = [[a] * n for n in ((2, 3, 4, 5, 8, 9, 16, 17) if thorough else (2, 3, 5, 8))]
    flats += [[a, b, a], [a, a, b], [b, a, a], [a, b, a, b], sorted([a, b, c]), sorted([a, b, c], reverse=True), [a, b, c, c]]
    for i, fl in enumerate(flats):
        kind = (0, 2, 3)[i % 3]
        out.append((kind, [[b58d(x).hex() for x in fl]] if kind == 3 else [list(fl)], pred, 1, 'shape'))
    for ll in ([[a], [a]], [[a], [a], [a]], [[a, b], [a, b]], [[a], [b], [a]]):
        out.append((1, [list(x) for x in ll], pred, 0, 'shape'))
    return out


def gen_sequences(rng, groups):
    """call sequences that make state kept between calls visible: within a group the same predecessor and round
    (resp. related lists: prefixes, permutations, repeats, the empty list before and after) are used for
    consecutive calls of all four functions, in several orders; every call is checked on its own"""
    out = []
    for g in range(groups):
        pred, pred2 = rand_hash(rng, 'B'), rand_hash(rng, 'B')
        rnd = rng.choice([0, 0, 1, 7, 2 ** 32 - 1, rng.randrange(2 ** 32 - 1)])
        p = [rand_hash(rng) for _ in range(5)]
        variants = [[], [p[0]], [p[1]], [p[0], p[1]], [p[1], p[0]], [p[0], p[1], p[2]], [p[0], p[1], p[2], p[3], p[4]], [p[0], p[0]]]
        if g == 0:
            order = [0, 1, 0, 3, 1, 4, 5, 3, 6, 7, 0]          # [] first, then longer ones, [] again
        elif g == 1:
            order = [6, 5, 3, 1, 0, 1, 2, 4, 7, 6]             # long first, shrinking, then siblings
        else:
            order = [rng.randrange(len(variants)) for _ in range(10)]
        calls = []
        for k in order:
            v = list(variants[k])
            calls.append((2, [v], pred, rnd))
            if rng.random() < 0.5:
                calls.append((0, [v], pred, rnd))
            if rng.random() < 0.3:
                calls.append((3, [[b58d(x).hex() for x in v]], pred, rnd))
        # same list under another round / predecessor, and back
        v = list(variants[rng.choice([1, 3, 5])])
        calls += [(2, [v], pred, (rnd + 1) % 2 ** 32), (2, [v], pred2, rnd), (2, [v], pred, rnd), (2, [[]], pred2, rnd)]
        # lists of lists built from related pieces, in both orders, with repeats
        a, b = list(variants[rng.choice([1, 2, 3])]), list(variants[rng.choice([4, 5, 7])])
        for ll in ([a, b], [b, a], [a], [a, b, []], [[], a, b], [], [a, a], [a, b]):
            calls.append((1, [list(x) for x in ll], pred, rnd))
        if g >= 2:
            rng.shuffle(calls)
        out += [(kind, lists, pr, rd, 'seq') for kind, lists, pr, rd in calls]
    return out


# ----------------------------------------------------------------------------------------------
def search_real(ctx, lengths):
    """(B) with real digests on _reduce_operation_hashes; returns (n, hashes, got, want) of the first failure"""
    import pytezos.crypto.hash as H
    for n in lengths:
        hs = [ctx.rng.randbytes(32) for _ in range(n)]
        ok, got = lib.call(H._reduce_operation_hashes, list(hs))
        want = spec_merkle_bytes(hs)
        if not ok or got != want:
            return n, hs, (got.hex() if ok and isinstance(got, (bytes, bytearray)) else repr(got)), want.hex()
    return None


def run(ctx: lib.Ctx) -> None:
    import pytezos.crypto.hash as H
    rng = ctx.rng
    ctx.rule = ('free: one case per list length (0..600 on the Python side against the padded-tree oracle; the Coq model evaluates a '
                'dense prefix of lengths plus lengths around every power of two in the quick tier, every length 0..600 (+ sampled up to 1500) '
                'in the thorough tier); num: every length 0..600 with seeded leaves under a polynomial algebra; real: every length 0..600 with '
                'random 32-byte hashes against hashlib; glue: the four functions on small lists with real Blake2b/base58 incl. malformed '
                'base58 and out-of-range rounds, plus call sequences in one process with equal (predecessor, round) and related lists '
                '(empty before/after, prefixes, permutations, repeats), and lists of lists by shape (1..9 empty passes only, exactly one non-empty / one '
                'empty pass at every position), each call checked against the padded-tree oracle. non-trivial = length >= 3 (padding or more than one level); distinct = distinct (stream, length/input)')
    reported = 0

    def report(what, rep, found=True):
        nonlocal reported
        if reported < 3:
            reported += 1
            ctx.violation(what, rep, found=found)

    # ---- 0. validate the oracle (B) itself on the recorded chain data
    import importlib.util
    vec_ok = None
    try:
        spec = importlib.util.spec_from_file_location('c31_vectors', f'{lib.REPO}/tests/unit_tests/test_crypto/test_hashes.py')
        tv = importlib.util.module_from_spec(spec)
        spec.loader.exec_module(tv)
        vec_ok = (spec_oplistlist(tv.operation_hashes) == tv.operation_hashes_llo
                  and spec_payload(tv.predecessor_1, 0, tv.operation_hashes_1) == tv.block_payload_hash_1
                  and spec_payload(tv.predecessor_2, 0, tv.operation_hashes_2) == tv.block_payload_hash_2)
        vectors = [(1, tv.operation_hashes, tv.predecessor_1, 0), (2, [tv.operation_hashes_1], tv.predecessor_1, 0),
                   (2, [tv.operation_hashes_2], tv.predecessor_2, 0)]
    except Exception as e:  # noqa: BLE001  (the test file may have been edited away)
        ctx.extra['vectors_error'] = repr(e)[:200]
        vectors = []
    ctx.extra['oracle_reproduces_chain_vectors'] = vec_ok
    if vec_ok is False:
        raise lib.InternalError('the Python oracle does not reproduce the recorded mainnet/ithacanet hashes')

    # ---- 1. _hash_tuple itself vs hashlib
    for k in range(ctx.n(200, 2000)):
        a = rng.randbytes(rng.choice([0, 0, 1, 31, 32, 32, 33, 64]))
        b = rng.randbytes(rng.choice([0, 0, 1, 31, 32, 32, 33, 64]))
        args = [(a, b), (a,), ()][k % 3] if k >= 3 else [(), (a,), (a, b)][k]
        ok, got = lib.call(H._hash_tuple, *args)
        want = b2(b''.join(args))
        ctx.case(('ht', args), nontrivial=len(args) == 2, kind='hash_tuple')
        if not ok or got != want:
            report('_hash_tuple is not Blake2b-256 of left||right',
                   {'args': [x.hex() for x in args], 'got': got.hex() if ok else repr(got), 'want': want.hex(),
                    'repro': f"from pytezos.crypto.hash import _hash_tuple; _hash_tuple(*[bytes.fromhex(x) for x in {[x.hex() for x in args]}]).hex()"})
            break

    # ---- 2. free terms: implementation, (B) on every length, (A) in coqc on the tier's lengths
    NMAX = 600
    free = {}
    for n in range(0, NMAX + 1):
        got, err = free_run(n)
        free[n] = got
        want = bytes(ser(term_spec(n), bytearray()))
        ctx.case(('free', n), nontrivial=n >= 3, kind='free-term', sample={'stream': 'free', 'length': n, 'term_bytes': len(got)} if n in (5, 600) else None)
        if got != want:
            bad_real = search_real(ctx, [n])
            if bad_real:
                n_, hs, g, w = bad_real
                report(f'Merkle root of {n_} hashes differs from the padded perfect tree',
                       {'hashes': [x.hex() for x in hs], 'got': g, 'want': w, 'error': err,
                        'repro': 'from pytezos.crypto.hash import _reduce_operation_hashes as r; r([bytes.fromhex(x) for x in hashes]).hex()'})
            else:
                report(f'free-term run of _reduce_operation_hashes on {n} inputs is not the padded perfect tree (real digests agree)',
                       {'correspondence': 'C31/_reduce_operation_hashes(free terms) vs padded tree', 'length': n, 'error': err}, found=False)
    if ctx.thorough:
        lens = list(range(0, NMAX + 1)) + sorted(rng.sample(range(NMAX + 1, 1500), 12))
    else:
        lens = sorted(set(list(range(0, 41)) + [2 ** k + d for k in (6, 7) for d in (-1, 0, 1, 2)] + [256, 257, 385, 512, 513, 600]
                          + rng.sample(range(41, NMAX), 3)))
    allcases = []  # (cost, (literal, stream, meta))
    for n in lens:
        if n not in free:
            free[n], _ = free_run(n)
            ctx.case(('free', n), kind='free-term')
        allcases.append((3 * n + 20, (f'(CFree {cnat(n)} {pos_chunks(free[n])})', 'free', n)))
    ctx.extra['free_lengths_in_coq'] = len(lens)

    # ---- 3. numeric algebra (thorough: every length three times; quick: every length up to 72, then every sixth and the powers of two)
    for rep in range(ctx.n(1, 3)):
        for n in range(0, NMAX + 1):
            if not ctx.thorough and n > 72 and n % 6 and not any(abs(n - 2 ** k) <= 2 for k in (8, 9)) and n < 598:
                continue
            seed, e = rng.randrange(1, NUMP), rng.choice([0, 1, rng.randrange(NUMP)])
            v = num_run(n, seed, e)
            ctx.case(('num', n, seed, e), nontrivial=n >= 3, kind='numeric-algebra',
                     sample={'stream': 'num', 'length': n, 'seed': seed, 'e': e, 'value': v} if n == 7 else None)
            allcases.append((n + 10, (f'(CNum {cnat(n)} {cN(seed)} {cN(e)} {cZ(v)})', 'num', (n, seed, e, v))))

    # ---- 4. real digests, every length (B)
    br = search_real(ctx, range(0, NMAX + 1))
    for n in range(0, NMAX + 1):
        ctx.case(('real', n), nontrivial=n >= 3, kind='real-digest')
    if br:
        n_, hs, g, w = br
        report(f'Merkle root of {n_} hashes differs from the padded perfect tree',
               {'hashes': [x.hex() for x in hs], 'got': g, 'want': w,
                'repro': 'from pytezos.crypto.hash import _reduce_operation_hashes as r; r([bytes.fromhex(x) for x in hashes]).hex()'})

    # ---- 5. glue: corpus, chain vectors, generated
    glue = []
    for doc in ctx_corpus(ctx):
        glue.append((doc['kind'], doc['lists'], doc['pred'], doc['round'], 'corpus'))
    for kind, lists, pred, rnd in vectors:
        glue.append((kind, lists, pred, rnd, 'vector'))
    glue += gen_glue(rng, ctx.n(16, 600))
    glue += gen_lol_shapes(rng, ctx.thorough)
    glue += gen_sequences(rng, ctx.n(3, 40))
    history = []  # earlier calls of this process (state kept between calls shows up only after them)
    for kind, lists, pred, rnd, tag in glue:
        got, calls, err = glue_impl(kind, lists, pred, rnd)
        want = glue_spec(kind, lists, pred, rnd)
        history.append([kind, lists, pred, rnd])
        flatn = sum(len(l) for l in lists)
        ctx.case(('glue', kind, json.dumps(lists), pred, rnd), nontrivial=flatn >= 3,
                 kind=f'glue{kind}:{"sequence" if tag == "seq" else "shape" if tag == "shape" else "malformed" if tag in ("checksum", "foreign", "round", "pred") else "valid"}',
                 sample={'stream': 'glue', 'function': kind, 'lists': [len(l) for l in lists], 'round': rnd, 'result': got} if flatn == 5 else None)
        fname = ['operation_list_hash', 'operation_list_list_hash', 'block_payload_hash', '_reduce_operation_hashes'][kind]
        if want is not None and got != want:
            report(f'{fname} differs from the Tezos Merkle construction',
                   {'function': fname, 'lists': lists, 'predecessor': pred, 'round': rnd, 'got': got, 'want': want, 'error': err,
                    'history': [h for h in history[:-1] if h[2] == pred or h[1] == lists][-12:],
                    'repro': f'import pytezos.crypto.hash as H; after the calls in "history" (function index, lists, predecessor, round), '
                             f'H.{fname}(...) with the arguments of this file; or ./check C31 --replay <this file>'})
        tables = oracle_tables(kind, lists, pred, rnd, calls)
        out = 'Reject' if got is None else f'(Ok {cbp(bytes.fromhex(got) if kind == 3 else str(got).encode())})'
        allcases.append((12 * sum(len(t) for t in tables) + 30,
                         (f'(CGlue {coq_glue_case(kind, lists, pred, rnd, tables)} {out})', 'glue', (kind, lists, pred, rnd, got, want, err))))

    # ---- 6. (A): the model evaluates every collected case inside coqc
    shard = ctx.n(56, 120)
    ordered = balanced(allcases, shard)
    bad = ctx.coq_mismatches('cases', IMPORTS, 'ccheck', 'Bool.eqb', 'ccase', 'bool', [(lit, 'true') for lit, _, _ in ordered], shard=shard)
    ctx.extra['coq_cases'] = {k: sum(1 for _, s_, _ in ordered if s_ == k) for k in ('free', 'num', 'glue')}
    if bad and reported == 0:
        streams = sorted({ordered[i][1] for i in bad})
        lit, stream, meta = ordered[bad[0]]
        n = meta if stream == 'free' else meta[0] if stream == 'num' else None
        br = search_real(ctx, ([n] if n is not None else []) + list(range(0, 70)))
        if br:
            n_, hs, g, w = br
            report(f'Merkle root of {n_} hashes differs from the padded perfect tree',
                   {'hashes': [x.hex() for x in hs], 'got': g, 'want': w,
                    'repro': 'from pytezos.crypto.hash import _reduce_operation_hashes as r; r([bytes.fromhex(x) for x in hashes]).hex()'})
        else:
            rep = {'correspondence': {'free': 'C31/_reduce_operation_hashes(free terms) vs Codec.Merkle.free_reduce',
                                      'num': 'C31/_reduce_operation_hashes(numeric algebra) vs Codec.Merkle.num_case',
                                      'glue': 'C31/operation_list_hash, operation_list_list_hash, block_payload_hash vs Codec.Merkle.run_glue'}[stream],
                   'streams_disagreeing': streams, 'disagreements': len(bad)}
            if stream == 'free':
                rep['length'] = meta
            elif stream == 'num':
                rep.update({'length': meta[0], 'seed': meta[1], 'e': meta[2], 'got': meta[3]})
            else:
                rep.update({'function': meta[0], 'lists': meta[1], 'predecessor': meta[2], 'round': meta[3], 'got': meta[4], 'oracle': meta[5], 'error': meta[6]})
            report('implementation no longer corresponds to the model the theorems are about', rep, found=False)


def ctx_corpus(ctx):
    import glob
    import os
    docs = []
    for p in sorted(glob.glob(os.path.join(lib.VERIF, 'corpus', PROP, '*.json'))):
        docs.append(json.load(open(p)))
    ctx.corpus_cases += len(docs)
    return docs


def replay(ctx, doc) -> bool:
    """re-evaluate the property's oracle (B) on the input stored in a replay file; True = it still fails"""
    import pytezos.crypto.hash as H
    if 'hashes' in doc:
        hs = [bytes.fromhex(x) for x in doc['hashes']]
        ok, got = lib.call(H._reduce_operation_hashes, list(hs))
        want = spec_merkle_bytes(hs)
        print(f'replay: got={got.hex() if ok and isinstance(got, bytes) else got!r} want={want.hex()}')
        return not ok or got != want
    if 'function' in doc and 'lists' in doc:
        names = ['operation_list_hash', 'operation_list_list_hash', 'block_payload_hash', '_reduce_operation_hashes']
        kind = names.index(doc['function']) if doc['function'] in names else int(doc['function'])
        for hk, hl, hp, hr in doc.get('history', []):
            glue_impl(hk, hl, hp, hr)
        got, _, err = glue_impl(kind, doc['lists'], doc.get('predecessor', ''), doc.get('round', 0))
        want = glue_spec(kind, doc['lists'], doc.get('predecessor', ''), doc.get('round', 0))
        print(f'replay: got={got!r} want={want!r} error={err}')
        return want is not None and got != want
    if 'args' in doc:
        args = [bytes.fromhex(x) for x in doc['args']]
        ok, got = lib.call(H._hash_tuple, *args)
        return not ok or got != b2(b''.join(args))
    print('replay: no failing input in this file (correspondence / proof break)')
    return False
