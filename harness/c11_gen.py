"""Shared generators / renderers of the C11 and C04 checks (typed Michelson values).

Abstract values (independent of pytezos' classes) are tuples:
  ('unit',) ('bool', b) ('int', z) ('ts', z) ('fr', z) ('str', bytes) ('bytes', b)
  ('addr', kind, hash20, ep|None) ('key', kind, payload) ('kh', kind, hash20) ('sig', raw) ('cid', b4)
  ('none',) ('some', v) ('left', v) ('right', v) ('pair', a, b) ('list', [v]) ('map', [(k, v)])
  ('lambda', code_json)
Types are Micheline type expressions (JSON as pytezos takes them, n-ary pairs and annotations allowed).
Base58Check text is produced/read here with the `base58` package + hashlib and a pinned prefix table,
not with pytezos' own encoding module.
"""
from __future__ import annotations

import hashlib
import random
from typing import Any

import base58

import lib
from lib import chex, clist, copt


def cZ(v: int) -> str:
    """hexadecimal literals: linear-time conversion also for integers of thousands of bits"""
    if abs(v) < 10 ** 15:
        return f'({v})%Z'
    return f'(-{hex(-v)})%Z' if v < 0 else f'({hex(v)})%Z'


# ----------------------------------------------------------------------------- base58 (pinned rows)
BIN_PREFIX = {
    'tz1': '06a19f', 'tz2': '06a1a1', 'tz3': '06a1a4', 'tz4': '06a1a6', 'KT1': '025a79', 'txr1': '0180781f',
    'sr1': '067c75', 'edpk': '0d0f25d9', 'sppk': '03fee256', 'p2pk': '03b28b7f', 'BLpk': '069587cc',
    'edsig': '09f5cd8612', 'spsig': '0d7365133f', 'p2sig': '36f02c34', 'sig': '04822b', 'BLsig': '28ab40cf',
    'Net': '575200',
}
PAYLOAD_LEN = {'tz1': 20, 'tz2': 20, 'tz3': 20, 'tz4': 20, 'KT1': 20, 'txr1': 20, 'sr1': 20, 'edpk': 32, 'sppk': 33,
               'p2pk': 33, 'BLpk': 48, 'edsig': 64, 'spsig': 64, 'p2sig': 64, 'sig': 64, 'BLsig': 96, 'Net': 4}
ADDR_KINDS = {'tz1': 'Tz1', 'tz2': 'Tz2', 'tz3': 'Tz3', 'tz4': 'Tz4', 'KT1': 'KT1', 'txr1': 'Txr1', 'sr1': 'Sr1'}
KEY_KINDS = {'edpk': 'Edpk', 'sppk': 'Sppk', 'p2pk': 'P2pk', 'BLpk': 'BLpk'}
SIG_NOTATIONS = ['sig', 'edsig', 'spsig', 'p2sig']


def fp(x: bytes) -> int:
    """the fingerprint of Michelson/Values.v [fp]"""
    a = len(x)
    for b in x:
        a = (a * 257 + b) % 4294967291
    return a


class ShaTable:
    """SHA-256 as data for the Coq side ([sha_fp]): fingerprint of x -> first 4 bytes of sha256(sha256(x))."""

    def __init__(self):
        self.tbl: dict[int, bytes] = {}

    def need(self, x: bytes) -> None:
        self.tbl[fp(bytes(x))] = hashlib.sha256(hashlib.sha256(x).digest()).digest()[:4]

    def need_text(self, s: str) -> None:
        """digests used when the model decodes the Base58Check string s"""
        try:
            r = base58.b58decode(s.encode('ascii', 'ignore') if isinstance(s, str) else s)
        except Exception:  # noqa: BLE001
            return
        self.need(r[:-4] if len(r) >= 4 else b'')

    def coq(self) -> str:
        return clist(f'({k}%N, {chex(v)})' for k, v in self.tbl.items())


def b58(prefix: str, payload: bytes, sha: ShaTable | None = None) -> str:
    x = bytes.fromhex(BIN_PREFIX[prefix]) + payload
    if sha is not None:
        sha.need(x)
    return base58.b58encode_check(x).decode()


def b58_parse(s: str, prefixes) -> tuple[str, bytes] | None:
    """(text prefix, payload) if s is a valid Base58Check string of one of the given kinds"""
    for p in prefixes:
        if s.startswith(p):
            try:
                r = base58.b58decode_check(s)
            except Exception:  # noqa: BLE001
                return None
            bp = bytes.fromhex(BIN_PREFIX[p])
            if r.startswith(bp) and len(r) == len(bp) + PAYLOAD_LEN[p]:
                return p, r[len(bp):]
    return None


# ----------------------------------------------------------------------------- types
COMPARABLE = ['int', 'nat', 'mutez', 'timestamp', 'string', 'bytes', 'bool', 'unit', 'address', 'key', 'key_hash',
              'signature', 'chain_id']
SCALARS = COMPARABLE + ['bls12_381_fr', 'bls12_381_g1', 'bls12_381_g2', 'chest', 'chest_key',
                        'tx_rollup_l2_address', 'contract']
TY_COQ = {'unit': 'TUnit', 'never': 'TNever', 'bool': 'TBool', 'int': 'TInt', 'nat': 'TNat', 'mutez': 'TMutez',
          'timestamp': 'TTimestamp', 'string': 'TString', 'bytes': 'TBytes', 'bls12_381_fr': 'TBlsFr',
          'bls12_381_g1': 'TBlsG1', 'bls12_381_g2': 'TBlsG2', 'chest': 'TChest', 'chest_key': 'TChestKey',
          'address': 'TAddress', 'tx_rollup_l2_address': 'TTxr', 'key': 'TKey', 'key_hash': 'TKeyHash',
          'signature': 'TSignature', 'chain_id': 'TChainId', 'operation': 'TOperation',
          'sapling_state': 'TSaplingState', 'sapling_transaction': 'TSaplingTx'}


def norm_type(t: dict) -> tuple:
    """Micheline type expression -> ('prim', args...) with binary pairs, annotations dropped"""
    p, args = t['prim'], t.get('args', [])
    if p == 'pair':
        a = [norm_type(x) for x in args]
        while len(a) > 2:
            a = a[:-2] + [('pair', a[-2], a[-1])]
        return ('pair', a[0], a[1])
    if p in ('sapling_state', 'sapling_transaction'):
        return (p,)
    return (p, *[norm_type(x) for x in args])


def coq_ty(n: tuple) -> str:
    p = n[0]
    if p in TY_COQ:
        return TY_COQ[p]
    name = {'option': 'TOption', 'or': 'TOr', 'pair': 'TPair', 'list': 'TList', 'set': 'TSet', 'map': 'TMap',
            'lambda': 'TLambda', 'contract': 'TContract', 'big_map': 'TBigMap', 'ticket': 'TTicket'}[p]
    return '(' + name + ' ' + ' '.join(coq_ty(x) for x in n[1:]) + ')'


def type_depth(n: tuple) -> int:
    return 1 + max([type_depth(x) for x in n[1:]], default=0)


def _annot(rng: random.Random, t: dict, field_ok=True) -> dict:
    r = rng.random()
    if r < 0.75:
        return t
    t = dict(t)
    names = ['a', 'b', 'c', 'owner', 'x1']
    if r < 0.9 and field_ok:
        t['annots'] = ['%' + rng.choice(names)]
    elif r < 0.95:
        t['annots'] = [':' + rng.choice(names)]
    elif field_ok:
        t['annots'] = [':' + rng.choice(names), '%' + rng.choice(names)]
    return t


LAMBDA_SIGNATURE_PARTS = [
    {'prim': 'operation'}, {'prim': 'list', 'args': [{'prim': 'operation'}]},
    {'prim': 'big_map', 'args': [{'prim': 'nat'}, {'prim': 'string'}]}, {'prim': 'ticket', 'args': [{'prim': 'nat'}]},
    {'prim': 'sapling_state', 'args': [{'int': '8'}]},
    {'prim': 'pair', 'args': [{'prim': 'nat'}, {'prim': 'big_map', 'args': [{'prim': 'nat'}, {'prim': 'nat'}]}]},
]


def gen_type(rng: random.Random, depth: int, comparable=False, annots=True, field_ok=True, lambdas=True, tickets=False) -> dict:
    def scalar():
        name = rng.choice(COMPARABLE if comparable else SCALARS)
        if name == 'contract':
            return {'prim': 'contract', 'args': [gen_type(rng, min(depth, 1), annots=False, field_ok=False, lambdas=False)]}
        return {'prim': name}

    if depth <= 0 or rng.random() < 0.25:
        t = scalar()
    else:
        kinds = ['pair', 'pair', 'pair', 'option', 'or'] + ([] if comparable else ['list', 'set', 'map', 'list', 'map'] + (['lambda'] if lambdas else [])
                                                             + (['ticket', 'big_map'] if tickets else []))
        k = rng.choice(kinds)
        sub = lambda **kw: gen_type(rng, depth - 1, comparable=comparable, annots=annots, lambdas=lambdas, tickets=tickets, **kw)  # noqa: E731
        if k == 'pair':
            n = rng.choice([2, 2, 3, 3, 4, 4, 5, 6, 7, 8])
            items = [sub() for _ in range(n)]
            style = rng.random()
            if style < 0.5:  # n-ary notation
                t = {'prim': 'pair', 'args': items}
            else:  # nested right comb, inner pairs possibly annotated
                t = items[-1]
                for i in range(n - 2, -1, -1):
                    t = {'prim': 'pair', 'args': [items[i], t]}
                    if i > 0 and annots:
                        t = _annot(rng, t)
        elif k == 'big_map':
            t = {'prim': 'big_map', 'args': [gen_type(rng, min(depth - 1, 2), comparable=True, annots=annots, field_ok=False),
                                             gen_type(rng, depth - 1, annots=annots, field_ok=False, lambdas=lambdas)]}
        elif k == 'ticket':
            t = {'prim': 'ticket', 'args': [gen_type(rng, min(depth - 1, 2), comparable=True, annots=False, field_ok=False)]}
        elif k == 'option':
            t = {'prim': 'option', 'args': [sub(field_ok=False) if rng.random() > 0.05 else {'prim': 'never'}]}
        elif k == 'or':
            t = {'prim': 'or', 'args': [sub(), sub()]}
            if rng.random() < 0.12:  # never has no values: the other branch is the only inhabited one
                t['args'][rng.randrange(2)] = {'prim': 'never'}
        elif k == 'list':
            t = {'prim': 'list', 'args': [sub(field_ok=False)]}
        elif k == 'set':
            t = {'prim': 'set', 'args': [gen_type(rng, min(depth - 1, 2), comparable=True, annots=annots, field_ok=False)]}
        elif k == 'map':
            t = {'prim': 'map', 'args': [gen_type(rng, min(depth - 1, 2), comparable=True, annots=annots, field_ok=False),
                                         sub(field_ok=False)]}
        else:
            t = {'prim': 'lambda', 'args': [gen_type(rng, 1, annots=False, field_ok=False, lambdas=False),
                                            gen_type(rng, 1, annots=False, field_ok=False, lambdas=False)]}
            if rng.random() < 0.3:  # a lambda is storable/packable whatever its signature mentions
                t['args'][rng.randrange(2)] = rng.choice(LAMBDA_SIGNATURE_PARTS)
    if annots:
        t = _annot(rng, t, field_ok=field_ok)
    return t


# ----------------------------------------------------------------------------- values
FR_MOD = 0x73EDA753299D7D483339D80809A1D80553BDA402FFFE5BFEFFFFFFFF00000001
DAY = 86400
TS_BOUNDARY = [0, 1, -1, -62135596800, -62135596801, 253402300799, 253402300800, 253402300801, -30610224000,
               -30610224001, -30610223999, 10 ** 18, -10 ** 18, 951782400, 951868799, 951868800,  # 2000-02-29
               -2203891200, -2203977600, 4107542400, 4102444800, 1709164800, 68169600 - 1,
               (146097 - 719468) * DAY, (146097 - 719468) * DAY - 1, (2 * 146097 - 719468) * DAY, -719468 * DAY,
               -719468 * DAY - 1, 11017 * DAY - 1, 11017 * DAY, 2 ** 31 - 1, 2 ** 31, 2 ** 63, -2 ** 63 - 1]


def gen_ts(rng: random.Random) -> int:
    r = rng.random()
    if r < 0.3:
        return rng.choice(TS_BOUNDARY)
    if r < 0.45:  # around an era boundary / a year boundary
        e = rng.randrange(-6, 30)
        return (e * 146097 - 719468) * DAY + rng.choice([-1, 0, 1, DAY - 1, DAY, 59 * DAY, 60 * DAY, 306 * DAY, 305 * DAY, 365 * DAY])
    if r < 0.85:
        return rng.randrange(-30610224000 - 10 ** 9, 253402300799 + 10 ** 9)
    return lib.boundary_ints(rng)


def gen_hash20(rng: random.Random) -> bytes:
    r = rng.random()
    if r < 0.25:
        return bytes([rng.choice([0, 1, 2, 3])]) + rng.randbytes(19)
    if r < 0.4:
        return rng.randbytes(19) + b'\x00'
    if r < 0.5:
        return bytes([rng.choice([0, 1, 2, 3])]) + rng.randbytes(18) + b'\x00'
    if r < 0.55:
        return rng.choice([bytes(20), b'\xff' * 20, b'\x00' * 19 + b'\x01'])
    return rng.randbytes(20)


P2_SHARED_X = bytes(range(1, 33))
EPS = [None, None, None, 'a', 'do', 'x%y', 'Default', 'default_', 'transfer', '_' * 31, 'a%', 'deposit%default', '%default', 'éé']


def gen_scalar(rng: random.Random, prim: str) -> tuple:
    if prim == 'unit':
        return ('unit',)
    if prim == 'bool':
        return ('bool', rng.random() < 0.5)
    if prim == 'int':
        return ('int', lib.boundary_ints(rng))
    if prim == 'nat':
        return ('int', lib.boundary_ints(rng, signed=False))
    if prim == 'mutez':
        return ('int', rng.choice([0, 1, 2 ** 63 - 1, 2 ** 62, rng.getrandbits(63), rng.getrandbits(20)]))
    if prim == 'timestamp':
        return ('ts', gen_ts(rng))
    if prim == 'bls12_381_fr':
        return ('fr', rng.choice([0, 1, FR_MOD - 1, 255, 256, 2 ** 248, rng.randrange(FR_MOD), rng.randrange(FR_MOD)]))
    if prim == 'string':
        n = rng.choice([0, 1, 2, 5, 20, 40])
        return ('str', bytes(rng.choice(b'abcxyzABC019 _-%:"\\\n\t~') for _ in range(n)))
    if prim in ('bytes', 'chest', 'chest_key'):
        return ('bytes', rng.randbytes(rng.choice([0, 1, 2, 4, 21, 22, 32, 64])))
    if prim == 'bls12_381_g1':
        return ('bytes', rng.randbytes(96))
    if prim == 'bls12_381_g2':
        return ('bytes', rng.randbytes(192))
    if prim in ('address', 'contract'):
        ep = rng.choice(EPS)
        return ('addr', rng.choice(['tz1', 'tz2', 'tz3', 'tz4', 'KT1', 'KT1', 'sr1']), gen_hash20(rng), None if ep is None else ep.encode())
    if prim == 'tx_rollup_l2_address':
        ep = rng.choice(EPS)
        return ('addr', 'txr1', gen_hash20(rng), None if ep is None else ep.encode())
    if prim == 'key':
        k = rng.choice(['edpk', 'sppk', 'p2pk', 'BLpk'])
        p = rng.randbytes(PAYLOAD_LEN[k])
        if rng.random() < 0.3:
            p = bytes([rng.choice([0, 2, 3])]) + (P2_SHARED_X if k == 'p2pk' and rng.random() < 0.7 else p[1:])
        return ('key', k, p)
    if prim == 'key_hash':
        return ('kh', rng.choice(['tz1', 'tz2', 'tz3', 'tz4']), gen_hash20(rng))
    if prim == 'signature':
        n = rng.choice([64, 64, 64, 96])
        raw = rng.randbytes(n)
        if rng.random() < 0.2:
            raw = bytes(n) if rng.random() < 0.5 else b'\x00' + raw[1:]
        return ('sig', raw)
    if prim == 'chain_id':
        return ('cid', rng.choice([rng.randbytes(4), bytes(4), b'\xff' * 4, b'\x00' + rng.randbytes(3)]))
    raise lib.InternalError(f'no generator for {prim}')


# -- the order of Michelson comparable values (specification side, used to build sets and maps)
def sort_key(v: tuple):
    k = v[0]
    if k in ('int', 'ts'):
        return (v[1],)
    if k in ('str', 'bytes', 'sig', 'cid'):
        return (v[1],)
    if k == 'bool':
        return (int(v[1]),)
    if k == 'unit':
        return (0,)
    if k == 'addr':
        kind, h, ep = v[1], v[2], v[3]
        f = {'tz1': b'\x00\x00', 'tz2': b'\x00\x01', 'tz3': b'\x00\x02', 'tz4': b'\x00\x03'}.get(kind)
        forged = f + h if f else {'KT1': b'\x01', 'txr1': b'\x02', 'sr1': b'\x03'}[kind] + h + b'\x00'
        return (forged, ep or b'default')
    if k == 'key':
        idx = ['edpk', 'sppk', 'p2pk', 'BLpk'].index(v[1])
        return (idx, v[2][1:], v[2][:1]) if v[1] == 'p2pk' else (idx, v[2])
    if k == 'kh':
        return (['tz1', 'tz2', 'tz3', 'tz4'].index(v[1]), v[2])
    if k == 'none':
        return (0,)
    if k == 'some':
        return (1, sort_key(v[1]))
    if k == 'left':
        return (0, sort_key(v[1]))
    if k == 'right':
        return (1, sort_key(v[1]))
    if k == 'pair':
        return (sort_key(v[1]), sort_key(v[2]))
    raise lib.InternalError(f'not comparable: {k}')


LAMBDAS_PLAIN = [
    [],
    [{'prim': 'DROP'}, {'prim': 'UNIT'}],
    [{'prim': 'DUP'}, {'prim': 'CAR', 'annots': ['@x']}, {'prim': 'DIP', 'args': [[{'prim': 'CDR'}]]}, {'prim': 'PAIR'}],
    [{'prim': 'PUSH', 'args': [{'prim': 'nat'}, {'int': '300'}]}, {'prim': 'ADD'}],
    [{'prim': 'IF_LEFT', 'args': [[{'prim': 'DROP'}, {'prim': 'PUSH', 'args': [{'prim': 'string'}, {'string': 'left'}]}],
                                  [{'prim': 'FAILWITH'}]]}],
    [{'prim': 'DIP', 'args': [{'int': '2'}, [{'prim': 'SWAP'}]]}, {'prim': 'DIG', 'args': [{'int': '3'}]}],
    [{'prim': 'PUSH', 'args': [{'prim': 'pair', 'args': [{'prim': 'int'}, {'prim': 'pair', 'args': [{'prim': 'int'}, {'prim': 'pair', 'args': [{'prim': 'int'}, {'prim': 'int'}]}]}]},
                               {'prim': 'Pair', 'args': [{'int': '1'}, {'int': '2'}, {'int': '3'}, {'int': '4'}]}]}],
    [{'prim': 'LAMBDA', 'args': [{'prim': 'unit'}, {'prim': 'unit'}, [{'prim': 'DUP'}, {'prim': 'DROP'}]]}, {'prim': 'DROP'}],
    [{'prim': 'PUSH', 'args': [{'prim': 'bytes'}, {'bytes': '00ff'}]}, {'prim': 'PUSH', 'args': [{'prim': 'int'}, {'int': '-64'}]}],
    [[{'prim': 'DROP'}], {'prim': 'NIL', 'args': [{'prim': 'operation'}]}],
]


def lambdas_with_domain_push(rng: random.Random, sha: ShaTable) -> list:
    """bodies that PUSH a literal whose type has a distinct optimized form (known finding #31 for C04)"""
    return [
        [{'prim': 'PUSH', 'args': [{'prim': 'address'}, {'string': b58('tz1', gen_hash20(rng), sha)}]}],
        [{'prim': 'DROP'}, {'prim': 'PUSH', 'args': [{'prim': 'key_hash'}, {'string': b58('tz2', gen_hash20(rng), sha)}]}],
        [{'prim': 'PUSH', 'args': [{'prim': 'timestamp'}, {'string': '2021-03-04T05:06:07Z'}]}],
        [{'prim': 'PUSH', 'args': [{'prim': 'chain_id'}, {'string': b58('Net', rng.randbytes(4), sha)}]}],
        [{'prim': 'PUSH', 'args': [{'prim': 'option', 'args': [{'prim': 'key'}]},
                                   {'prim': 'Some', 'args': [{'string': b58('edpk', rng.randbytes(32), sha)}]}]}],
        [{'prim': 'DIP', 'args': [[{'prim': 'PUSH', 'args': [{'prim': 'signature'}, {'string': b58('sig', rng.randbytes(64), sha)}]}]]}],
    ]


DOMAIN_PRIMS = {'address', 'contract', 'key', 'key_hash', 'signature', 'chain_id', 'timestamp', 'tx_rollup_l2_address',
                'bls12_381_fr'}


def type_mentions_domain(t: dict) -> bool:
    return t.get('prim') in DOMAIN_PRIMS or any(type_mentions_domain(a) for a in t.get('args', []) if isinstance(a, dict))


def code_pushes_domain(code: Any) -> bool:
    """the class of known finding C04/lambda-push: the code contains PUSH of a type with a distinct optimized form"""
    if isinstance(code, list):
        return any(code_pushes_domain(x) for x in code)
    if isinstance(code, dict) and 'prim' in code:
        if code['prim'] == 'PUSH' and code.get('args') and isinstance(code['args'][0], dict) and type_mentions_domain(code['args'][0]):
            return True
        return any(code_pushes_domain(x) for x in code.get('args', []))
    return False


def value_has_lambda_push(v: tuple) -> bool:
    k = v[0]
    if k == 'lambda':
        return code_pushes_domain(v[1])
    if k in ('some', 'left', 'right'):
        return value_has_lambda_push(v[1])
    if k == 'pair':
        return value_has_lambda_push(v[1]) or value_has_lambda_push(v[2])
    if k == 'list':
        return any(value_has_lambda_push(x) for x in v[1])
    if k == 'map':
        return any(value_has_lambda_push(a) or value_has_lambda_push(b) for a, b in v[1])
    return False


def gen_value(rng: random.Random, n: tuple, sha: ShaTable, size: int = 4, domain_lambdas: bool = True) -> tuple:
    p = n[0]
    if p == 'option':
        return ('none',) if rng.random() < 0.3 or n[1][0] == 'never' else ('some', gen_value(rng, n[1], sha, size, domain_lambdas))
    if p == 'or':
        left = rng.random() < 0.5
        if n[1][0] == 'never' or n[2][0] == 'never':
            left = n[2][0] == 'never'
        return ('left', gen_value(rng, n[1], sha, size, domain_lambdas)) if left else ('right', gen_value(rng, n[2], sha, size, domain_lambdas))
    if p == 'pair':
        return ('pair', gen_value(rng, n[1], sha, size, domain_lambdas), gen_value(rng, n[2], sha, size, domain_lambdas))
    if p == 'list':
        return ('list', [gen_value(rng, n[1], sha, max(size - 1, 1), domain_lambdas) for _ in range(rng.randrange(0, size + 1))])
    if p == 'set':
        items = {}
        for _ in range(rng.randrange(0, size + 2)):
            v = gen_value(rng, n[1], sha, 2, domain_lambdas)
            items[sort_key(v)] = v
        return ('list', [items[k] for k in sorted(items)])
    if p == 'map':
        items = {}
        for _ in range(rng.randrange(0, size + 2)):
            v = gen_value(rng, n[1], sha, 2, domain_lambdas)
            items[sort_key(v)] = (v, gen_value(rng, n[2], sha, max(size - 1, 1), domain_lambdas))
        return ('map', [items[k] for k in sorted(items)])
    if p == 'big_map':
        if rng.random() < 0.4:
            return ('bmid', rng.choice([0, 1, 17, 2 ** 31, rng.getrandbits(20), -1]))
        return gen_value(rng, ('map', n[1], n[2]), sha, size, domain_lambdas)
    if p == 'ticket':
        ep = rng.choice([None, None, None, 'a', 'mint'])
        return ('ticket', rng.choice(['KT1', 'KT1', 'tz1', 'sr1']), gen_hash20(rng), None if ep is None else ep.encode(),
                gen_value(rng, n[1], sha, 2, domain_lambdas), rng.choice([0, 1, 2, 63, 64, 2 ** 64, rng.getrandbits(40) + 1]))
    if p == 'lambda':
        pool = LAMBDAS_PLAIN + (lambdas_with_domain_push(rng, sha) if domain_lambdas and rng.random() < 0.4 else [])
        return ('lambda', rng.choice(pool))
    if p == 'contract':
        return gen_scalar(rng, 'contract')
    return gen_scalar(rng, p)


def value_size(v: tuple) -> int:
    k = v[0]
    if k in ('some', 'left', 'right'):
        return 1 + value_size(v[1])
    if k == 'pair':
        return 1 + value_size(v[1]) + value_size(v[2])
    if k == 'list':
        return 1 + sum(value_size(x) for x in v[1])
    if k == 'map':
        return 1 + sum(value_size(a) + value_size(b) for a, b in v[1])
    if k == 'ticket':
        return 3 + value_size(v[4])
    return 1


def comb_len(v: tuple) -> int:
    n = 1
    while v[0] == 'pair':
        n += 1
        v = v[2]
    return n if n > 1 else 0


def max_comb(v: tuple) -> int:
    k = v[0]
    best = comb_len(v)
    if k in ('some', 'left', 'right'):
        return max(best, max_comb(v[1]))
    if k == 'pair':
        return max(best, max_comb(v[1]), max_comb(v[2]))
    if k == 'list':
        return max([best] + [max_comb(x) for x in v[1]])
    if k == 'map':
        return max([best] + [max(max_comb(a), max_comb(b)) for a, b in v[1]])
    return best


# ----------------------------------------------------------------------------- rendering
def addr_text(v: tuple, sha: ShaTable | None) -> str:
    s = b58(v[1], v[2], sha)
    if v[3] is not None:
        s += '%' + v[3].decode('utf-8')
    return s


def readable_json(v: tuple, sha: ShaTable | None, rng: random.Random | None = None) -> Any:
    """Independent readable rendering (nested binary Pairs) used to build the pytezos objects."""
    k = v[0]
    if k == 'unit':
        return {'prim': 'Unit'}
    if k == 'bool':
        return {'prim': 'True' if v[1] else 'False'}
    if k in ('int', 'ts', 'fr', 'bmid'):
        return {'int': str(v[1])}
    if k == 'str':
        return {'string': v[1].decode('ascii')}
    if k == 'bytes':
        return {'bytes': v[1].hex()}
    if k == 'addr':
        return {'string': addr_text(v, sha)}
    if k == 'key':
        return {'string': b58(v[1], v[2], sha)}
    if k == 'kh':
        return {'string': b58(v[1], v[2], sha)}
    if k == 'sig':
        raw = v[1]
        notation = 'BLsig' if len(raw) == 96 else (rng.choice(SIG_NOTATIONS) if rng else 'sig')
        b58('BLsig' if len(raw) == 96 else 'sig', raw, sha)
        return {'string': b58(notation, raw, sha)}
    if k == 'cid':
        return {'string': b58('Net', v[1], sha)}
    if k == 'none':
        return {'prim': 'None'}
    if k == 'some':
        return {'prim': 'Some', 'args': [readable_json(v[1], sha, rng)]}
    if k == 'left':
        return {'prim': 'Left', 'args': [readable_json(v[1], sha, rng)]}
    if k == 'right':
        return {'prim': 'Right', 'args': [readable_json(v[1], sha, rng)]}
    if k == 'pair':
        return {'prim': 'Pair', 'args': [readable_json(v[1], sha, rng), readable_json(v[2], sha, rng)]}
    if k == 'list':
        return [readable_json(x, sha, rng) for x in v[1]]
    if k == 'map':
        return [{'prim': 'Elt', 'args': [readable_json(a, sha, rng), readable_json(b, sha, rng)]} for a, b in v[1]]
    if k == 'lambda':
        return v[1]
    if k == 'ticket':
        return {'prim': 'Pair', 'args': [{'string': addr_text(('addr', v[1], v[2], v[3]), sha)},
                                         {'prim': 'Pair', 'args': [readable_json(v[4], sha, rng), {'int': str(v[5])}]}]}
    raise lib.InternalError(k)


def coq_addr(kind: str, h: bytes) -> str:
    return f'({ADDR_KINDS[kind]}, {chex(h)})'


def coq_val(v: tuple) -> str:
    k = v[0]
    if k == 'unit':
        return 'VUnit'
    if k == 'bool':
        return f'(VBool {lib.cbool(v[1])})'
    if k == 'int':
        return f'(VInt {cZ(v[1])})'
    if k == 'ts':
        return f'(VTimestamp {cZ(v[1])})'
    if k == 'fr':
        return f'(VBlsFr {cZ(v[1])})'
    if k == 'bmid':
        return f'(VBigMapId {cZ(v[1])})'
    if k == 'str':
        return f'(VString {chex(v[1])})'
    if k == 'bytes':
        return f'(VBytes {chex(v[1])})'
    if k == 'addr':
        return f'(VAddr {coq_addr(v[1], v[2])} {copt(None if v[3] is None else chex(v[3]))})'
    if k == 'key':
        return f'(VKey ({KEY_KINDS[v[1]]}, {chex(v[2])}))'
    if k == 'kh':
        return f'(VKeyHash {coq_addr(v[1], v[2])})'
    if k == 'sig':
        return f'(VSig {chex(v[1])})'
    if k == 'cid':
        return f'(VChainId {chex(v[1])})'
    if k == 'none':
        return 'VNone'
    if k in ('some', 'left', 'right'):
        return f'({"V" + k.capitalize()} {coq_val(v[1])})'
    if k == 'pair':
        return f'(VPair {coq_val(v[1])} {coq_val(v[2])})'
    if k == 'list':
        return f'(VList {clist(coq_val(x) for x in v[1])})'
    if k == 'map':
        return f'(VMap {clist("(" + coq_val(a) + ", " + coq_val(b) + ")" for a, b in v[1])})'
    if k == 'lambda':
        return f'(VLambda {cnode(v[1])})'
    if k == 'ticket':
        return f'(VTicket {coq_addr(v[1], v[2])} {copt(None if v[3] is None else chex(v[3]))} {coq_val(v[4])} {cZ(v[5])})'
    raise lib.InternalError(k)


MODES = {'readable': 'Readable', 'optimized': 'Optimized', 'legacy_optimized': 'LegacyOptimized'}


# ----------------------------------------------------------------------------- pytezos objects -> abstract values
def ast_of_obj(o: Any) -> tuple:
    """Read a pytezos value object back into an abstract value (Base58Check text decoded here)."""
    from pytezos.michelson import types as T
    from pytezos.michelson.types.bls import BLS12_381_FrType

    if isinstance(o, T.TicketType):
        addr, sep, ep = o.ticketer.partition('%')
        r = b58_parse(addr, ADDR_KINDS)
        if r is None:
            return ('opaque', 'ticket', o.ticketer)
        return ('ticket', r[0], r[1], ep.encode('utf-8') if sep else None, ast_of_obj(o.item), int(o.amount))
    if isinstance(o, T.PairType):
        return ('pair', ast_of_obj(o.items[0]), ast_of_obj(o.items[1]))
    if isinstance(o, T.OptionType):
        return ('none',) if o.item is None else ('some', ast_of_obj(o.item))
    if isinstance(o, T.OrType):
        return ('left', ast_of_obj(o.items[0])) if o.is_left() else ('right', ast_of_obj(o.items[1]))
    if isinstance(o, (T.ListType, T.SetType)):
        return ('list', [ast_of_obj(x) for x in o.items])
    if isinstance(o, T.BigMapType) and o.ptr is not None and not o.items:
        return ('bmid', int(o.ptr))
    if isinstance(o, T.MapType):
        return ('map', [(ast_of_obj(a), ast_of_obj(b)) for a, b in o.items])
    if isinstance(o, T.LambdaType):
        return ('lambda', o.value.as_micheline_expr())
    if isinstance(o, T.UnitType):
        return ('unit',)
    if isinstance(o, T.BoolType):
        return ('bool', bool(o.value))
    if isinstance(o, T.TimestampType):
        return ('ts', int(o.value))
    if isinstance(o, BLS12_381_FrType):
        return ('fr', int(o.value))
    if isinstance(o, T.IntType):
        return ('int', int(o.value))
    if isinstance(o, (T.AddressType, T.TXRAddress)):
        s = o.value
        addr, sep, ep = s.partition('%')
        r = b58_parse(addr, ADDR_KINDS)
        if r is None:
            return ('opaque', 'address', s)
        return ('addr', r[0], r[1], ep.encode('utf-8') if sep else None)
    if isinstance(o, T.KeyType):
        r = b58_parse(o.value, KEY_KINDS)
        return ('key', r[0], r[1]) if r else ('opaque', 'key', o.value)
    if isinstance(o, T.KeyHashType):
        r = b58_parse(o.value, ['tz1', 'tz2', 'tz3', 'tz4', 'KT1', 'sr1', 'txr1'])
        return ('kh', r[0], r[1]) if r else ('opaque', 'key_hash', o.value)
    if isinstance(o, T.SignatureType):
        r = b58_parse(o.value, ['edsig', 'spsig', 'p2sig', 'sig', 'BLsig'])
        return ('sig', r[1]) if r else ('opaque', 'signature', o.value)
    if isinstance(o, T.ChainIdType):
        r = b58_parse(o.value, ['Net'])
        return ('cid', r[1]) if r else ('opaque', 'chain_id', o.value)
    if isinstance(o, T.StringType):
        return ('str', o.value.encode('utf-8'))
    if isinstance(o, T.BytesType):
        return ('bytes', bytes(o.value))
    return ('opaque', type(o).__name__, repr(o))


def has_opaque(v: Any) -> bool:
    """the abstract value holds something the model has no term for (skipped, counted)"""
    if isinstance(v, tuple):
        if v and v[0] == 'opaque':
            return True
        if v and v[0] == 'lambda':
            return not encodable(v[1])
        return any(has_opaque(x) for x in v[1:])
    if isinstance(v, list):
        return any(has_opaque(x) for x in v)
    return False


def lam_positions(n: tuple, m: Any):
    """the sub-expressions of m that from_micheline_value hands to LambdaType (mirrors the traversal of of_mich)"""
    p = n[0]
    if p == 'lambda':
        if isinstance(m, list):
            yield m
        return
    if p == 'option':
        if isinstance(m, dict) and m.get('prim') == 'Some' and len(m.get('args', [])) == 1:
            yield from lam_positions(n[1], m['args'][0])
    elif p == 'or':
        if isinstance(m, dict) and len(m.get('args', [])) == 1:
            if m.get('prim') == 'Left':
                yield from lam_positions(n[1], m['args'][0])
            elif m.get('prim') == 'Right':
                yield from lam_positions(n[2], m['args'][0])
    elif p == 'pair':
        args = m if isinstance(m, list) else (m.get('args', []) if isinstance(m, dict) and m.get('prim') == 'Pair' else None)
        if args is not None and len(args) >= 2:
            yield from lam_positions(n[1], args[0])
            yield from lam_positions(n[2], args[1] if len(args) == 2 else args[1:])
    elif p == 'ticket':
        def pargs(x):
            return x if isinstance(x, list) else (x.get('args', []) if isinstance(x, dict) and x.get('prim') == 'Pair' else None)
        args = pargs(m)
        if args is not None and len(args) == 3:
            yield from lam_positions(n[1], args[1])
        elif args is not None and len(args) == 2:
            inner = pargs(args[1])
            if inner is not None and len(inner) == 2:
                yield from lam_positions(n[1], inner[0])
    elif p in ('list', 'set'):
        if isinstance(m, list):
            for x in m:
                yield from lam_positions(n[1], x)
    elif p in ('map', 'big_map'):
        if isinstance(m, list):
            for x in m:
                if isinstance(x, dict) and x.get('prim') == 'Elt' and len(x.get('args', [])) == 2:
                    yield from lam_positions(n[1], x['args'][0])
                    yield from lam_positions(n[2], x['args'][1])


def lam_table(n: tuple, m: Any) -> dict | None:
    """oracle table for lam_norm on the lambda positions of m: Micheline.match(x).as_micheline_expr();
    None when something cannot be rendered"""
    import copy
    from pytezos.michelson.micheline import Micheline
    tbl: dict = {}
    for x in lam_positions(n, m):
        if not encodable(x):
            return None
        key = cnode(x)
        if key in tbl:
            continue
        ok, r = lib.call(lambda: Micheline.match(copy.deepcopy(x)).as_micheline_expr())
        if not ok:
            tbl[key] = 'Reject'
        elif encodable(r):
            tbl[key] = f'(Ok {cnode(r)})'
        else:
            return None
    return tbl


def norm_sig_text(m: Any, sha: ShaTable | None = None) -> Any:
    """Rewrite every signature string of a Micheline value to the generic notation (sig / BLsig):
    the notation is spelling, SignatureType compares raw bytes."""
    if isinstance(m, list):
        return [norm_sig_text(x, sha) for x in m]
    if isinstance(m, dict):
        if 'string' in m and m['string'][:5] in ('edsig', 'spsig', 'p2sig'):
            r = b58_parse(m['string'], ['edsig', 'spsig', 'p2sig'])
            if r:
                return {'string': b58('sig', r[1], sha)}
        if 'args' in m:
            m = dict(m)
            m['args'] = [norm_sig_text(x, sha) for x in m['args']]
        return m
    return m


def collect_texts(m: Any, sha: ShaTable) -> None:
    """Make sure the table holds the digests needed to decode every string of a Micheline value."""
    if isinstance(m, list):
        for x in m:
            collect_texts(x, sha)
    elif isinstance(m, dict):
        if 'string' in m:
            s = m['string']
            sha.need_text(s.split('%')[0])
        for x in m.get('args', []) or []:
            collect_texts(x, sha)


def json_strings(m: Any):
    if isinstance(m, list):
        for x in m:
            yield from json_strings(x)
    elif isinstance(m, dict):
        if 'string' in m:
            yield m['string']
        for x in m.get('args', []) or []:
            yield from json_strings(x)


def cnode(m: Any) -> str:
    if isinstance(m, list):
        return '(NSeq ' + clist(cnode(x) for x in m) + ')'
    if not isinstance(m, dict):
        raise lib.InternalError(f'not micheline: {m!r}')
    if 'int' in m:
        return f'(NInt {cZ(int(m["int"]))})'
    if 'string' in m:
        return f'(NStr {chex(m["string"].encode("utf-8"))})'
    if 'bytes' in m:
        return f'(NByt {chex(bytes.fromhex(m["bytes"]))})'
    if 'prim' in m:
        args = clist(cnode(x) for x in m.get('args', []) or [])
        annots = clist(chex(a.encode('utf-8')) for a in m.get('annots', []) or [])
        return f'(NPrim {lib.cbyte(lib.prim_tag(m["prim"]))} {args} {annots})'
    raise lib.InternalError(f'not micheline: {m!r}')


def encodable(m: Any) -> bool:
    """can lib.cnode render it (registered primitive names only)"""
    try:
        cnode(m)
        return True
    except Exception:  # noqa: BLE001
        return False


COQ_IMPORTS = ('From PV Require Import Codec.Micheline Codec.MichelineBin Codec.Base58 Codec.Domain '
               'Michelson.Timestamp Michelson.Values Michelson.Pack.')


def coq_env(sha: ShaTable, lam_table: dict) -> str:
    """(sha table, lambda table) literal of one case"""
    return f'({sha.coq()}, ' + clist(f'({a}, {b})' for a, b in lam_table.items()) + ')'


ENV_TY = 'list (N * bytes) * list (node * result node)'


def codec_of(env: str = 'e') -> str:
    return f'(real_codec (sha_fp (fst {env})) table43)'
