"""C07 — signing and verification for every key kind.

(A) correspondence: Key.sign / Key.verify / CHECK_SIGNATURE / scrub_input / base58_encode / base58_decode of /repo run
    with every native primitive routed through recording proxies (c07_keys.patched); the recorded calls are handed to
    the Coq model (Client/KeyGlue.v, Client/KeyStore.v) as a finite oracle table and `run_case` is evaluated by
    vm_compute inside coqc; outcomes must coincide.
(B) the property itself on the unpatched implementation: sign succeeds in both forms, the signature verifies under the
    key and under its public half, CHECK_SIGNATURE pushes True, an independent implementation (`cryptography`) accepts
    it over the Blake2b-256 digest; single-bit / single-byte alterations of message, signature and key and a different
    key are rejected by Key.verify and never accepted by CHECK_SIGNATURE (False whenever verify raised ValueError).
"""
from __future__ import annotations

import lib
from lib import cbool, chex, clist, cnat
import c07_keys as ck
from c07_keys import IMPORTS, PRELUDE, cblob, cpyin, cpystr, ckey, ctable, o_bytes, o_str, run_recorded

PROP = 'C07'
EXCLUDED_ROWS = ()


# ------------------------------------------------------------------------------------------------
# table comparison
# ------------------------------------------------------------------------------------------------

def compare_tables(ctx) -> list[str]:
    import pytezos.crypto.encoding as E
    problems = []
    rows = [r for r in E.base58_encodings if r[0] not in EXCLUDED_ROWS]
    used_first = {b'e', b's', b'p', b'B', b't'}
    for r in E.base58_encodings:
        if r[0] in EXCLUDED_ROWS and r[0][:1] in used_first:
            problems.append(f'excluded row {r[0]!r} could shadow a key row')
    lit = clist(f'(mkrow_b {chex(r[0])} {cnat(r[1])} {chex(r[2])} {cnat(r[3])})' for r in rows)
    prelude = 'Definition mkrow_b (t : bytes) (el : nat) (b : bytes) (pl : nat) : row := {| r_txt := t; r_enclen := el; r_bin := b; r_paylen := pl |}.'
    bad = ctx.coq_mismatches('table', IMPORTS, 'fun l => list_eqb row_eqb table l', 'Bool.eqb', 'list row', 'bool',
                             [(lit, 'true')], prelude=prelude)
    ctx.table('encoding.base58_encodings (all rows, order included)')
    if bad:
        problems.append('base58_encodings differs from the model table (Client/KeyGlue.v `table`)')
    return problems


# ------------------------------------------------------------------------------------------------
# helpers
# ------------------------------------------------------------------------------------------------

class Cases:
    def __init__(self, ctx):
        self.ctx = ctx
        self.cases: list[tuple[str, str]] = []
        self.meta: list[dict] = []

    def add(self, calls, op: str, out: str, meta: dict):
        self.cases.append((f'({ctable(calls)}, {op})', out))
        self.meta.append(meta)


def grind_short(rng, curve: bytes, secret: bytes, which: str, tries: int = 6000):
    """A message whose ECDSA signature under `secret` has a leading zero byte in `which` ('r' or 's') and none in the other
    component, found by calling the native library directly with blake2b-256 as hash (both libraries use RFC 6979 nonces)."""
    import hashlib

    def b2(x=b''):
        return hashlib.blake2b(x, digest_size=32)

    if curve == b'p2':
        import fastecdsa.curve
        import fastecdsa.ecdsa
        d = int.from_bytes(secret, 'big')

        def rs(m):
            return fastecdsa.ecdsa.sign(m, d, curve=fastecdsa.curve.P256, hashfunc=b2)
    else:
        import coincurve
        from coincurve import ecdsa as cc_ecdsa
        pk = coincurve.PrivateKey(secret)

        def rs(m):
            c = cc_ecdsa.serialize_compact(cc_ecdsa.der_to_cdata(pk.sign(m, hasher=lambda x: b2(x).digest())))
            return int.from_bytes(c[:32], 'big'), int.from_bytes(c[32:], 'big')
    lim = 1 << 248
    base = rng.randbytes(4)
    for i in range(tries):
        m = base + i.to_bytes(3, 'big')
        r, s_ = rs(m)
        a, b = (r, s_) if which == 'r' else (s_, r)
        if a < lim <= b:
            return m
    return None


def flip_bit(b: bytes, i: int) -> bytes:
    x = bytearray(b)
    x[i // 8] ^= 1 << (i % 8)
    return bytes(x)


def change_byte(b: bytes, i: int, rng) -> bytes:
    x = bytearray(b)
    x[i] = (x[i] + rng.randrange(1, 256)) % 256
    return bytes(x)


def alter(rng, b: bytes) -> bytes:
    if not b:
        return b'\x00'
    if rng.random() < 0.6:
        return flip_bit(b, rng.randrange(8 * len(b)))
    return change_byte(b, rng.randrange(len(b)), rng)


def op_sign(pub, sec, tag, m, g) -> str:
    return f'(OpSign {ckey(pub, sec, tag)} {cpyin(m)} {cbool(g)})'


def op_verify(pub, sec, tag, sg, m) -> str:
    return f'(OpVerify {ckey(pub, sec, tag)} {cpyin(sg)} {cpyin(m)})'


def op_checksig(pk: str, sg: str, msg: bytes) -> str:
    return f'(OpCheckSig {cpystr(pk)} {cpystr(sg)} {cblob(msg)})'


def impl_sign(cs: Cases, pub, sec, tag, m, g, kind):
    from pytezos.crypto.key import Key
    ok, val, calls = run_recorded(lambda: Key(pub, sec, tag).sign(m, generic=g))
    cs.add(calls, op_sign(pub, sec, tag, m, g), o_str(ok, val),
           {'op': 'sign', 'curve': tag.decode('latin-1'), 'public_point': pub.hex(), 'secret_exponent': None if sec is None else sec.hex(),
            'message': m if isinstance(m, str) else m.hex(), 'message_is_str': isinstance(m, str), 'generic': g,
            'observed': val if ok else repr(val)})
    cs.ctx.case(('sign', tag, sec, m, g), nontrivial=ok, kind=f'sign:{kind}:{tag.decode("latin-1")}:{"ok" if ok else "reject"}',
                sample={'op': 'sign', 'curve': tag.decode('latin-1'), 'generic': g, 'message': repr(m)[:60], 'result': (val if ok else repr(val))[:40]})
    return ok, val


def impl_verify(cs: Cases, pub, sec, tag, sg, m, kind):
    from pytezos.crypto.key import Key
    ok, val, calls = run_recorded(lambda: Key(pub, sec, tag).verify(sg, m))
    v = ck.verdict(ok, val)
    cs.add(calls, op_verify(pub, sec, tag, sg, m), f'(OVer {v})',
           {'op': 'verify', 'curve': tag.decode('latin-1'), 'public_point': pub.hex(), 'signature': sg if isinstance(sg, str) else sg.hex(),
            'signature_is_str': isinstance(sg, str), 'message': m if isinstance(m, str) else m.hex(), 'message_is_str': isinstance(m, str),
            'observed': v, 'exception': None if ok else repr(val)})
    cs.ctx.case(('verify', tag, pub, sg, m), nontrivial=True, kind=f'verify:{kind}:{tag.decode("latin-1")}:{v}')
    return v


def impl_checksig(cs: Cases, pk: str, sg: str, msg: bytes, kind):
    ok, val, calls = run_recorded(lambda: ck.check_signature_impl(pk, sg, msg))
    out = f'(OBool {ck.cres(cbool(val) if ok else None)})'
    cs.add(calls, op_checksig(pk, sg, msg), out,
           {'op': 'CHECK_SIGNATURE', 'key': pk, 'signature': sg, 'bytes': msg.hex(), 'observed': val if ok else repr(val)})
    cs.ctx.case(('checksig', pk, sg, msg), nontrivial=True, kind=f'checksig:{kind}:{val if ok else "fails"}')
    return (val if ok else None)


# ------------------------------------------------------------------------------------------------
# (B) oracle on the unpatched implementation
# ------------------------------------------------------------------------------------------------

def oracle_sign_verify(ctx, rng, curve: bytes, secret: bytes, m, mbytes: bytes, generic: bool, n_alter: int, report, heavy=False):
    """Returns the signature (or None)."""
    from pytezos.crypto.encoding import base58_decode, base58_encode
    from pytezos.crypto.key import Key

    c = curve.decode()
    base = {'curve': c, 'secret_exponent': secret.hex(), 'message': m if isinstance(m, str) else m.hex(),
            'message_is_str': isinstance(m, str), 'generic': generic}
    mk = f"Key.from_secret_exponent(bytes.fromhex('{secret.hex()}'), b'{c}')"
    marg = repr(m)
    ok, k = lib.call(Key.from_secret_exponent, secret, curve)
    if not ok:
        report(f'key derivation failed for a valid {c} secret: {k!r}', {**base, 'repro': mk})
        return None
    ok, s = lib.call(k.sign, m, generic=generic)
    if not ok:
        report(f'signing failed ({c}, generic={generic}): {s!r}', {**base, 'repro': f'{mk}.sign({marg}, generic={generic})'})
        return None
    base['signature'] = s
    want_prefix = ('sig' if generic and curve != b'BL' else c + 'sig')
    if not s.startswith(want_prefix) or (generic and curve != b'BL' and len(s) != 96):
        report(f'signature {s[:8]}… does not have the {want_prefix} form', {**base, 'repro': f'{mk}.sign({marg}, generic={generic})'})
    pubonly = Key.from_encoded_key(k.public_key())
    for who, kk in ((('its public half', pubonly),) if heavy else (('the signing key', k), ('its public half', pubonly))):
        ok, v = lib.call(kk.verify, s, m)
        if not (ok and v is True):
            report(f'signature does not verify under {who}: {v!r}', {**base, 'repro': f'k={mk}; k.verify(k.sign({marg}, generic={generic}), {marg})'})
            return s
    ok, v = (True, True) if (heavy and generic) else lib.call(ck.check_signature_impl, k.public_key(), s, mbytes)
    if not (ok and v is True):
        report(f'CHECK_SIGNATURE does not push True for a signature Key.verify accepts: {v!r}',
               {**base, 'key': k.public_key(), 'bytes': mbytes.hex(), 'repro': 'harness/c07_keys.py check_signature_impl(key, signature, bytes)'})
    raw = base58_decode(s.encode())
    ind = ck.ref_verify(curve, k.public_point, raw, mbytes) if (not heavy or generic) else None
    ctx.dist[f'independent:{c}:{ind}'] += 1
    if ind is False:
        report('an independent implementation (cryptography) rejects the signature over the Blake2b-256 digest',
               {**base, 'public_point': k.public_point.hex(), 'raw_signature': raw.hex()})
    # alterations
    prefix = s[:3] if s.startswith('sig') else s[:5]
    for _ in range(n_alter):
        what = rng.choice(['message', 'signature', 'key', 'other-key'])
        kk, ss, mm = pubonly, s, mbytes
        if what == 'message':
            mm = alter(rng, mbytes)
        elif what == 'signature':
            ss = base58_encode(alter(rng, raw), prefix.encode()).decode()
        elif what == 'key':
            kk = Key.from_public_point(alter(rng, k.public_point), curve)
        else:
            kk = Key.from_encoded_key(Key.from_secret_exponent(ck.rand_secret(rng, curve, boundary=False), curve).public_key())
            if kk.public_point == k.public_point:
                continue
        ok, v = lib.call(kk.verify, ss, mm)
        ctx.dist[f'alter:{c}:{what}:{"accepted" if ok else type(v).__name__}'] += 1
        rep = {**base, 'altered': what, 'public_point': kk.public_point.hex(), 'signature': ss, 'bytes': mm.hex(),
               'repro': f"Key.from_public_point(bytes.fromhex('{kk.public_point.hex()}'), b'{c}').verify('{ss}', bytes.fromhex('{mm.hex()}'))"}
        if ok:
            report(f'Key.verify accepts an altered {what}', rep)
            continue
        if heavy:
            continue            # quick on BLS: the instruction is exercised on the genuine signature and in the cross-curve matrix
        ok2, v2 = lib.call(ck.check_signature_impl, kk.public_key(), ss, mm)
        if ok2 and v2 is True:
            report(f'CHECK_SIGNATURE pushes True for an altered {what} that Key.verify rejects', rep)
        elif isinstance(v, ValueError) and not (ok2 and v2 is False):
            report(f'Key.verify raises ValueError for an altered {what} but CHECK_SIGNATURE does not push False: {v2!r}', rep)
    return s


# ------------------------------------------------------------------------------------------------
# cross-curve matrix and CHECK_SIGNATURE sequences
# ------------------------------------------------------------------------------------------------

SPELLINGS64 = [b'edsig', b'spsig', b'p2sig', b'sig']


def independent_verdict(curve: bytes, pub: bytes, prefix: bytes, raw: bytes, msg: bytes):
    """What an independent verifier says about (key of `curve`, signature text prefix+raw, msg): the prefix must be generic
    (not for BLS) or the key's own, the length the curve's, and the reference implementation must accept the bytes."""
    if prefix != curve + b'sig' and not (prefix == b'sig' and curve != b'BL'):
        return False
    if len(raw) != (96 if curve == b'BL' else 64):
        return False
    return ck.ref_verify(curve, pub, raw, msg)


def cross_curve(ctx, cs: Cases, verifiers: dict, report):
    """Every key curve x every signature form (each curve's prefix, generic, BLsig; genuine and mislabelled spellings of the
    same bytes) made by ANOTHER key: Key.verify must raise ValueError (never return, never return a falsy value), CHECK_SIGNATURE
    must push False; True is tolerated only if the independent verifier accepts (it never does for a foreign key)."""
    from pytezos.crypto.encoding import base58_decode, base58_encode
    from pytezos.crypto.key import Key
    rng = ctx.rng
    msg = rng.randbytes(12)
    forms = []          # (signer curve, prefix, raw)
    for sc in ck.CURVES:
        signer = Key.from_secret_exponent(ck.rand_secret(rng, sc, boundary=False), sc)
        raw = base58_decode(signer.sign(msg).encode())
        if sc == b'BL':
            forms.append((sc, b'BLsig', raw))
        else:
            forms += [(sc, p, raw) for p in SPELLINGS64]
    for vc, vk in verifiers.items():
        pub = vk.public_point
        pk_txt = vk.public_key()
        pubonly = Key.from_public_point(pub, vc)
        for sc, prefix, raw in forms:
            s = base58_encode(raw, prefix).decode()
            heavy = vc == b'BL' and prefix == b'BLsig'
            rp = {'key_curve': vc.decode(), 'public_point': pub.hex(), 'key': pk_txt, 'signature': s, 'signature_made_by': sc.decode() + ' key (another key)',
                  'bytes': msg.hex(),
                  'repro': f"Key.from_encoded_key('{pk_txt}').verify('{s}', bytes.fromhex('{msg.hex()}'))  # and CHECK_SIGNATURE on the same triple"}
            ok, v = lib.call(pubonly.verify, s, msg)
            ctx.dist[f'cross:{vc.decode()}-key:{prefix.decode()}-by-{sc.decode()}:{"returned " + repr(v) if ok else type(v).__name__}'] += 1
            if ok:
                report(f'Key.verify returned {v!r} instead of raising for a signature made by another key ({sc.decode()} key, {prefix.decode()} form, {vc.decode()} verifier)', rp)
            ok2, v2 = lib.call(ck.check_signature_impl, pk_txt, s, msg)
            if ok2 and v2 is True and independent_verdict(vc, pub, prefix, raw, msg) is not True:
                report(f'CHECK_SIGNATURE pushes True for a signature made by another key ({sc.decode()} key, {prefix.decode()} form, {vc.decode()} verifier)', rp)
            elif not ok and isinstance(v, ValueError) and not (ok2 and v2 is False):
                report(f'Key.verify raises ValueError but CHECK_SIGNATURE does not push False: {v2!r}', rp)
            # (A): always for the BLS verifier and for generic forms, a sample of the rest in the quick tier
            if ctx.thorough or vc == b'BL' or prefix == b'sig' or rng.random() < 0.35:
                if not heavy or ctx.thorough:
                    impl_verify(cs, pub, None, vc, s, msg, f'cross-{prefix.decode()}')
                    impl_checksig(cs, pk_txt, s, msg, f'cross-{prefix.decode()}')


def checksig_sequences(ctx, cs: Cases, signers: dict, report):
    """CHECK_SIGNATURE executed twice in one process on the same key, message and signature BYTES written with two different
    base58 prefixes, in both orders (fresh message per ordered pair): each verdict must be the independent one — a verdict must
    not depend on what was executed before."""
    from pytezos.crypto.encoding import base58_decode, base58_encode
    rng = ctx.rng
    for curve, k in signers.items():
        if curve == b'BL':
            continue
        pk_txt, pub = k.public_key(), k.public_point
        pairs = [(a, b) for a in SPELLINGS64 for b in SPELLINGS64 if a != b]
        if not ctx.thorough:
            own = curve + b'sig'
            pairs = [(a, b) for a, b in pairs if (a in (own, b'sig')) != (b in (own, b'sig'))]     # one accepted, one refused spelling
        for first, second in pairs:
            msg = b'seq ' + rng.randbytes(8)
            raw = base58_decode(k.sign(msg).encode())
            steps = []
            for prefix in (first, second):
                s = base58_encode(raw, prefix).decode()
                want = independent_verdict(curve, pub, prefix, raw, msg)
                ok, got = lib.call(ck.check_signature_impl, pk_txt, s, msg)
                steps.append({'signature': s, 'pushed': got if ok else repr(got), 'independent_verdict': want})
                ctx.case(('checksig-seq', pk_txt, s, msg, len(steps)), nontrivial=True, kind=f'checksig-sequence:{curve.decode()}:{first.decode()}>{second.decode()}:{got if ok else "fails"}')
                if want is not None and not (ok and got is want):
                    report(f'CHECK_SIGNATURE step {len(steps)} pushes {got!r} where an independent verification says {want} '
                           f'(same signature bytes executed before as {first.decode()}…: the verdict depends on history)' if len(steps) == 2 else
                           f'CHECK_SIGNATURE pushes {got!r} where an independent verification says {want}',
                           {'key': pk_txt, 'bytes': msg.hex(), 'sequence': steps,
                            'repro': 'in one process: ' + '; '.join(f"check_signature_impl('{pk_txt}', '{st['signature']}', bytes.fromhex('{msg.hex()}'))" for st in steps)
                                     + '  # harness/c07_keys.py'})
                    break
            # the same two steps under the recorder for the stateless model (A)
            if ctx.thorough or rng.random() < 0.4:
                m2 = b'seq ' + rng.randbytes(8)
                raw2 = base58_decode(k.sign(m2).encode())
                for prefix in (first, second):
                    impl_checksig(cs, pk_txt, base58_encode(raw2, prefix).decode(), m2, f'sequence-{prefix.decode()}')


# ------------------------------------------------------------------------------------------------
# boundary message lengths (digest size, hash block sizes)
# ------------------------------------------------------------------------------------------------

def boundary_lengths(ctx, cs: Cases, signers: dict, secrets: dict, report):
    """Messages of length 0, 1, 31, 32, 33, 63, 64, 65, 127, 128, 129 (and the 32-byte one as a 64-digit hex string) for every
    curve: (A) what the native primitive receives (recorded call vs the model's digest discipline), (B) the independent verifier
    over blake2b-256(message), and the message/digest confusion: a signature over M must not verify for blake2b-256(M) nor one
    over blake2b-256(M) for M."""
    import hashlib
    from pytezos.crypto.encoding import base58_decode
    from pytezos.crypto.key import Key
    rng = ctx.rng
    for curve, k in signers.items():
        heavy = curve == b'BL'
        c = curve.decode()
        lengths = [0, 1, 31, 32, 33, 63, 64, 65, 127, 128, 129]
        if heavy:
            lengths = [32, 64] if not ctx.thorough else [0, 31, 32, 33, 64, 128]
        elif not ctx.thorough:
            lengths = [0, 1, 31, 32, 33, 64, 65, 128]
        pub, sec = k.public_point, k.secret_exponent
        pubonly = Key.from_public_point(pub, curve)
        msgs = []
        for ln in lengths:
            raw = rng.randbytes(ln)
            msgs.append((raw, raw))
            if ln == 32 and not heavy:
                msgs.append((raw.hex(), raw))
                msgs.append(('0x' + rng.randbytes(32).hex(), None))
        for m, mbytes in msgs:
            if mbytes is None:
                mbytes = bytes.fromhex(m[2:])
            generic = rng.random() < 0.5
            ok, s = impl_sign(cs, pub, sec, curve, m, generic, f'len{len(mbytes)}')
            rp = {'curve': c, 'secret_exponent': secrets[curve].hex(), 'public_point': pub.hex(), 'message': m if isinstance(m, str) else m.hex(),
                  'message_is_str': isinstance(m, str), 'message_length': len(mbytes), 'generic': generic,
                  'repro': f"k=Key.from_secret_exponent(bytes.fromhex('{secrets[curve].hex()}'), b'{c}'); s=k.sign({m!r}, generic={generic})"}
            if not ok:
                report(f'signing a {len(mbytes)}-byte message failed ({c}): {s!r}', rp)
                continue
            rp['signature'] = s
            raw_sig = base58_decode(s.encode())
            if not heavy or len(mbytes) == 32:
                ind = ck.ref_verify(curve, pub, raw_sig, mbytes)
                ctx.dist[f'independent-len{len(mbytes)}:{c}:{ind}'] += 1
                if ind is False:
                    report(f'an independent implementation rejects the signature of a {len(mbytes)}-byte message over '
                           + ('the message' if heavy else 'its Blake2b-256 digest'), {**rp, 'raw_signature': raw_sig.hex()})
            if heavy:
                continue
            impl_verify(cs, pub, None, curve, s, m, f'len{len(mbytes)}')
            # message / digest confusion
            digest = hashlib.blake2b(mbytes, digest_size=32).digest()
            ok1, v1 = lib.call(pubonly.verify, s, digest)
            if ok1:
                report(f'a signature over a {len(mbytes)}-byte message M is accepted for the different message blake2b-256(M)',
                       {**rp, 'other_message': digest.hex(), 'repro': rp['repro'] + f"; k.verify(s, bytes.fromhex('{digest.hex()}'))"})
            ok2, s2 = lib.call(k.sign, digest)
            if ok2 and digest != mbytes:
                ok3, v3 = lib.call(pubonly.verify, s2, mbytes)
                if ok3:
                    report(f'a signature over blake2b-256(M) is accepted for the {len(mbytes)}-byte message M',
                           {**rp, 'signed_message': digest.hex(), 'signature': s2})
            if len(mbytes) in (31, 32, 33):
                impl_verify(cs, pub, None, curve, s, digest, f'digest-confusion-len{len(mbytes)}')


# ------------------------------------------------------------------------------------------------
# scrub_input stream
# ------------------------------------------------------------------------------------------------

def scrub_strings(rng, n):
    alphabet = ['0', '1', '9', 'a', 'f', 'A', 'F', 'g', 'G', 'x', 'X', ' ', '\t', '\n', '\x0b', '\x0c', '\r', '\x1c', '\x1f', '\x85', '\xa0',
                ' ', '٣', 'é', '/', ':', '@', '`', '\x00', '\x7f', '\x80', 'ÿ']
    fixed = ['', '0x', '0X12', '0x0x12', 'x012', '00x1', ' 12', '12 ', '1 2', '12 34', '12  34', '12\n34\t', '1', '123', 'ab cd e', '0x ', ' 0x12',
             '0x12 ', 'deadBEEF', 'dead beef', 'g0', '0g', '\x0c00', '00\x1c', '٣٣', '0x٣٣', 'é', '00é', 'sig', 'edsig', 'ed', 'BLsig', 'aB']
    for s in fixed:
        yield s
    for _ in range(n):
        k = rng.random()
        if k < 0.5:
            yield ''.join(rng.choice(alphabet) for _ in range(rng.randrange(0, 9)))
        elif k < 0.8:
            h = rng.randbytes(rng.randrange(0, 6)).hex()
            pos = rng.randrange(0, len(h) + 1)
            yield rng.choice(['', '0x']) + h[:pos] + rng.choice(alphabet + ['']) + h[pos:]
        else:
            yield rng.choice(['', '0x', ' ']) + ' '.join(rng.randbytes(1).hex() * rng.choice([1, 1, 2]) for _ in range(rng.randrange(0, 5)))


def run_scrub(ctx, cs: Cases, n: int, report):
    from pytezos.crypto.encoding import scrub_input
    for s in scrub_strings(ctx.rng, n):
        ok, val = lib.call(scrub_input, s)
        cs.add([], f'(OpScrub {cpyin(s)})', o_bytes(ok, val), {'op': 'scrub_input', 'input': s, 'observed': val.hex() if ok else repr(val)})
        ctx.case(('scrub', s), nontrivial=len(s) > 1, kind=f'scrub:{"ok" if ok else type(val).__name__}')
    # (B) a hex string denotes its bytes, in every accepted notation
    for _ in range(n // 4 + 4):
        raw = ctx.rng.randbytes(ctx.rng.randrange(0, 40))
        for s in (raw.hex(), '0x' + raw.hex(), raw.hex().upper()):
            ok, val = lib.call(scrub_input, s)
            if not (ok and val == raw):
                report('scrub_input does not read a hex string as its bytes', {'input': s, 'observed': repr(val), 'repro': f'scrub_input({s!r})'})


# ------------------------------------------------------------------------------------------------
# run
# ------------------------------------------------------------------------------------------------

def run(ctx: lib.Ctx) -> None:
    from pytezos.crypto.encoding import base58_decode, base58_encode
    from pytezos.crypto.key import Key

    rng = ctx.rng
    ctx.rule = ('random secret exponents of the four curves (uniform and boundary scalars: 1, n-1, leading zero bytes) x messages as bytes / hex str '
                '(plain, 0x, upper case, spaced) / ASCII text / non-ASCII x generic and curve-specific form; for each: sign, verify under the key and '
                'its public half, CHECK_SIGNATURE, then altered message/signature/key (one bit or one byte) and a different key; single-character alterations of the signature text in its prefix / body / checksum region; malformed stream: '
                'no/empty secret, unknown curve tag, foreign-curve and generic prefixes, bad checksum, truncated text, signature as bytes; plus a '
                'scrub_input stream over a whitespace/hex/non-ASCII alphabet. non-trivial = the native primitive was reached or the input is '
                'longer than one character; distinct = distinct (operation, key, message, signature). Boundary message lengths 0/1/31/32/33/63/64/65/127/128/129 (and 32 bytes as 64-digit hex) for every curve with independent verification and message/digest confusion. Cross-curve matrix: every key curve x every signature form '
                '(each curve prefix, generic, BLsig; genuine and mislabelled spellings) made by another key; CHECK_SIGNATURE sequences: the same signature bytes '
                'under two prefixes executed one after the other in both orders, each verdict compared with an independent verification.')
    ctx.assumptions.append(
        'native cryptography (pysodium/libsodium Ed25519, coincurve/libsecp256k1, fastecdsa P-256, py_ecc BLS, hashlib blake2b, base58) is trusted: '
        'the theorems assume of it exactly the laws `sig_laws` / `b58_laws` of Client/KeyGlue.v; in the correspondence run its recorded answers are the oracle table')
    violations: list[tuple[str, dict]] = []

    def report(what, replay):
        if len(violations) < 3:
            violations.append((what, replay))

    import concurrent.futures
    pool = concurrent.futures.ThreadPoolExecutor(max_workers=1)
    table_job = pool.submit(compare_tables, ctx)      # one coqc run, overlapped with the generation below
    cs = Cases(ctx)

    first_keys: dict = {}
    first_secrets: dict = {}
    per_curve = {b'ed': ctx.n(3, 40), b'sp': ctx.n(3, 40), b'p2': ctx.n(3, 40), b'BL': ctx.n(1, 8)}
    for curve in ck.CURVES:
        for ki in range(per_curve[curve]):
            secret = ck.rand_secret(rng, curve)
            ok, k = lib.call(Key.from_secret_exponent, secret, curve)
            if not ok:
                report(f'key derivation failed for a valid {curve.decode()} secret: {k!r}', {'curve': curve.decode(), 'secret_exponent': secret.hex()})
                continue
            pub, sec = k.public_point, k.secret_exponent
            first_keys.setdefault(curve, k)
            first_secrets.setdefault(curve, secret)
            pk_txt = k.public_key()
            for mi in range(ctx.n(1, 2) if curve == b'BL' else ctx.n(2, 3)):
                m, mbytes = ck.rand_message(rng)
                if mi == 0 and ki == 0:
                    m, mbytes = b'', b''
                for generic in (False, True):
                    ok, s = impl_sign(cs, pub, sec, curve, m, generic, 'valid')
                    if mbytes is None:
                        if ok:
                            report('a non-ASCII str message was signed', {'curve': curve.decode(), 'message': m})
                        continue
                    heavy = curve == b'BL'
                    # (B)
                    oracle_sign_verify(ctx, rng, curve, secret, m, mbytes, generic, n_alter=(1 if heavy else 3), report=report, heavy=heavy and not ctx.thorough)
                    if not ok:
                        continue
                    # (A) verification of the genuine signature: secret key object, public half, CHECK_SIGNATURE
                    if not heavy:
                        impl_verify(cs, pub, sec, curve, s, m, 'genuine')
                    if not heavy or generic is False:
                        impl_verify(cs, pub, None, curve, s.encode() if rng.random() < 0.3 else s, m, 'genuine-pub')
                    if not heavy or generic is True:
                        impl_checksig(cs, pk_txt, s, mbytes, 'genuine')
                    # (A) alterations
                    raw = base58_decode(s.encode())
                    prefix = (s[:3] if s.startswith('sig') else s[:5]).encode()
                    alts = [('msg', pub, s, alter(rng, mbytes)),
                            ('sig', pub, base58_encode(alter(rng, raw), prefix).decode(), mbytes),
                            ('key', alter(rng, pub), s, mbytes)]
                    if heavy:
                        alts = [alts[(ki + mi + int(generic)) % 3]]
                    for what, p2, s2, m2 in alts:
                        impl_verify(cs, p2, None, curve, s2, m2, 'altered-' + what)
                        if not heavy:
                            ok2, pk2 = lib.call(lambda: Key.from_public_point(p2, curve).public_key())
                            if ok2:
                                impl_checksig(cs, pk2, s2, m2, 'altered-' + what)
                    # character-level alterations of the signature STRING (prefix, body, the last six characters = checksum region):
                    # an altered text must never verify — Key.verify raises (or at least does not return True), CHECK_SIGNATURE not True
                    if ki < ctx.n(2, 40) and mi == 0:
                        b58 = '123456789ABCDEFGHJKLMNPQRSTUVWXYZabcdefghijkmnopqrstuvwxyz'
                        plen = 3 if s.startswith('sig') else 5
                        spots = [rng.randrange(0, plen), rng.randrange(plen, len(s) - 6)] + [len(s) - 1 - j for j in rng.sample(range(6), 3 if not heavy else 2)]
                        for pos in spots:
                            s2 = s[:pos] + rng.choice([ch for ch in b58 if ch != s[pos]]) + s[pos + 1:]
                            region = 'prefix' if pos < plen else ('checksum' if pos >= len(s) - 6 else 'body')
                            okc, vc = lib.call(Key.from_public_point(pub, curve).verify, s2, m)
                            ctx.dist[f'char-altered:{curve.decode()}:{region}:{"returned " + repr(vc) if okc else type(vc).__name__}'] += 1
                            rpc = {'curve': curve.decode(), 'public_point': pub.hex(), 'genuine_signature': s, 'altered_signature': s2, 'position': pos, 'region': region,
                                   'message': m if isinstance(m, str) else m.hex(), 'message_is_str': isinstance(m, str),
                                   'repro': f"Key.from_public_point(bytes.fromhex('{pub.hex()}'), b'{curve.decode()}').verify('{s2}', {m!r})"}
                            if okc:
                                report(f'Key.verify accepts a signature text altered in one character of its {region} (returned {vc!r})', rpc)
                            elif region != 'prefix' and not (heavy and region != 'checksum'):
                                okk, vk = lib.call(ck.check_signature_impl, pk_txt, s2, mbytes)
                                if okk and vk is True:
                                    report(f'CHECK_SIGNATURE pushes True for a signature text altered in one character of its {region}', rpc)
                            if region == 'checksum' or rng.random() < 0.3:
                                impl_verify(cs, pub, None, curve, s2, m, 'char-altered-' + region)
                    others = [c for c in ck.CURVES if c != curve]
                    mal = []
                    oc = rng.choice(others)
                    if (oc == b'BL') == (curve == b'BL'):
                        mal.append(('foreign-prefix', base58_encode(raw, oc + b'sig').decode()))
                    if curve != b'BL':
                        mal.append(('relabelled', base58_encode(raw, b'sig' if not s.startswith('sig') else curve + b'sig').decode()))
                    mal.append(('truncated', s[:-1]))
                    mal.append(('extended', s + rng.choice('123abc')))
                    i = rng.randrange(6, len(s))
                    mal.append(('bad-checksum', s[:i] + ('2' if s[i] != '2' else '3') + s[i + 1:]))
                    mal.append(('hex-of-raw', raw.hex()))
                    mal.append(('raw-bytes', raw))
                    mal.append(('empty', ''))
                    for what, s2 in rng.sample(mal, 3 if not heavy else 2):
                        if heavy and what in ('relabelled', 'foreign-prefix'):
                            continue
                        impl_verify(cs, pub, None, curve, s2, m, 'malformed-' + what)
            # rare shapes: a signature whose r or s has a leading zero byte (fixed-width serialisation), found by grinding messages;
            # for P-256 also encodings fastecdsa refuses with its own exception classes (r, s outside [1, n-1]; bad SEC1 prefix byte)
            if curve in (b'sp', b'p2') and ki < ctx.n(1, 6):
                # The messages are found with the native library called directly (deterministic RFC 6979 nonces), NOT through Key.sign,
                # so that a wrong serialisation in Key.sign cannot hide the shape; nothing is cached across runs.
                for which in ('r', 's'):
                    m = grind_short(rng, curve, sec, which)
                    ctx.dist[f'short-{which}-found:{curve.decode()}:{m is not None}'] += 1
                    if m is None:
                        continue
                    for generic in (False, True):
                        ok, s = impl_sign(cs, pub, sec, curve, m, generic, f'short-{which}')
                        oracle_sign_verify(ctx, rng, curve, secret, m, m, generic, n_alter=1, report=report)
                        if ok:
                            raw = base58_decode(s.encode())
                            ctx.dist[f'short-{which}-in-Key.sign-output:{curve.decode()}:{raw[0 if which == "r" else 32] == 0}'] += 1
                            if ck.ref_verify(curve, pub, raw, m) is False:
                                report(f'the signature whose {which} has a leading zero byte is rejected by an independent implementation',
                                       {'curve': curve.decode(), 'secret_exponent': secret.hex(), 'message': m.hex(), 'message_is_str': False, 'generic': generic,
                                        'signature': s, 'raw_signature': raw.hex(),
                                        'repro': f"k=Key.from_secret_exponent(bytes.fromhex('{secret.hex()}'), b'{curve.decode()}'); s=k.sign(bytes.fromhex('{m.hex()}'), generic={generic}); k.verify(s, bytes.fromhex('{m.hex()}'))"})
                            impl_verify(cs, pub, None, curve, s, m, f'short-{which}')
                            impl_checksig(cs, pk_txt, s, m, f'short-{which}')
            if curve in (b'sp', b'p2') and ki < ctx.n(1, 4):
                m = rng.randbytes(4)
                raw = base58_decode(k.sign(m).encode())
                order = ck.P256_N if curve == b'p2' else ck.SECP_N
                specials = [bytes(32) + raw[32:], raw[:32] + bytes(32), order.to_bytes(32, 'big') + raw[32:], raw[:32] + order.to_bytes(32, 'big'),
                            b'\xff' * 32 + raw[32:], (int.from_bytes(raw[:32], 'big') + order).to_bytes(33, 'big')[-32:] + raw[32:]]
                for rs in specials:
                    s2 = base58_encode(rs, curve + b'sig').decode()
                    v = impl_verify(cs, pub, None, curve, s2, m, 'out-of-range-rs')
                    r2 = impl_checksig(cs, pk_txt, s2, m, 'out-of-range-rs')
                    if v == 'Valid' or r2 is True:
                        report('a signature with r or s outside [1, n-1] is accepted', {'curve': curve.decode(), 'public_point': pub.hex(), 'signature': s2, 'message': m.hex()})
                s_ok = k.sign(m)
                for b0 in (pub[0] ^ 0x80, 0x04, 0x00, pub[0] ^ 1):
                    p2 = bytes([b0]) + pub[1:]
                    v = impl_verify(cs, p2, None, curve, s_ok, m, 'key-prefix-byte')
                    ok2, pk2 = lib.call(lambda: Key.from_public_point(p2, curve).public_key())
                    r2 = impl_checksig(cs, pk2, s_ok, m, 'key-prefix-byte') if ok2 else None
                    if v == 'Valid' or r2 is True:
                        report('a signature is accepted under a key with an altered first byte', {'curve': curve.decode(), 'public_point': p2.hex(), 'signature': s_ok, 'message': m.hex()})
            # malformed keys
            m = rng.randbytes(5)
            impl_sign(cs, pub, None, curve, m, False, 'no-secret')
            impl_sign(cs, pub, b'', curve, m, True, 'empty-secret')
            if curve != b'BL':
                impl_sign(cs, pub, sec, rng.choice([b'xx', b'e', b'', b'ED', b'edd']), m, False, 'unknown-curve')
                impl_sign(cs, pub, sec[:-1] if curve != b'ed' else sec[:33], curve, m, False, 'short-secret')
                impl_sign(cs, pub, (0).to_bytes(32, 'big') if curve != b'ed' else b'\x00' * 63, curve, m, False, 'zero-secret')
                s_ok, s_val = lib.call(k.sign, m)
                if s_ok:
                    impl_verify(cs, b'', None, curve, s_val, m, 'empty-public')
                    impl_verify(cs, pub, None, b'xx', s_val, m, 'unknown-curve')
                    impl_verify(cs, pub, None, rng.choice([c for c in ck.CURVES if c not in (curve, b'BL')]), s_val, m, 'wrong-curve-key')
                    gen = k.sign(m, generic=True)
                    impl_verify(cs, pub, None, b'xx', gen, m, 'unknown-curve-generic')

    boundary_lengths(ctx, cs, first_keys, first_secrets, report)
    cross_curve(ctx, cs, first_keys, report)
    checksig_sequences(ctx, cs, first_keys, report)
    run_scrub(ctx, cs, ctx.n(80, 3000), report)

    # base58 glue directly: every (payload length, prefix) combination the key code can produce and some it cannot
    for _ in range(ctx.n(25, 600)):
        prefix = rng.choice([b'edsig', b'spsig', b'p2sig', b'sig', b'BLsig', b'edpk', b'sppk', b'p2pk', b'BLpk', b'edsk', b'spsk', b'p2sk', b'BLsk',
                             b'edesk', b'spesk', b'p2esk', b'BLesk', b'tz1', b'tz2', b'tz3', b'tz4', b'KT1', b'sg', b'', b'Sig'])
        ln = rng.choice([20, 32, 33, 48, 56, 64, 96, 63, 65, 0])
        v = rng.randbytes(ln)
        ok, val, calls = run_recorded(lambda: base58_encode(v, prefix))
        cs.add(calls, f'(OpB58Enc {cblob(v)} {cblob(prefix)})', o_bytes(ok, val), {'op': 'base58_encode', 'payload': v.hex(), 'prefix': prefix.decode()})
        ctx.case(('b58enc', v, prefix), nontrivial=ok, kind=f'b58enc:{"ok" if ok else "reject"}')
        if ok:
            e = val
            k = rng.random()
            if k < 0.3:
                e = e[:-1]
            elif k < 0.5:
                i = rng.randrange(len(e))
                e = e[:i] + (b'2' if e[i:i + 1] != b'2' else b'3') + e[i + 1:]
            ok2, val2, calls2 = run_recorded(lambda: base58_decode(e))
            cs.add(calls2, f'(OpB58Dec {cblob(e)})', o_bytes(ok2, val2), {'op': 'base58_decode', 'input': e.decode('latin-1')})
            ctx.case(('b58dec', e), nontrivial=ok2, kind=f'b58dec:{"ok" if ok2 else "reject"}')
            if e == val and not (ok2 and val2 == v):
                report('base58_decode does not invert base58_encode', {'payload': v.hex(), 'prefix': prefix.decode(), 'encoded': val.decode()})

    problems = table_job.result()
    pool.shutdown()
    bad = ctx.coq_mismatches('keys', IMPORTS, 'run_case', 'outcome_eqb', 'otable * op', 'outcome', cs.cases, shard=(250 if not ctx.thorough else 400), prelude=PRELUDE)
    ctx.extra['correspondence_cases'] = len(cs.cases)
    ctx.extra['correspondence_disagreements'] = len(bad)

    for what, replay in violations:
        ctx.violation(what, replay, found=True)
    if not violations and (bad or problems):
        rep = {'correspondence': 'C07/Key.sign, Key.verify, CHECK_SIGNATURE, scrub_input, base58_encode/decode vs Client.KeyGlue/KeyStore run_case',
               'table_problems': problems, 'disagreements': len(bad)}
        if bad:
            i = bad[0]
            rep.update(cs.meta[i])
            rep['model'] = ctx.coq_eval(IMPORTS, f'run_case {cs.cases[i][0]}', prelude=PRELUDE)
            rep['other_disagreeing_ops'] = sorted({cs.meta[j]['op'] for j in bad})
        ctx.violation('implementation no longer corresponds to the model the theorems are about', rep, found=False)
