"""C30 — protocol source diffs apply and revert (src/pytezos/protocol/diff.py, protocol.py).

Correspondence (A), implementation vs Codec/Diff.v evaluated inside coqc:
  apply    apply_patch(source, patch, revert) on patches produced by make_patch (difflib, context 0..5),
           on hand-built edit scripts printed by an independent renderer, and on a malformed stream
           (mutated headers / dropped, duplicated, reordered lines) -> result text or Reject;
  script   every make_patch output and every hand-built patch is parsed into an edit script and the *model*
           confirms `render hdr script = patch`, `old_of script = lines a`, `new_of script = lines b`
           (check_script) — this is what makes theorems C30_apply / C30_revert applicable to that patch;
  protocol Protocol.diff / Protocol.patch on small file sets vs patch_files.
Oracle (B): apply_patch(a, make_patch(a, b, ctx)) == b and apply_patch(b, ..., revert=True) == a;
list(yours.patch(yours.diff(theirs))) == list(theirs).
Texts use LF as the only line separator (the model's domain; docs/C30.md).
"""
import json
import re

import lib
from c31_lits import balanced, cbp
from lib import cbool, clist

PROP = 'C30'
IMPORTS = 'From PV Require Import Codec.Diff.'
NOEOL = '\\ No newline at end of file'

# line alphabet: short words plus every shape that could confuse a patch reader
WORDS = ['a', 'b', 'c', 'x', 'let f = 1', 'end', '', '', ' ', '  x', '@', '@@', '@@ -1 +1 @@', '@@ -1,2 +3,4 @@', '-', '--', '---', '--- f',
         '+', '++', '+++', '+++ f', '-a', '+b', ' c', '\\', '\\ No newline at end of file', '\\a', '0', ',0', '\t', 'a b', 'A', 'é'[:0] + 'e']


def gen_text(rng, maxlines=9):
    k = rng.random()
    if k < 0.08:
        return ''
    n = rng.choice([1, 1, 2, 3, 4, 5, 6, maxlines, rng.randrange(1, maxlines + 6)])
    pool = rng.choice([WORDS, WORDS[:4], ['a', 'b'], ['', 'a'], ['@', '-', '+', '\\', ' ', 'a']])
    lines = [rng.choice(pool) for _ in range(n)]
    t = '\n'.join(lines)
    if rng.random() < 0.65:
        t += '\n'
    return t


def mutate_text(rng, a):
    lines = a.splitlines(True)
    for _ in range(rng.choice([0, 1, 1, 2, 3, 5])):
        op = rng.random()
        pos = rng.randrange(len(lines) + 1)
        if op < 0.35:
            lines.insert(pos, rng.choice(WORDS) + '\n')
        elif op < 0.65 and lines:
            del lines[min(pos, len(lines) - 1)]
        elif op < 0.85 and lines:
            lines[min(pos, len(lines) - 1)] = rng.choice(WORDS) + '\n'
        elif lines:
            i = min(pos, len(lines) - 1)
            lines.insert(i, lines[i])
    # normalise: only the last line may lack its LF
    lines = [l if l.endswith('\n') else l + '\n' for l in lines]
    t = ''.join(lines)
    k = rng.random()
    if k < 0.3 and t.endswith('\n'):
        t = t[:-1]  # missing final newline (an empty last line simply disappears)
    return t


def gen_pair(rng):
    a = gen_text(rng)
    k = rng.random()
    if k < 0.1:
        b = a
    elif k < 0.2:
        b = gen_text(rng)
    elif k < 0.27:
        b = a[:-1] if a.endswith('\n') else a + '\n'  # differ only in the final newline
    else:
        b = mutate_text(rng, a)
    if rng.random() < 0.5:
        a, b = b, a
    return a, b


# ----------------------------------------------------------------------------------------------
# edit scripts (harness side): hunks = [(gap_lines, [(tag, line)])], tail_lines ; lines keep their LF
# ----------------------------------------------------------------------------------------------
def fmt_range(p, ln):
    if ln == 1:
        return str(p + 1)
    if ln == 0:
        return f'{p},0'
    return f'{p + 1},{ln}'


def render_script(hdr, hunks):
    """independent printer of the unified format (validated against the model's [render] by check_script)"""
    out = list(hdr)
    o = n = 0
    for gap, body in hunks:
        o += len(gap)
        n += len(gap)
        ol = sum(1 for t, _ in body if t != '+')
        nl = sum(1 for t, _ in body if t != '-')
        out.append(f'@@ -{fmt_range(o, ol)} +{fmt_range(n, nl)} @@\n')
        for t, l in body:
            out.append(t + l if l.endswith('\n') else t + l + '\n' + NOEOL + '\n')
        o += ol
        n += nl
    return ''.join(out)


HDR_RE = re.compile(r'^@@ -(\d+)(?:,(\d+))? \+(\d+)(?:,(\d+))? @@\n$')


def parse_patch(a, patch):
    """make_patch output -> (hdr lines, hunks, tail) using the old text for the gaps; None if not of that shape"""
    al = a.split('\n')
    al = [x + '\n' for x in al[:-1]] + ([al[-1]] if al[-1] else [])
    pl = patch.split('\n')
    pl = [x + '\n' for x in pl[:-1]] + ([pl[-1]] if pl[-1] else [])
    i = 0
    hdr = []
    while i < len(pl) and (pl[i].startswith('---') or pl[i].startswith('+++')):
        hdr.append(pl[i])
        i += 1
    hunks = []
    pos = 0
    while i < len(pl):
        m = HDR_RE.match(pl[i])
        if not m:
            return None
        start = int(m.group(1))
        ln = 1 if m.group(2) is None else int(m.group(2))
        o = start if ln == 0 else start - 1
        if o < pos or o > len(al):
            return None
        gap = al[pos:o]
        i += 1
        body = []
        while i < len(pl) and not pl[i].startswith('@'):
            t, l = pl[i][0], pl[i][1:]
            if t not in ' -+':
                return None
            if i + 1 < len(pl) and pl[i + 1] == NOEOL + '\n':
                l = l[:-1]
                i += 1
            body.append((t, l))
            i += 1
        hunks.append((gap, body))
        pos = o + sum(1 for t, _ in body if t != '+')
    return hdr, hunks, al[pos:]


def gen_script(rng):
    """a hand-built edit script (shapes difflib never emits included): returns (a, b, hdr, hunks, tail)"""
    def line():
        return rng.choice(WORDS) + '\n'

    hunks = []
    for _ in range(rng.choice([0, 1, 1, 2, 3, 4])):
        gap = [line() for _ in range(rng.choice([0, 0, 1, 2, 3]))]
        body = []
        for _ in range(rng.choice([0, 1, 2, 3, 4, 6])):
            body.append((rng.choice(' -+-+'), line()))
        hunks.append((gap, body))
    tail = [line() for _ in range(rng.choice([0, 0, 1, 2]))]

    def olds():
        return [l for g, b in hunks for l in g + [x for t, x in b if t != '+']] + tail

    def news():
        return [l for g, b in hunks for l in g + [x for t, x in b if t != '-']] + tail

    # drop the final LF of the old and/or new text; inconsistent results are filtered out below
    def strip_last(which):
        if tail:
            if tail[-1].endswith('\n') and tail[-1] != '\n':
                tail[-1] = tail[-1][:-1]
            return
        for g, b in reversed(hunks):
            idx = [k for k, (t, _) in enumerate(b) if t != ('+' if which == 'old' else '-')]
            if idx:
                t, l = b[idx[-1]]
                if l.endswith('\n') and l != '\n':
                    b[idx[-1]] = (t, l[:-1])
                return
            if g:
                return

    if rng.random() < 0.4:
        strip_last('old')
    if rng.random() < 0.4:
        strip_last('new')
    a, b = ''.join(olds()), ''.join(news())
    # validity of the construction: only the last line of each text may lack LF, no empty line records
    for txt, ls in ((a, olds()), (b, news())):
        if any(l == '' for l in ls) or any(not l.endswith('\n') for l in ls[:-1]):
            return None
    hdr = rng.choice([[], [], ['--- f\n', '+++ f\n'], ['--- a/x.ml\n', '+++ b/x.ml\n'], ['+++ only\n']])
    return a, b, hdr, hunks, tail


def coq_script(hunks, tail):
    tg = {' ': 'TCtx', '-': 'TDel', '+': 'TAdd'}
    hs = clist('(mkh ' + clist(cb(l) for l in g) + ' ' + clist(f'({tg[t]}, {cb(l)})' for t, l in b) + ')' for g, b in hunks)
    return f'(mks {hs} {clist(cb(l) for l in tail)})'


def cb(s: str) -> str:
    return cbp(s.encode('ascii'))


def ascii_lf_only(*texts):
    return all(all((32 <= ord(c) < 127) or c in '\n\t' for c in t) for t in texts)


def run_apply(src, patch, rv):
    from pytezos.protocol.diff import apply_patch
    ok, val = lib.call(apply_patch, src, patch, rv)
    if ok and isinstance(val, str):
        return val
    return None


# files removed / added / unchanged / emptied between the two protocols
PROTO_FIXED = [
    ([('alpha.mli', 'a\n'), ('alpha.ml', 'b\n'), ('beta.ml', 'c\n')], [('alpha.mli', 'a\n'), ('alpha.ml', 'B\n')], 3),
    ([('alpha.ml', 'b\n'), ('beta.ml', 'c\n')], [('beta.ml', 'c\n')], 0),
    ([('alpha.ml', 'b\n')], [('alpha.ml', 'b\n'), ('beta.mli', 'new\nfile'), ('beta.ml', '')], 1),
    ([('alpha.ml', 'b\nc')], [('alpha.ml', '')], 0),
    ([], [('alpha.ml', 'x\n')], 2),
    ([('alpha.ml', 'x\n')], [], 2),
    # non-ASCII sources (2-, 3-, 4-byte UTF-8): in a changed line, an unchanged line, a new file, a removed file
    ([('alpha.ml', 'let a = 1\nlet b = 2\n')], [('alpha.ml', 'let a = 1\nlet b = "\u00e9"\n')], 3),
    ([('alpha.ml', '(* tez \ua729 \u2014 ok *)\nlet b = 2\n')], [('alpha.ml', '(* tez \ua729 \u2014 ok *)\nlet b = 3\n')], 0),
    ([('alpha.ml', 'x\n')], [('alpha.ml', 'x\n'), ('beta.mli', 'val f : unit (* \U0001d538 \u00e9 *)'), ('beta.ml', '\u2014\n')], 1),
    ([('alpha.ml', '\u00e9\n\ua729'), ('beta.ml', 'gone \U0001f600\n')], [('alpha.ml', '\u00e9\n\ua729\n')], 2),
    ([('alpha.mli', '\u00e9')], [('alpha.mli', '\u00e9')], 3),
]
NONASCII = ['\u00e9', '\u00df', '\u2014', '\ua729', '\u20ac', '\U0001d538', '\U0001f600']


def uni(rng, a, b):
    """put non-ASCII characters into a pair of texts: a consistent substitution (so unchanged lines carry them too)
    and/or an edit on one side only (changed lines)"""
    k = rng.random()
    if k < 0.6:
        src, dst = rng.choice('abcx e'), rng.choice(NONASCII)
        a, b = a.replace(src, dst), b.replace(src, dst)
    if k > 0.3:
        ch = rng.choice(NONASCII)
        if rng.random() < 0.5 or not b:
            b = ch + b
        else:
            i = rng.randrange(len(b))
            b = b[:i] + ch + b[i:]
        if rng.random() < 0.3:
            a = a + rng.choice(NONASCII)
    return a, b


def malform(rng, patch):
    """mutations of a patch text: header edits, line drops/duplications/reorderings, stray lines"""
    lines = patch.splitlines(True)
    if not lines:
        return rng.choice(['@@\n', 'garbage\n', '@@ -1 +1 @@\n', '--- f\n', '\n', '@@ -0,0 +1 @@\n+x\n', '@@ -1,0 +1 @@\n+x\n'])
    k = rng.random()
    i = rng.randrange(len(lines))
    if k < 0.3:
        hs = [j for j, l in enumerate(lines) if l.startswith('@@')]
        if hs:
            j = rng.choice(hs)
            nums = re.findall(r'\d+', lines[j])
            if nums:
                tgt = rng.choice(nums)
                new = rng.choice([str(int(tgt) + 1), str(max(int(tgt) - 1, 0)), '0', '00', '007', '99999999999999999999', tgt + '0', ''])
                lines[j] = lines[j].replace(tgt, new, 1)
    elif k < 0.4:
        hs = [j for j, l in enumerate(lines) if l.startswith('@@')]
        if hs:
            j = rng.choice(hs)
            lines[j] = rng.choice([lines[j].replace(' @@', ' @@ fn()'), lines[j].replace('@@ -', '@@ +', 1), lines[j].replace(',', ',,', 1),
                                   lines[j].replace(' +', '  +', 1), lines[j].rstrip('\n'), lines[j].replace(',', ', ', 1),
                                   lines[j].replace(' @@', ',@@'), lines[j].upper(), '@' + lines[j]])
    elif k < 0.55:
        del lines[i]
    elif k < 0.7:
        lines.insert(i, lines[i])
    elif k < 0.8:
        j = rng.randrange(len(lines))
        lines[i], lines[j] = lines[j], lines[i]
    elif k < 0.87:
        # a stray line beginning with @ (ends the inner loop: the outer loop must then reject it as a header)
        lines.insert(max(i, 1), rng.choice(['@\n', '@x\n', '@ -1 +1 @\n', '@@\n', '@@ -1 +1\n', '@a\n\\ No newline at end of file\n']))
    elif k < 0.93:
        lines.insert(i, rng.choice(['\\ No newline at end of file\n', '\\\n', 'x\n', '@\n', '@@\n', ' \n', '+\n', '-\n', '---\n', '+++ z\n', '\n']))
    else:
        lines = lines[:i]
    return ''.join(lines)


def run(ctx: lib.Ctx) -> None:
    from pytezos.protocol.diff import apply_patch, make_patch
    from pytezos.protocol.protocol import Protocol, files_to_proto, proto_to_files
    rng = ctx.rng
    ctx.rule = ('pairs (a, b) of texts over a 34-word line alphabet incl. lines starting with @ - + \\ space, empty lines, empty texts, '
                'missing final newline on either side; b = edits of a / independent / equal; context 0..5 (each generated pair with 2 context sizes, 43 fixed boundary pairs with 2-3 incl. context 0 (thorough: all 6)); '
                'hand-built edit scripts (adjacent and empty hunks, arbitrary tag order); malformed = mutated patch text. '
                'non-trivial = the patch has at least one hunk and the texts differ; distinct = distinct (source, patch, direction)')
    reported = 0

    def report(what, rep, found=True):
        nonlocal reported
        if reported < 3:
            reported += 1
            ctx.violation(what, rep, found=found)

    allcases = []  # (cost, (literal, stream, meta))
    apply_meta = []

    def add_apply(src, patch, rv, kind):
        if not ascii_lf_only(src, patch):
            return None
        got = run_apply(src, patch, rv)
        out = 'Reject' if got is None else f'(Ok {cb(got)})' if ascii_lf_only(got) else None
        if out is None:
            return got
        meta = (src, patch, rv, got, kind)
        allcases.append((len(src) + 2 * len(patch) + 40, (f'(DApply {cb(src)} {cb(patch)} {cbool(rv)} {out})', 'apply', meta)))
        apply_meta.append(meta)
        return got

    # ---- corpus first
    import glob
    import os
    for p in sorted(glob.glob(os.path.join(lib.VERIF, 'corpus', PROP, '*.json'))):
        doc = json.load(open(p))
        ctx.corpus_cases += 1
        add_apply(doc['source'], doc['patch'], bool(doc.get('revert')), 'corpus')

    # ---- 1. difflib patches
    npairs = ctx.n(90, 3000)
    fixed = [('', ''), ('', 'a\n'), ('a\n', ''), ('a', ''), ('', 'a'), ('a', 'a\n'), ('a\n', 'a'), ('a\nb', 'a\nb\nc'), ('a\nb\nc', 'a\nb'),
             ('\n', ''), ('\n\n', '\n'), ('a\n\n', 'a\n'), ('@\n', '@@\n'), ('\\ No newline at end of file\n', '\\ No newline at end of file'),
             ('x\ny', 'x\nz\n'), ('x\ny', 'x\nz'), ('y', 'z'), ('y', 'z\n'), ('y\n', 'z'), ('p\nq\ny', 'p\nQ\nz'),
             ('a\nb\n', 'a\nX\nb\n'), ('a\nX\nb\n', 'a\nb\n'), ('a\nb\n', 'X\na\nb\n'), ('a\nb\n', 'a\nb\nX\n'), ('a\nb', 'a\nb\nX'), ('X\n', ''),
             (''.join(f'l{i}\n' for i in range(130)), ''.join(f'l{i}\n' for i in range(130) if i not in (9, 99, 100)) .replace('l120\n', 'L\nM\n') + 'end'),
             ('--- f\n', '+++ f\n'), ('-- f\n+\n', '-\n++ f\n'), ('x\n' * 12, 'x\n' * 5 + 'y\n' + 'x\n' * 7), ('a\nb\nc\nd\ne\nf\ng\nh\ni\nj\nk\nl\n', 'a\nB\nc\nd\ne\nf\ng\nh\ni\nj\nK\nl')]
    for k in range(npairs):
        a, b = fixed[k] if k < len(fixed) else gen_pair(rng)
        if k >= len(fixed):
            css = rng.sample(range(6), 2)
        elif len(a) > 400:
            css = [0, 2]
        else:
            css = list(range(6)) if ctx.thorough else [0, rng.choice([1, 2, 3]), rng.choice([3, 4, 5])] if k % 2 else [0, rng.choice([1, 2, 3, 4, 5])]
        for cs in css:
            fname = rng.choice(['f', 'x.ml', 'dir/a b.mli', ''])
            ok, patch = lib.call(make_patch, a, b, fname, cs)
            if not ok or not isinstance(patch, str):
                report('make_patch raised', {'a': a, 'b': b, 'context_size': cs, 'error': repr(patch),
                                              'repro': f'from pytezos.protocol.diff import make_patch; make_patch({a!r}, {b!r}, {fname!r}, {cs})'})
                continue
            fwd = add_apply(a, patch, False, 'difflib')
            back = add_apply(b, patch, True, 'difflib')
            nontriv = a != b
            ctx.case(('d', a, b, cs), nontrivial=nontriv, kind=f'difflib:ctx{cs}:{"eq" if a == b else "diff"}:{"noeol" if not (a + "x").endswith(chr(10) + "x") or not (b + "x").endswith(chr(10) + "x") else "eol"}',
                     sample={'a': a, 'b': b, 'context': cs, 'patch': patch} if k in (len(fixed) + 1, len(fixed) + 7) else None)
            if fwd != b or back != a:
                report('applying / reverting the generated diff does not reproduce the other text',
                       {'a': a, 'b': b, 'context_size': cs, 'patch': patch, 'applied': fwd, 'reverted': back,
                        'repro': f'from pytezos.protocol.diff import *; p=make_patch({a!r}, {b!r}, "f", {cs}); apply_patch({a!r}, p), apply_patch({b!r}, p, revert=True)'})
            # script validity of difflib's output
            if ascii_lf_only(a, b, patch):
                ps = parse_patch(a, patch)
                hdr, hunks, tail = ps if ps is not None else ([], [], [])
                allcases.append((2 * (len(a) + len(b) + 2 * len(patch)) + 40,
                                 (f'(DScript {cb(a)} {cb(b)} {cb(patch)} {clist(cb(h) for h in hdr)} {coq_script(hunks, tail)})', 'script', (a, b, patch, 'difflib', cs))))

    # ---- 2. hand-built scripts
    script_fail = []
    nscripts = ctx.n(64, 2500)
    made = 0
    tries = 0
    while made < nscripts and tries < nscripts * 6:
        tries += 1
        g = gen_script(rng)
        if g is None:
            continue
        a, b, hdr, hunks, tail = g
        if not ascii_lf_only(a, b):
            continue
        made += 1
        patch = render_script(hdr, hunks)
        fwd = add_apply(a, patch, False, 'script')
        back = add_apply(b, patch, True, 'script')
        ctx.case(('s', a, b, patch), nontrivial=bool(hunks) and a != b, kind=f'script:{min(len(hunks), 3)}hunks',
                 sample={'a': a, 'b': b, 'patch': patch} if made == 3 else None)
        allcases.append((2 * (len(a) + len(b) + 2 * len(patch)) + 40,
                         (f'(DScript {cb(a)} {cb(b)} {cb(patch)} {clist(cb(h) for h in hdr)} {coq_script(hunks, tail)})', 'script', (a, b, patch, 'script', None))))
        if fwd != b or back != a:
            # a valid script that make_patch did not produce: theorem C30_apply/C30_revert no longer describes the code,
            # but the property text quantifies over *generated* diffs -> reported without a failing input of the property
            script_fail.append({'correspondence': 'C30/apply_patch on a hand-built valid edit script (theorems C30_apply / C30_revert)',
                                'a': a, 'b': b, 'patch': patch, 'applied': fwd, 'reverted': back,
                                'repro': f'from pytezos.protocol.diff import apply_patch; apply_patch({a!r}, {patch!r}), apply_patch({b!r}, {patch!r}, revert=True)'})

    # ---- 2b. texts with other line separators (outside the model's domain: oracle (B) only)
    exotic = ['a', 'b', '\r', '\n', '\x0c', '\x0b', '\x1c', '\x85', ' ', '\r\n', '\u2028', 'é']
    for _ in range(ctx.n(200, 6000)):
        a = ''.join(rng.choice(exotic) for _ in range(rng.randrange(0, 8)))
        b = ''.join(rng.choice(exotic) for _ in range(rng.randrange(0, 8)))
        cs = rng.randrange(6)
        ok, patch = lib.call(make_patch, a, b, 'f', cs)
        fwd = run_apply(a, patch, False) if ok else None
        back = run_apply(b, patch, True) if ok else None
        ctx.case(('x', a, b, cs), nontrivial=a != b, kind='exotic-separators')
        if fwd != b or back != a:
            report('applying / reverting the generated diff does not reproduce the other text',
                   {'a': a, 'b': b, 'context_size': cs, 'patch': patch if ok else repr(patch), 'applied': fwd, 'reverted': back,
                    'repro': f'from pytezos.protocol.diff import *; p=make_patch({a!r}, {b!r}, "f", {cs}); apply_patch({a!r}, p), apply_patch({b!r}, p, revert=True)'})

    # ---- 3. malformed stream (A only)
    base = [m for m in apply_meta if m[4] in ('difflib', 'script') and m[1]]
    for _ in range(ctx.n(130, 3000)):
        src, patch, rv, _, _ = rng.choice(base)
        bad = malform(rng, patch)
        if rng.random() < 0.2:
            src = mutate_text(rng, src)
        got = add_apply(src, bad, rv, 'malformed')
        ctx.case(('m', src, bad, rv), nontrivial=True, kind=f'malformed:{"reject" if got is None else "accepted"}')

    # ---- 4. Protocol.diff / Protocol.patch
    for k in range(ctx.n(32, 400)):
        names = rng.sample(['alpha', 'beta', 'gamma_x', 'delta', 'eps'], rng.choice([1, 2, 3, 4]))
        yf, tf = [], []
        for nm in names:
            for ext in ('mli', 'ml'):
                if rng.random() < 0.8:
                    a, b = gen_pair(rng)
                    if not ascii_lf_only(a, b):
                        continue
                    if k % 3 == 1:
                        a, b = uni(rng, a, b)
                    side = rng.random()
                    if side < 0.8:
                        yf.append((f'{nm}.{ext}', a))
                    if side > 0.15:
                        tf.append((f'{nm}.{ext}', b))
        cs = rng.randrange(6)
        if k < len(PROTO_FIXED):
            yf, tf, cs = PROTO_FIXED[k]
        yours = Protocol(files_to_proto(yf))
        theirs_proto = files_to_proto(tf)
        # Protocol.diff / patch call their argument: it is an RPC-query-like callable returning the protocol dict
        ok, d = lib.call(yours.diff, lambda: theirs_proto, cs)
        res = None
        dfiles = None
        ok2 = False
        r = None
        if ok:
            dfiles = list(d)
            dproto = d._proto
            ok2, r = lib.call(yours.patch, lambda: dproto)
            if ok2:
                res = list(r)
        want = [tuple(x) for x in tf]
        nonascii = not all(ascii_lf_only(t) for _, t in yf + tf)
        # hex components and protocol hash of the patched protocol vs the second protocol; files <-> proto round trip
        comp_ok = hash_ok = None
        if ok and ok2:
            comp_ok = r._proto.get('components') == theirs_proto.get('components')
            okh1, h1 = lib.call(r.hash)
            okh2, h2 = lib.call(Protocol(theirs_proto).hash)
            hash_ok = okh1 and okh2 and h1 == h2
        okrt, rt = lib.call(lambda: proto_to_files(files_to_proto(tf)))
        rt_ok = okrt and [tuple(x) for x in rt] == want
        okry, ry = lib.call(lambda: proto_to_files(files_to_proto(yf)))
        rt_ok = rt_ok and okry and [tuple(x) for x in ry] == [tuple(x) for x in yf]
        ctx.case(('p', tuple(yf), tuple(tf), cs), nontrivial=bool(tf), kind='protocol:nonascii' if nonascii else 'protocol',
                 sample={'yours': yf, 'theirs': tf, 'context': cs} if k in (2, 7) else None)
        if res != want or not comp_ok or not hash_ok or not rt_ok:
            what = ('files_to_proto / proto_to_files do not round-trip the source texts' if not rt_ok else
                    'patching a protocol with its diff against another does not reproduce the other')
            report(what,
                   {'yours': yf, 'theirs': tf, 'context_size': cs, 'got': res, 'want': want, 'components_equal': comp_ok, 'hash_equal': hash_ok,
                    'files_proto_roundtrip': rt_ok,
                    'repro': 'y=Protocol(files_to_proto(yours)); t=files_to_proto(theirs); r=y.patch(lambda: y.diff(lambda: t, ctx)._proto); '
                             'list(r)==theirs, r._proto==t, r.hash()==Protocol(t).hash(), proto_to_files(files_to_proto(theirs))==theirs'})
        if dfiles is not None and all(ascii_lf_only(t) for _, t in dfiles + list(yours)):
            fl = lambda fs: clist(f'({cb(n)}, {cb(t)})' for n, t in fs)  # noqa: E731
            out = 'Reject' if res is None else f'(Ok {fl(res)})'
            allcases.append((3 * sum(len(t) for _, t in dfiles + list(yours)) + 60,
                             (f'(DProto {fl(list(yours))} {fl(dfiles)} {out})', 'proto', (yf, tf, cs, res))))
    # ---- (A): the model evaluates every collected case inside coqc
    shard = ctx.n(190, 400)
    ordered = balanced(allcases, shard)
    bad = ctx.coq_mismatches('cases', IMPORTS, 'dcheck', 'Bool.eqb', 'dcase', 'bool', [(lit, 'true') for lit, _, _ in ordered], shard=shard)
    ctx.extra['coq_cases'] = {k: sum(1 for _, s_, _ in ordered if s_ == k) for k in ('apply', 'script', 'proto')}
    bad_by = {k: [ordered[i][2] for i in bad if ordered[i][1] == k] for k in ('apply', 'script', 'proto')}

    # ---- verdicts for (A)
    if script_fail and reported == 0:
        report('apply_patch fails on a valid edit script that make_patch does not produce', script_fail[0], found=False)
    if bad_by['script'] and reported == 0:
        a, b, patch, kind, cs = bad_by['script'][0]
        report('a generated patch is not the text of a valid edit script between the two texts (theorems C30_apply/C30_revert do not cover it)',
               {'correspondence': 'C30/make_patch (difflib.unified_diff) vs Codec.Diff.render/valid_script', 'a': a, 'b': b, 'patch': patch,
                'origin': kind, 'context_size': cs, 'disagreements': len(bad_by['script'])}, found=False)
    if bad_by['apply'] and reported == 0:
        src, patch, rv, got, kind = bad_by['apply'][0]
        report('implementation no longer corresponds to the model the theorems are about',
               {'correspondence': 'C30/apply_patch vs Codec.Diff.apply_patch', 'source': src, 'patch': patch, 'revert': rv, 'got': got, 'stream': kind,
                'model': ctx.coq_eval(IMPORTS, f'apply_patch {cb(src)} {cb(patch)} {cbool(rv)}'), 'disagreements': len(bad_by['apply'])}, found=False)
    if bad_by['proto'] and reported == 0:
        yf, tf, cs, res = bad_by['proto'][0]
        report('implementation no longer corresponds to the model the theorems are about',
               {'correspondence': 'C30/Protocol.patch vs Codec.Diff.patch_files', 'yours': yf, 'theirs': tf, 'context_size': cs, 'got': res}, found=False)


def replay(ctx, doc) -> bool:
    """re-evaluate the property's oracle (B) on the input stored in a replay file; True = it still fails"""
    from pytezos.protocol.diff import make_patch
    from pytezos.protocol.protocol import Protocol, files_to_proto, proto_to_files
    if 'a' in doc and 'b' in doc and 'context_size' in doc and doc.get('origin') is None:
        a, b, cs = doc['a'], doc['b'], doc['context_size']
        ok, patch = lib.call(make_patch, a, b, 'f', cs)
        fwd = run_apply(a, patch, False) if ok else None
        back = run_apply(b, patch, True) if ok else None
        print(f'replay: patch={patch!r} applied={fwd!r} reverted={back!r}')
        return fwd != b or back != a
    if 'yours' in doc and 'theirs' in doc:
        yf = [tuple(x) for x in doc['yours']]
        tf = [tuple(x) for x in doc['theirs']]
        yours = Protocol(files_to_proto(yf))
        tp = files_to_proto(tf)
        ok, d = lib.call(yours.diff, lambda: tp, doc.get('context_size', 3))
        res = None
        if ok:
            dp = d._proto
            ok2, r = lib.call(yours.patch, lambda: dp)
            res = list(r) if ok2 else None
        same = ok and res is not None and r._proto.get('components') == tp.get('components') and r.hash() == Protocol(tp).hash()
        rt = [tuple(x) for x in proto_to_files(files_to_proto(tf))] == tf
        print(f'replay: got={res!r} want={tf!r} components+hash equal={same} files<->proto round trip={rt}')
        return res != tf or not same or not rt
    print('replay: no failing input of the property in this file (correspondence / proof break)')
    return False
