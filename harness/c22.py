"""C22 — a failing REPL cell leaves the session as if it never ran.

(A) correspondence: pytezos.michelson.repl.Interpreter (real code) vs Michelson/Repl.v `session_obs Rebind`
    on generated cell sequences: after every cell the result (ok / failed, lazy diffs and results of COMMIT /
    RUN / BIG_MAP_DIFF), the stack (type, Micheline value, every big_map with id, pending diff and the *identity*
    of the context object it is attached to), the interpreter's context (declared sections, tmp / alloc
    counters, big_maps table) and, at the end, every context object that is no longer the interpreter's.
(B) the property's own oracle: the same session is run again on the real Interpreter with the failing cells
    removed; results of the surviving cells (incl. stdout), stack and every field of the context must be equal.
"""
import copy
import json

import lib
from lib import cZ, clist

PROP = 'C22'
IMPORTS = 'From PV Require Import Base.Bytes Codec.Micheline Michelson.Repl.'

# ---------------------------------------------------------------------------------------------
# cell AST: types, literals (Micheline JSON), instructions -> Michelson text and Coq literals
# ---------------------------------------------------------------------------------------------
T0 = {'unit': 'TUnit', 'int': 'TInt', 'nat': 'TNat', 'string': 'TString', 'mutez': 'TMutez', 'operation': 'TOperation', 'bool': 'TBool'}
T1 = {'option': 'TOption', 'list': 'TList'}
T2 = {'pair': 'TPair', 'big_map': 'TBigMap', 'lambda': 'TLambda'}

UNIT, INT, NAT, STRING, MUTEZ, OPERATION, BOOL = ('unit',), ('int',), ('nat',), ('string',), ('mutez',), ('operation',), ('bool',)


def lam(a, r): return ('lambda', a, r)


def pair(a, b): return ('pair', a, b)
def option(a): return ('option', a)
def lst(a): return ('list', a)
def big_map(k, v): return ('big_map', k, v)


def ty_text(t, top=True):
    if len(t) == 1:
        return t[0]
    s = t[0] + ' ' + ' '.join(ty_text(x, False) for x in t[1:])
    return s if top else f'({s})'


def ty_coq(t):
    if len(t) == 1:
        return T0[t[0]]
    return '(' + (T1 if len(t) == 2 else T2)[t[0]] + ' ' + ' '.join(ty_coq(x) for x in t[1:]) + ')'


def xlist(ty, items):
    """list literal with explicit constructors and type (coqc elaborates it about three times faster than [a; b])"""
    out = f'(@nil {ty})'
    for x in reversed(list(items)):
        out = f'(@cons {ty} {x} {out})'
    return out


def xnode(m):
    """lib.cnode with explicit list constructors"""
    if isinstance(m, list):
        return '(NSeq ' + xlist('node', (xnode(x) for x in m)) + ')'
    if 'int' in m:
        return f'(NInt {cZ(int(m["int"]))})'
    if 'string' in m:
        return f'(NStr {lib.chex(m["string"].encode("utf-8"))})'
    if 'bytes' in m:
        return f'(NByt {lib.chex(bytes.fromhex(m["bytes"]))})'
    args = xlist('node', (xnode(x) for x in m.get('args', []) or []))
    annots = xlist('bytes', (lib.chex(a.encode('utf-8')) for a in m.get('annots', []) or []))
    return f'(NPrim {lib.cbyte(lib.prim_tag(m["prim"]))} {args} {annots})'


def ty_of_expr(e):
    """Micheline type expression (pytezos) -> type AST, None when outside the modelled types"""
    p = e.get('prim')
    args = e.get('args', [])
    if e.get('annots'):
        return None
    if p in T0 and not args:
        return (p,)
    if (p in T1 and len(args) == 1) or (p in T2 and len(args) == 2):
        sub = [ty_of_expr(a) for a in args]
        return None if any(s is None for s in sub) else (p, *sub)
    return None


def lit_text(j, top=True):
    if isinstance(j, list):
        return '{ ' + ' ; '.join(lit_text(x) for x in j) + ' }' if j else '{}'
    if 'int' in j:
        return j['int']
    if 'string' in j:
        return '"' + j['string'] + '"'
    args = j.get('args', [])
    if not args:
        return j['prim']
    s = j['prim'] + ' ' + ' '.join(lit_text(x, False) for x in args)
    return s if top else f'({s})'


def J(v):
    """python shorthand -> Micheline JSON: int, str, None/('some', x), (a, b) pairs, 'Unit', lists, ('elt', k, v)"""
    if isinstance(v, bool):
        return {'prim': 'True' if v else 'False'}
    if isinstance(v, int):
        return {'int': str(v)}
    if isinstance(v, str):
        return {'string': v}
    if v is None:
        return {'prim': 'None'}
    if isinstance(v, list):
        return [J(x) for x in v]
    if isinstance(v, tuple) and v and v[0] == 'unit':
        return {'prim': 'Unit'}
    if isinstance(v, tuple) and v and v[0] == 'some':
        return {'prim': 'Some', 'args': [J(v[1])]}
    if isinstance(v, tuple) and v and v[0] == 'elt':
        return {'prim': 'Elt', 'args': [J(v[1]), J(v[2])]}
    if isinstance(v, tuple) and v and v[0] == 'raw':
        return v[1]
    if isinstance(v, tuple) and len(v) == 2:
        return {'prim': 'Pair', 'args': [J(v[0]), J(v[1])]}
    raise AssertionError(v)


M0 = {'DROP': 'MDrop', 'DUP': 'MDup', 'SWAP': 'MSwap', 'PAIR': 'MPair', 'UNPAIR': 'MUnpair', 'CAR': 'MCar', 'CDR': 'MCdr',
      'SOME': 'MSome', 'UNIT': 'MUnit', 'UPDATE': 'MUpdate', 'GET': 'MGet', 'GET_AND_UPDATE': 'MGetAndUpdate', 'ADD': 'MAdd',
      'FAILWITH': 'MFailwith', 'APPLY': 'MApply', 'CONS': 'MCons'}
MT = {'NONE': 'MNone', 'NIL': 'MNil'}
I0 = {'COMMIT': 'ICommit', 'BIG_MAP_DIFF': 'IBigMapDiff', 'RESET': 'IReset'}


def is_m(i):
    return i[0] in M0 or i[0] in MT or i[0] in ('PUSH', 'EMPTY_BIG_MAP', 'DIP', 'IF_NONE', 'DIPN', 'IF', 'LOOP', 'LAMBDA', 'EXEC', 'PATCH', 'SEQ', 'ITER', 'IF_CONS', 'MAP')


def body_text(b):
    return '{ ' + ' ; '.join(m_text(x) for x in b) + ' }' if b else '{}'


def m_text(i):
    op = i[0]
    if op == 'PUSH':
        return f'PUSH {ty_text(i[1], False)} {lit_text(i[2], False)}'
    if op in MT:
        return f'{op} {ty_text(i[1], False)}'
    if op == 'EMPTY_BIG_MAP':
        return f'EMPTY_BIG_MAP {ty_text(i[1], False)} {ty_text(i[2], False)}'
    if op == 'DIP':
        return f'DIP {body_text(i[1])}'
    if op in ('IF_NONE', 'IF', 'IF_CONS'):
        return f'{op} {body_text(i[1])} {body_text(i[2])}'
    if op in ('ITER', 'MAP'):
        return f'{op} {body_text(i[1])}'
    if op == 'DIPN':
        return f'DIP {i[1]} {body_text(i[2])}'
    if op == 'LOOP':
        return f'LOOP {body_text(i[1])}'
    if op == 'SEQ':
        return body_text(i[1])
    if op == 'LAMBDA':
        return f'LAMBDA {ty_text(i[1], False)} {ty_text(i[2], False)} {body_text(i[3])}'
    if op == 'PATCH':
        return f'PATCH {i[1]}' + ('' if i[2] is None else f' {i[2]}')
    return op


def m_coq(i):
    op = i[0]
    if op == 'PUSH':
        return f'(MPush {ty_coq(i[1])} {xnode(i[2])})'
    if op in MT:
        return f'({MT[op]} {ty_coq(i[1])})'
    if op == 'EMPTY_BIG_MAP':
        return f'(MEmptyBigMap {ty_coq(i[1])} {ty_coq(i[2])})'
    if op == 'DIP':
        return f'(MDip {xlist('minstr', (m_coq(x) for x in i[1]))})'
    if op in ('ITER', 'MAP'):
        return f'({"MIter" if op == "ITER" else "MMap"} {xlist('minstr', (m_coq(x) for x in i[1]))})'
    if op in ('IF_NONE', 'IF', 'IF_CONS'):
        ctor = {'IF_NONE': 'MIfNone', 'IF': 'MIf', 'IF_CONS': 'MIfCons'}[op]
        return f'({ctor} {xlist('minstr', (m_coq(x) for x in i[1]))} {xlist('minstr', (m_coq(x) for x in i[2]))})'
    if op == 'DIPN':
        return f'(MDipN {lib.cnat(i[1])} {xlist('minstr', (m_coq(x) for x in i[2]))})'
    if op == 'LOOP':
        return f'(MLoop {xlist('minstr', (m_coq(x) for x in i[1]))})'
    if op == 'SEQ':
        return f'(MSeq {xlist('minstr', (m_coq(x) for x in i[1]))})'
    if op == 'LAMBDA':
        return f'(MLambda {ty_coq(i[1])} {ty_coq(i[2])} {xlist('minstr', (m_coq(x) for x in i[3]))})'
    if op == 'EXEC':
        return 'MExec'
    if op == 'PATCH':
        f = {'AMOUNT': 'PAmount', 'BALANCE': 'PBalance', 'NOW': 'PNow'}[i[1]]
        return f'(MPatch {f} {lib.copt(None if i[2] is None else cZ(i[2]))})'
    return M0[op]


def i_text(i):
    op = i[0]
    if is_m(i):
        return m_text(i)
    if op in ('parameter', 'storage'):
        return f'{op} {ty_text(i[1], False)}'
    if op == 'code':
        return 'code { ' + ' ; '.join(m_text(x) for x in i[1]) + ' }'
    if op == 'BEGIN':
        return f'BEGIN {lit_text(i[1], False)} {lit_text(i[2], False)}'
    if op == 'RUN':
        return f'RUN %default {lit_text(i[1], False)} {lit_text(i[2], False)}'
    return op


def i_coq(i):
    op = i[0]
    if is_m(i):
        return f'(IM {m_coq(i)})'
    if op == 'parameter':
        return f'(IParameter {ty_coq(i[1])})'
    if op == 'storage':
        return f'(IStorage {ty_coq(i[1])})'
    if op == 'code':
        return f'(ICode {xlist('minstr', (m_coq(x) for x in i[1]))})'
    if op == 'BEGIN':
        return f'(IBegin {xnode(i[1])} {xnode(i[2])})'
    if op == 'RUN':
        return f'(IRun {xnode(i[1])} {xnode(i[2])})'
    return I0[op]


# a cell is {'bad': text} (does not parse / match) or {'code': [instr...], 'braces': bool}
def cell_text(c):
    if 'bad' in c:
        return c['bad']
    if 'crash' in c:
        return c['crash']
    if 'text' in c:
        return c['text']   # verbatim cell (witnesses of findings/C22.json; oracle (B) only)
    if not c['code']:
        return '{}'   # the empty text itself is a malformed expression
    body = ' ; '.join(i_text(i) for i in c['code'])
    lone_code = len(c['code']) == 1 and c['code'][0][0] == 'code'   # a bare `code {..}` cell would *run* the body
    return '{ ' + body + ' }' if (c.get('braces') or lone_code) else body


def cell_coq(c):
    if 'crash' in c:
        return 'CCrash'
    return 'CBad' if 'bad' in c else f'(CCode {xlist("instr", (i_coq(i) for i in c["code"]))})'


# ---------------------------------------------------------------------------------------------
# running the real interpreter and observing it
# ---------------------------------------------------------------------------------------------
def jkey(j):
    if 'int' in j:
        return (0, int(j['int']))
    if 'string' in j:
        return (0, j['string'].encode())
    if j['prim'] == 'Some':
        return (1, jkey(j['args'][0]))
    return (0, *[jkey(a) for a in j.get('args', [])])


def nint(n):
    return {'int': str(int(n))}


def walk_handles(x, acc):
    from pytezos.michelson.types import BigMapType, OptionType, PairType
    if isinstance(x, BigMapType):
        acc.append(x)
    elif isinstance(x, PairType):
        for y in x.items:
            walk_handles(y, acc)
    elif isinstance(x, OptionType):
        if x.item is not None:
            walk_handles(x.item, acc)


def obs_diffs(lazy_diff):
    out = []
    for d in lazy_diff:
        assert d['kind'] == 'big_map'
        body = d['diff']
        act = {'alloc': 0, 'update': 1, 'copy': 2}[body['action']]
        ups = body['updates']
        sets = [[u['key'], [u['value']]] for u in ups if 'value' in u]
        rems = sorted(([u['key'], []] for u in ups if 'value' not in u), key=lambda e: jkey(e[0]))
        assert [('value' in u) for u in ups] == [True] * len(sets) + [False] * len(rems), 'removals are listed last'
        tys = [[body['key_type'], body['value_type']]] if 'key_type' in body else []
        out.append([nint(d['id']), nint(act), sets + rems, tys])
    return out


def walk_outputs(ins, out):
    """CommitInstruction / RunInstruction / BigMapDiffInstruction instances inside result.instructions"""
    if ins is None:
        return
    name = next((cls.__name__ for cls in type(ins).__mro__
                 if cls.__name__ in ('CommitInstruction', 'RunInstruction', 'BigMapDiffInstruction')), None)
    if name == 'CommitInstruction':
        out.append([nint(0), obs_diffs(ins.lazy_diff), ins.result.to_micheline_value()])
    elif name == 'RunInstruction':
        out.append([nint(1), obs_diffs(ins.lazy_diff), ins.result.to_micheline_value()])
    elif name == 'BigMapDiffInstruction':
        out.append([nint(2), obs_diffs(ins.lazy_diff)])
    items = getattr(ins, 'items', None)
    if isinstance(items, list):
        for sub in items:
            if not isinstance(sub, (list, tuple, dict, str, int)):
                walk_outputs(sub, out)


def obs_ctx(c, bodies):
    par = [c.parameter_expr['args'][0]] if c.parameter_expr else []
    sto = [c.storage_expr['args'][0]] if c.storage_expr else []
    code = []
    if c.code_expr:
        k = json.dumps(c.code_expr['args'][0], sort_keys=True)
        code = [nint(bodies.index(k) if k in bodies else len(bodies))]
    table = [[nint(p), nint(src), nint(1 if cp else 0)] for p, (src, cp) in sorted(c.big_maps.items())]
    def opt(v):
        return [] if v is None else [nint(v)]
    return [par, sto, code, nint(c.tmp_big_map_index), nint(c.alloc_big_map_index), table, opt(c.amount), opt(c.balance), opt(c.now)]


def mark_lambdas(t, j, bodies):
    """Micheline value j of type t (type AST) with every lambda replaced by [index of its body] (Repl.v lamf)"""
    if t is None:
        return j
    if t[0] == 'lambda':
        k = json.dumps(j, sort_keys=True)
        return [nint(bodies.index(k) if k in bodies else len(bodies))]
    if t[0] == 'pair' and isinstance(j, dict) and j.get('prim') == 'Pair':
        args = j['args']
        if len(args) == 2:
            return {'prim': 'Pair', 'args': [mark_lambdas(t[1], args[0], bodies), mark_lambdas(t[2], args[1], bodies)]}
        rest = mark_lambdas(t[2], {'prim': 'Pair', 'args': args[1:]}, bodies)
        return {'prim': 'Pair', 'args': [mark_lambdas(t[1], args[0], bodies)] + rest['args']}
    if t[0] == 'option' and isinstance(j, dict) and j.get('prim') == 'Some':
        return {'prim': 'Some', 'args': [mark_lambdas(t[1], j['args'][0], bodies)]}
    return j


def has_lambda(t):
    return t is not None and (t[0] == 'lambda' or any(has_lambda(x) for x in t[1:] if isinstance(x, tuple)))


def obs_stack(interp, ctxs, with_ctx=True, bodies=None):
    items = []
    for x in interp.stack.items:
        hs = []
        walk_handles(x, hs)
        hobs = []
        for h in hs:
            idx = next((i for i, c in enumerate(ctxs) if c is h.context), 4999) if with_ctx else 0
            its = [[k.to_micheline_value(), v.to_micheline_value()] for k, v in h.items]
            rem = sorted((k.to_micheline_value() for k in h.removed_keys), key=jkey)
            hobs.append([nint(h.ptr), nint(idx), its, rem])
        texpr = type(x).as_micheline_expr()
        val = x.to_micheline_value()
        if bodies is not None:
            t = ty_of_expr(texpr)
            if has_lambda(t):
                val = mark_lambdas(t, val, bodies)
        items.append([texpr, val, hobs])
    return items


def ctx_fields(c):
    """every field of the ExecutionContext, for oracle (B)"""
    return {k: copy.deepcopy(v) for k, v in vars(c).items()}


def run_session(cells, bodies):
    """Run the cells on a fresh real Interpreter. Returns per-cell records and the model-shaped observation."""
    from pytezos.michelson.repl import Interpreter
    interp = Interpreter()
    ctxs = [interp.context]
    steps, recs = [], []
    for c in cells:
        try:
            res = interp.execute(cell_text(c))
        except Exception as e:   # noqa: BLE001  parse.py:p_error on unexpected end of input: MichelsonParserError(None) crashes
            res = Escaped(e)
        if not any(interp.context is k for k in ctxs):
            ctxs.append(interp.context)
        failed = res.error is not None
        outs = []
        if not failed:
            walk_outputs(res.instructions, outs)
        cur = next(i for i, k in enumerate(ctxs) if k is interp.context)
        r = [nint(0)] if failed else [nint(1), outs]
        steps.append([r, obs_stack(interp, ctxs, bodies=bodies), nint(cur), obs_ctx(interp.context, bodies)])
        recs.append({'failed': failed, 'outs': outs, 'stdout': None if failed else list(res.stdout),
                     'stack': obs_stack(interp, ctxs, with_ctx=False) + [interp.stack.protected], 'ctx': ctx_fields(interp.context),
                     'attached': all(h_ctx_is(interp, x) for x in interp.stack.items),
                     'error': repr(res.error)[:160] if failed else None})
    cur = next(i for i, k in enumerate(ctxs) if k is interp.context)
    stale = [[nint(i), obs_ctx(k, bodies)] for i, k in reversed(list(enumerate(ctxs))) if i != cur]
    return recs, steps + [stale]


class Escaped:
    """an exception that escaped Interpreter.execute (only the parser's end-of-input crash is tolerated)"""
    def __init__(self, e):
        self.error = e
        self.stdout = []
        self.instructions = None


def h_ctx_is(interp, x):
    hs = []
    walk_handles(x, hs)
    return all(h.context is interp.context for h in hs)


def oracle(cells, bodies, recs=None):
    """(B): session with failing cells vs the session without them. Returns (reason or None, recs)."""
    if recs is None:
        recs, _ = run_session(cells, bodies)
    kept = [c for c, r in zip(cells, recs) if not r['failed']]
    recs2, _ = run_session(kept, bodies)
    good = [r for r in recs if not r['failed']]
    for j, (a, b) in enumerate(zip(good, recs2)):
        if b['failed']:
            return f'cell {j} of the session without the failing cells fails ({b["error"]}) but succeeded in the full session', recs
        for field, what in (('outs', 'lazy diffs / results'), ('stack', 'stack'), ('stdout', 'stdout'), ('ctx', 'context fields')):
            if a[field] != b[field]:
                x, y = a[field], b[field]
                if field == 'ctx':
                    keys = sorted(k for k in set(x) | set(y) if x.get(k) != y.get(k))
                    x, y = {k: x.get(k) for k in keys}, {k: y.get(k) for k in keys}
                return (f'{what} after surviving cell {j} differ between the session with failing cells and the session without them: '
                        f'{json.dumps(x, default=repr)[:300]} vs {json.dumps(y, default=repr)[:300]}'), recs
    # a failing cell must leave stack and context as they were
    prev = None
    for i, r in enumerate(recs):
        if r['failed'] and prev is not None and (r['stack'] != prev['stack'] or r['ctx'] != prev['ctx']):
            return f'stack or context changed across failing cell {i}', recs
        if not r['attached']:
            return f'after cell {i} a big_map on the stack is attached to a context that is not the interpreter\'s', recs
        prev = r
    if recs and good and recs[-1]['stack'] != recs2[-1]['stack']:
        return 'final stacks differ', recs
    return None, recs


# ---------------------------------------------------------------------------------------------
# generators
# ---------------------------------------------------------------------------------------------
KEY_TYPES = [STRING, INT, NAT, pair(INT, STRING)]
VAL_TYPES = [INT, NAT, STRING, UNIT, option(INT), pair(NAT, STRING)]


def gen_lit(rng, t):
    k = t[0]
    if k == 'unit':
        return ('unit',)
    if k == 'int':
        return rng.choice([0, 1, -1, 2, 7, -5, 100, 2 ** 64])
    if k == 'nat':
        return rng.choice([0, 1, 2, 3, 9, 2 ** 63])
    if k == 'bool':
        return rng.random() < 0.5
    if k == 'mutez':
        return rng.choice([0, 1, 5, 2 ** 63 - 1])
    if k == 'string':
        return rng.choice(['a', 'b', 'c', 'ab', '', 'zz'])
    if k == 'pair':
        return (gen_lit(rng, t[1]), gen_lit(rng, t[2]))
    if k == 'option':
        return None if rng.random() < 0.3 else ('some', gen_lit(rng, t[1]))
    if k == 'list':
        if t[1][0] in ('int', 'nat', 'string', 'unit', 'mutez', 'bool') and rng.random() < 0.7:
            return [gen_lit(rng, t[1]) for _ in range(rng.randrange(1, 4))]
        return []
    raise AssertionError(t)


def gen_bm_lit(rng, t, ids):
    """literal for a parameter / storage type that may contain big_maps"""
    k = t[0]
    if k == 'big_map':
        r = rng.random()
        if r < 0.4:
            return []
        if r < 0.7:
            return ('raw', {'int': str(rng.choice(ids))})
        keys = sorted({json.dumps(J(gen_lit(rng, t[1])), sort_keys=True) for _ in range(rng.randrange(1, 4))},
                      key=lambda s: jkey(json.loads(s)))
        return [('elt', ('raw', json.loads(s)), gen_lit(rng, t[2])) for s in keys]
    if k == 'pair':
        return (gen_bm_lit(rng, t[1], ids), gen_bm_lit(rng, t[2], ids))
    if k == 'option':
        return None if rng.random() < 0.25 else ('some', gen_bm_lit(rng, t[1], ids))
    return gen_lit(rng, t)


def storage_types(rng):
    k, v = rng.choice(KEY_TYPES), rng.choice(VAL_TYPES)
    bm = big_map(k, v)
    return rng.choice([bm, bm, pair(bm, NAT), pair(NAT, bm), option(bm), pair(bm, big_map(rng.choice(KEY_TYPES), INT)), NAT,
                       pair(bm, bm)])


def param_types(rng):
    bm = big_map(rng.choice(KEY_TYPES), rng.choice(VAL_TYPES))
    return rng.choice([UNIT, UNIT, INT, bm, pair(INT, bm), option(bm)])


def has_bm(t):
    return t[0] == 'big_map' or any(has_bm(x) for x in t[1:] if isinstance(x, tuple))


def build(rng, t, st):
    """instructions that put a value of type t on top, consuming a matching value from the top of the symbolic
    stack when there is one; returns the instruction list (st is updated)"""
    if st and st[0] == t and rng.random() < 0.85:
        return []
    k = t[0]
    if k == 'big_map':
        st.insert(0, t)
        return [('EMPTY_BIG_MAP', t[1], t[2])]
    if k == 'pair':
        b = build(rng, t[2], st)
        a = build(rng, t[1], st)
        if len(st) >= 2 and st[0] == t[1] and st[1] == t[2]:
            st[0:2] = [t]
            return b + a + [('PAIR',)]
        if len(st) >= 2 and st[0] == t[2] and st[1] == t[1]:
            st[0:2] = [t]
            return b + a + [('SWAP',), ('PAIR',)]
        st.insert(0, t)
        return b + a + [('PAIR',)]
    if k == 'option' and has_bm(t):
        if rng.random() < 0.3:
            st.insert(0, t)
            return [('NONE', t[1])]
        a = build(rng, t[1], st)
        st[0] = t
        return a + [('SOME',)]
    st.insert(0, t)
    return [('PUSH', t, J(gen_lit(rng, t)))]


def phrase_update(rng, st):
    """UPDATE / GET / GET_AND_UPDATE on the big_map on top of the symbolic stack"""
    _, kt, vt = st[0]
    key = J(gen_lit(rng, kt))
    r = rng.random()
    if r < 0.5:
        val = [('PUSH', vt, J(gen_lit(rng, vt))), ('SOME',)] if rng.random() < 0.9 else [('PUSH', STRING, J('oddly typed')), ('SOME',)]
        return val + [('PUSH', kt, key), ('UPDATE',)]
    if r < 0.7:
        return [('NONE', vt), ('PUSH', kt, key), ('UPDATE',)]
    if r < 0.8:
        return [('DUP',), ('PUSH', kt, key), ('GET',), ('DROP',)]
    if r < 0.9:
        pre = [('NONE', vt)] if rng.random() < 0.5 else [('PUSH', vt, J(gen_lit(rng, vt))), ('SOME',)]
        return pre + [('PUSH', kt, key), ('GET_AND_UPDATE',), ('DROP',)]
    wrong = INT if kt != INT else STRING
    return [('PUSH', vt, J(gen_lit(rng, vt))), ('SOME',), ('PUSH', wrong, J(gen_lit(rng, wrong))), ('UPDATE',)]   # ill-typed key


def phrase_nested(rng, st, exact=False):
    """DIP / IF_NONE phrases whose bodies touch the context or big_maps; st is the symbolic stack (updated)"""
    r = rng.random()
    if r < 0.5 and st:
        # DIP over the top element: the body works on what is below
        below = st[1:]
        if below and below[0][0] == 'big_map' and rng.random() < 0.7:
            body = phrase_update(rng, below)
        elif rng.random() < 0.5:
            k, v = rng.choice(KEY_TYPES), rng.choice(VAL_TYPES)
            body = [('EMPTY_BIG_MAP', k, v)]
            below.insert(0, big_map(k, v))
        else:
            body = [('PUSH', INT, J(gen_lit(rng, INT))), ('DROP',)]
        if exact and len(below) >= 1 and rng.random() < 0.4:   # only when the stack is known exactly (see MDip in Repl.v)
            body = [('DIP', [('UNIT',), ('DROP',)])] + body     # nested DIP, an element is visible below
        st[1:] = below
        return [('DIP', body)]
    # IF_NONE on a pushed option or on the result of a GET
    k, v = rng.choice(KEY_TYPES), rng.choice(VAL_TYPES)
    mk = [('EMPTY_BIG_MAP', k, v), ('DROP',)]
    if st and st[0][0] == 'big_map' and rng.random() < 0.6:
        _, kt, vt = st[0]
        return [('DUP',), ('PUSH', kt, J(gen_lit(rng, kt))), ('GET',),
                ('IF_NONE', mk if rng.random() < 0.5 else [], [('DROP',)] + (mk if rng.random() < 0.5 else []))]
    lit = gen_lit(rng, option(NAT))
    return [('PUSH', option(NAT), J(lit)), ('IF_NONE', mk, [('DROP',)])]


def nested_sites(code):
    """paths to the instruction lists inside DIP / DIP n / IF / IF_NONE / LOOP / LAMBDA bodies of a cell"""
    out = []
    for idx, i in enumerate(code):
        if i[0] in ('DIP', 'LOOP', 'ITER', 'MAP'):
            out.append((idx, 1))
        elif i[0] in ('IF_NONE', 'IF', 'IF_CONS'):
            out += [(idx, 1), (idx, 2)]
        elif i[0] == 'DIPN':
            out.append((idx, 2))
        elif i[0] == 'LAMBDA':
            out.append((idx, 3))
    return out


def neutral_body(rng):
    """a body that leaves the visible stack as it found it but may touch the context"""
    k, v = rng.choice(KEY_TYPES), rng.choice(VAL_TYPES)
    return rng.choice([
        [('EMPTY_BIG_MAP', k, v), ('DROP',)],
        [('EMPTY_BIG_MAP', k, v), ('PUSH', v, J(gen_lit(rng, v))), ('SOME',), ('PUSH', k, J(gen_lit(rng, k))), ('UPDATE',), ('DROP',)],
        [('PATCH', rng.choice(['AMOUNT', 'BALANCE', 'NOW']), rng.choice([None, 0, 5, 77]))],
        [('PUSH', INT, J(1)), ('DROP',)],
        [],
    ])


def phrase_control(rng, st, exact=False):
    """IF / LOOP / DIP n / PATCH phrases (stack-neutral)"""
    r = rng.random()
    if r < 0.25:
        return [('PATCH', rng.choice(['AMOUNT', 'BALANCE', 'NOW']), rng.choice([None, 0, 5, 1234, -3]))]
    if r < 0.5:
        return [('PUSH', BOOL, J(rng.random() < 0.5)), ('IF', neutral_body(rng), neutral_body(rng))]
    if r < 0.75:
        if rng.random() < 0.5:
            return [('PUSH', BOOL, J(True)), ('LOOP', neutral_body(rng) + [('PUSH', BOOL, J(False))])]
        return [('PUSH', BOOL, J(False)), ('PUSH', BOOL, J(True)), ('PUSH', BOOL, J(True)), ('LOOP', neutral_body(rng))]
    if r < 0.85:
        et = rng.choice([NAT, INT, STRING, BOOL])
        lit = J(gen_lit(rng, lst(et)))
        q = rng.random()
        if q < 0.4:
            return [('PUSH', lst(et), lit), ('ITER', [('DROP',)] + neutral_body(rng))]
        if q < 0.7:
            return [('PUSH', lst(et), lit), ('IF_CONS', [('DROP',), ('DROP',)] + neutral_body(rng), neutral_body(rng))]
        if q < 0.85:
            return [('PUSH', lst(et), lit), ('PUSH', et, J(gen_lit(rng, et))), ('CONS',), ('ITER', [('DROP',)])]
        mb = rng.choice([neutral_body(rng), [('DROP',), ('PUSH', STRING, J('m'))], [('DIP', neutral_body(rng))]])
        return [('PUSH', lst(et), lit), ('MAP', mb), ('DROP',)]
    if exact and len(st) >= 1:
        n = rng.randrange(0, len(st) + 1)
        return [('DIPN', n, neutral_body(rng))]
    return [('DIPN', 0, neutral_body(rng))]


def lambda_setup(rng):
    """(LAMBDA instruction whose body touches the context, instructions pushing an argument)"""
    k, v = rng.choice([STRING, NAT, INT]), rng.choice([NAT, INT, STRING])
    bm = big_map(k, v)
    r = rng.random()
    if r < 0.35:
        return ('LAMBDA', UNIT, bm, [('DROP',), ('EMPTY_BIG_MAP', k, v)]), [('UNIT',)]
    if r < 0.45:
        # to be APPLY-ed by the caller: see [closure_cell]
        return ('LAMBDA', pair(NAT, UNIT), bm, [('DROP',), ('EMPTY_BIG_MAP', k, v)]), None
    if r < 0.55:
        return (('LAMBDA', v, bm, [('EMPTY_BIG_MAP', k, v), ('SWAP',), ('SOME',), ('PUSH', k, J(gen_lit(rng, k))), ('UPDATE',)]),
                [('PUSH', v, J(gen_lit(rng, v)))])
    if r < 0.7:
        return ('LAMBDA', UNIT, UNIT, [('PATCH', 'AMOUNT', 5)]), [('UNIT',)]
    if r < 0.85:
        return (('LAMBDA', bm, bm, [('PUSH', v, J(gen_lit(rng, v))), ('SOME',), ('PUSH', k, J(gen_lit(rng, k))), ('UPDATE',)]),
                [('EMPTY_BIG_MAP', k, v)])
    return ('LAMBDA', UNIT, UNIT, [('PUSH', BOOL, J(True)), ('IF', [('EMPTY_BIG_MAP', NAT, NAT), ('DROP',)], [])]), [('UNIT',)]


IND_FAILS = [[('UNIT',), ('FAILWITH',)], [('PUSH', INT, J(1)), ('CAR',)], [('DROP',), ('DROP',), ('DROP',)],
             [('PUSH', STRING, J('a')), ('PUSH', INT, J(1)), ('ADD',)], [('PUSH', MUTEZ, J(2 ** 63 - 1)), ('PUSH', MUTEZ, J(1)), ('ADD',)]]


def indirect_ast_session(rng):
    """the modelled version of [indirect_session]: a lambda with a context effect is stored by one cell, later cells
    EXEC it directly or from DIP / DIP n / IF / IF_NONE / LOOP bodies without naming a context primitive, and fail or not"""
    lam_i, arg = lambda_setup(rng)
    body = [('DUP',)] + (arg or [('UNIT',)]) + [('EXEC',), ('DROP',)]       # [lambda] -> [lambda]
    wraps = [body, body, [('UNIT',), ('DIP', body), ('DROP',)], [('UNIT',), ('UNIT',), ('DIPN', 2, body), ('DROP',), ('DROP',)],
             [('PUSH', BOOL, J(True)), ('IF', body, [])], [('PUSH', option(NAT), J(None)), ('IF_NONE', body, [('DROP',)])],
             [('PUSH', BOOL, J(True)), ('LOOP', body + [('PUSH', BOOL, J(False))])],
             [('PUSH', BOOL, J(False)), ('PUSH', BOOL, J(True)), ('PUSH', BOOL, J(True)), ('LOOP', body)], body + body,
             [('PUSH', lst(NAT), J([1, 2])), ('ITER', [('DROP',)] + body)],
             [('PUSH', lst(STRING), J(['a'])), ('IF_CONS', [('DROP',), ('DROP',)] + body, [])],
             [('PUSH', lst(NAT), J([7])), ('MAP', [('DIP', body)]), ('DROP',)]]
    cells = []
    if rng.random() < 0.4:
        cells.append({'code': rng.choice([[('EMPTY_BIG_MAP', NAT, NAT), ('DROP',)], [('storage', big_map(STRING, NAT)), ('parameter', UNIT)],
                                          [('PATCH', 'AMOUNT', 1)]])})
    if arg is None:
        cells.append({'code': [lam_i, ('PUSH', NAT, J(rng.choice([0, 3, 9]))), ('APPLY',)]})    # an APPLY-ed closure
        arg = [('UNIT',)]
        body = [('DUP',)] + arg + [('EXEC',), ('DROP',)]
        wraps = [body, [('UNIT',), ('DIP', body), ('DROP',)], [('PUSH', BOOL, J(True)), ('IF', body, [])],
                 [('PUSH', BOOL, J(True)), ('LOOP', body + [('PUSH', BOOL, J(False))])], body + body]
    else:
        cells.append({'code': [lam_i]})
    for _ in range(rng.randrange(2, 6)):
        w = list(rng.choice(wraps))
        if rng.random() < 0.5:
            w = w + rng.choice(IND_FAILS)
        cells.append({'code': w, 'braces': rng.random() < 0.3})
    ret = lam_i[2]
    if ret[0] == 'big_map':
        # run it once more and commit the big_map it returns: the ids handed out after the failures become visible
        cells.append({'code': arg + [('EXEC',)]})
        cells.append({'code': [('storage', ret), ('parameter', UNIT)]})
        cells.append({'code': [('NIL', OPERATION), ('PAIR',), ('COMMIT',)]})
    else:
        cells.append({'code': [('DROP',), ('EMPTY_BIG_MAP', STRING, NAT), ('storage', big_map(STRING, NAT)), ('parameter', UNIT)]})
        cells.append({'code': [('NIL', OPERATION), ('PAIR',), ('COMMIT',)]})
    return cells


FAIL_KINDS = ['failwith', 'failwith_empty', 'illtyped_car', 'illtyped_add', 'underflow', 'mutez_overflow', 'bad_literal', 'bad_push_type',
              'parse', 'parse_eof', 'unknown_prim', 'wrong_arity', 'invalid_type', 'begin_undeclared_or_bad', 'commit_bad']


def failing(rng, kind):
    """(instructions that raise, or None with a text suffix that makes the cell unparsable)"""
    if kind == 'failwith':
        return [('PUSH', STRING, J('boom')), ('FAILWITH',)]
    if kind == 'failwith_empty':
        return [('UNIT',), ('FAILWITH',)]
    if kind == 'illtyped_car':
        return [('PUSH', INT, J(1)), ('CAR',)]
    if kind == 'illtyped_add':
        return [('PUSH', STRING, J('a')), ('PUSH', INT, J(1)), ('ADD',)]
    if kind == 'underflow':
        return [('PUSH', INT, J(1)), ('PUSH', INT, J(1)), ('PAIR',), ('UNPAIR',), ('DROP',), ('DROP',)] + [('DROP',)] * 12
    if kind == 'mutez_overflow':
        return [('PUSH', MUTEZ, J(2 ** 63 - 1)), ('PUSH', MUTEZ, J(rng.choice([1, 2 ** 62]))), ('ADD',)]
    if kind == 'bad_literal':
        return [rng.choice([('PUSH', NAT, J(-1)), ('PUSH', INT, J('a')), ('PUSH', MUTEZ, J(2 ** 63)), ('PUSH', UNIT, J(0)),
                            ('PUSH', option(INT), J((1, 2))), ('PUSH', pair(INT, INT), J(('some', 1)))])]
    if kind == 'bad_push_type':
        return [rng.choice([('PUSH', big_map(INT, INT), J([])), ('PUSH', OPERATION, J(0)), ('PUSH', lst(OPERATION), J([]))])]
    if kind == 'invalid_type':
        return [rng.choice([('EMPTY_BIG_MAP', lst(INT), INT), ('NONE', big_map(big_map(INT, INT), INT)), ('NIL', big_map(OPERATION, INT)),
                            ('EMPTY_BIG_MAP', option(lst(NAT)), INT)])]
    if kind == 'begin_undeclared_or_bad':
        return [('BEGIN', J('not'), J('typed'))]
    if kind == 'commit_bad':
        return [('PUSH', INT, J(1)), ('COMMIT',)]
    return None


BAD_TEXT = {'parse': [' ; PUSH @@ 1', ' } ;', ' ; PUSH int "unterminated', ' ; ( ;'],
            'parse_eof': [' ; {', ' ; PUSH (pair int', ' ; PUSH int (', ' ; code { DROP'],
            'unknown_prim': [' ; FOO', ' ; push int 1'],
            'wrong_arity': [' ; PUSH int', ' ; DROP 1 2 3', ' ; NIL', ' ; EMPTY_BIG_MAP string']}


def gen_cell(rng, view):
    """one cell, chosen from what the live interpreter shows: view = (stack types, param ty, storage ty, has code)"""
    st, pty, sty, has_code = view
    st = list(st)
    code = []
    n = rng.choice([1, 1, 2, 2, 3])
    for _ in range(n):
        r = rng.random()
        top = st[0] if st else None
        if (pty is None or sty is None) and r < 0.6:
            sty, pty = storage_types(rng), param_types(rng)
            code += [('storage', sty), ('parameter', pty)]
            if rng.random() < 0.5:
                code.reverse()
        elif r < 0.06:
            sty = storage_types(rng)
            code.append(('storage', sty))
        elif r < 0.09:
            pty = param_types(rng)
            code.append(('parameter', pty))
        elif r < 0.16 and sty is not None:
            body = [('CDR',)]
            if sty[0] == 'big_map' and rng.random() < 0.7:
                tmp = [sty]
                body += phrase_update(rng, tmp)
            if rng.random() < 0.3:
                body += [('NONE', NAT), ('IF_NONE', [('EMPTY_BIG_MAP', INT, INT), ('DROP',)], [('FAILWITH',)])]
            if rng.random() < 0.2:
                body += [('DIP', [('UNIT',), ('DROP',)] if rng.random() < 0.7 else [('FAILWITH',)])]
            body += rng.choice([[('NIL', OPERATION), ('PAIR',)], [('NIL', OPERATION), ('PAIR',)], [('FAILWITH',)], [('NIL', OPERATION), ('SWAP',), ('PAIR',)]])
            code.append(('code', body))
            has_code = True
        elif r < 0.24 and has_code and pty is not None and sty is not None:
            code.append(('RUN', J(gen_bm_lit(rng, pty, [5, 7, 0, 12])), J(gen_bm_lit(rng, sty, [5, 7, 0, 12]))))
            st = []
        elif r < 0.36 and pty is not None and sty is not None:
            code.append(('BEGIN', J(gen_bm_lit(rng, pty, [5, 7, 0, 12])), J(gen_bm_lit(rng, sty, [5, 7, 0, 12]))))
            st = [pair(pty, sty)]
            if rng.random() < 0.8:
                code.append(rng.choice([('CDR',), ('UNPAIR',)]))
                st = [sty] if code[-1] == ('CDR',) else [pty, sty]
        elif r < 0.56 and top is not None and top[0] == 'big_map':
            code += phrase_update(rng, st)
        elif top is not None and top[0] == 'lambda' and r < 0.8:
            # a stored lambda: run it (keeping a copy), directly or from a nested body; sometimes keep the result
            a = top[1]
            push_arg = [('EMPTY_BIG_MAP', a[1], a[2])] if a[0] == 'big_map' and a[1] in KEY_TYPES + [NAT, INT, STRING] else (
                [('PUSH', a, J(gen_lit(rng, a)))] if a[0] in ('unit', 'int', 'nat', 'string', 'mutez', 'pair', 'option') and not has_bm(a) else [('UNIT',)])
            body = [('DUP',)] + push_arg + [('EXEC',), ('DROP',)]
            code += rng.choice([body, [('UNIT',), ('DIP', body), ('DROP',)], [('PUSH', BOOL, J(True)), ('IF', body, [])],
                                [('PUSH', BOOL, J(True)), ('LOOP', body + [('PUSH', BOOL, J(False))])],
                                [('DUP',)] + push_arg + [('EXEC',)]])
            if code[-1] == ('EXEC',):
                st.insert(0, top[2])
        elif r < 0.60:
            code += phrase_nested(rng, st, exact=not code)
        elif r < 0.66:
            code += phrase_control(rng, st, exact=not code)
        elif r < 0.69:
            li, la = lambda_setup(rng)
            if la is None:
                code += [li, ('PUSH', NAT, J(3)), ('APPLY',)]
                st.insert(0, lam(UNIT, li[2]))
            else:
                code.append(li)
                st.insert(0, lam(li[1], li[2]))
        elif r < 0.74 and sty is not None:
            # towards COMMIT: storage value, NIL operation, PAIR, COMMIT (possibly spread over cells)
            if st == [pair(lst(OPERATION), sty)]:
                code.append(('COMMIT',))
                st = []
            elif st and st[0] == sty and rng.random() < 0.9:
                code += [('NIL', OPERATION), ('PAIR',)]
                st[0] = pair(lst(OPERATION), sty)
                if len(st) == 1 and rng.random() < 0.6:
                    code.append(('COMMIT',))
                    st = []
            else:
                while len(st) > 0 and rng.random() < 0.7 and st[0] != sty:
                    code.append(('DROP',))
                    st.pop(0)
                code += build(rng, sty, st)
        elif r < 0.80 and st:
            code.append(('BIG_MAP_DIFF',))
        elif r < 0.83:
            code.append(('RESET',))
            st = []
        elif r < 0.90:
            k, v = rng.choice(KEY_TYPES), rng.choice(VAL_TYPES)
            code.append(('EMPTY_BIG_MAP', k, v))
            st.insert(0, big_map(k, v))
        elif r < 0.94 and st:
            op = rng.choice(['DUP', 'DROP', 'SWAP', 'SOME', 'PAIR', 'UNPAIR', 'CAR', 'CDR'])
            code.append((op,))
            st = []   # symbolic stack no longer tracked inside this cell
        else:
            t = rng.choice([INT, NAT, STRING, UNIT, MUTEZ, option(NAT), pair(INT, STRING), lst(INT), lst(STRING), BOOL])
            code.append(('PUSH', t, J(gen_lit(rng, t))))
            st.insert(0, t)
    return {'code': code, 'braces': rng.random() < 0.3}


def gen_commit_cell(rng, view):
    """a cell that ends in COMMIT whatever the stack holds: keep a storage-typed top if there is one, drop the rest"""
    st, pty, sty, _ = view
    code = []
    if sty is None or pty is None:
        sty, pty = storage_types(rng), param_types(rng)
        code += [('storage', sty), ('parameter', pty)]
    st = list(st)
    if st and st[0] == sty:
        for _ in st[1:]:
            code += [('SWAP',), ('DROP',)]
        st = [sty]
    else:
        code += [('DROP',)] * len(st)
        st = []
        code += build(rng, sty, st)
    code += [('NIL', OPERATION), ('PAIR',), ('COMMIT',)]
    return {'code': code, 'braces': rng.random() < 0.3}


def inject_failure(rng, cell, kind):
    """make the cell fail at a random instruction position"""
    code = list(cell['code'])
    pos = rng.randrange(0, len(code) + 1)
    extra = failing(rng, kind)
    sites = nested_sites(code)
    if extra is not None and sites and rng.random() < 0.6 and not any(x[0] in ('BEGIN', 'COMMIT') for x in extra):
        # fail at a position inside the body of a DIP / IF_NONE
        idx, arm = rng.choice(sites)
        body = list(code[idx][arm])
        p = rng.randrange(0, len(body) + 1)
        ins = list(code[idx])
        ins[arm] = body[:p] + extra + (body[p:] if rng.random() < 0.5 else [])
        code[idx] = tuple(ins)
        return {'code': code, 'braces': cell['braces']}, idx
    if extra is not None:
        return {'code': code[:pos] + extra + (code[pos:] if rng.random() < 0.5 else []), 'braces': cell['braces']}, pos
    text = ' ; '.join(i_text(i) for i in code[:max(pos, 1)]) + rng.choice(BAD_TEXT[kind])
    return {('crash' if kind == 'parse_eof' else 'bad'): text}, pos


SWEEP_KINDS = ['failwith', 'illtyped_car', 'underflow', 'mutez_overflow', 'bad_literal', 'illtyped_add', 'invalid_type', 'commit_bad']


def position_sweep(rng, cells, limit):
    """failures at *every* instruction position of one cell: for a cell of n instructions, n+1 sessions in which the
    cell is cut at position p and continued by a failing instruction (the kinds rotate)"""
    cand = [k for k, c in enumerate(cells) if 'code' in c and len(c['code']) >= 2]
    if not cand:
        return []
    # prefer cells that touch the context
    touching = [k for k in cand if any(i[0] in ('EMPTY_BIG_MAP', 'BEGIN', 'COMMIT', 'RUN', 'BIG_MAP_DIFF', 'RESET', 'storage', 'parameter', 'code')
                                       for i in cells[k]['code'])]
    k = rng.choice(touching or cand)
    code = cells[k]['code']
    out = []
    start = rng.randrange(len(SWEEP_KINDS))
    for pos in range(len(code) + 1):
        kind = SWEEP_KINDS[(start + pos) % len(SWEEP_KINDS)]
        cut = {'code': code[:pos] + failing(rng, kind), 'braces': cells[k].get('braces', False)}
        out.append((cells[:k] + [cut] + cells[k + 1:], [f'sweep_{kind}@{min(pos, 4)}']))
        if len(out) >= limit:
            break
    return out


def live_view(interp):
    st = []
    for x in interp.stack.items:
        t = ty_of_expr(type(x).as_micheline_expr())
        st.append(t if t is not None else ('?',))
    c = interp.context
    pty = ty_of_expr(c.parameter_expr['args'][0]) if c.parameter_expr else None
    sty = ty_of_expr(c.storage_expr['args'][0]) if c.storage_expr else None
    return st, pty, sty, bool(c.code_expr)


def gen_session(rng, ncells, p_fail):
    """cells are chosen adaptively by looking at a live real interpreter"""
    from pytezos.michelson.repl import Interpreter
    interp = Interpreter()
    cells, kinds = [], []
    finish = rng.random() < 0.6
    for j in range(ncells):
        if finish and j >= ncells - 2 and j > 0:
            cell = gen_commit_cell(rng, live_view(interp))   # ids handed out after the failures become visible
        else:
            cell = gen_cell(rng, live_view(interp))
        if rng.random() < (p_fail if not (finish and j >= ncells - 2) else p_fail / 3):
            kind = rng.choice(FAIL_KINDS)
            cell, pos = inject_failure(rng, cell, kind)
            kinds.append(f'{kind}@{min(pos, 4)}')
        cells.append(cell)
        try:
            interp.execute(cell_text(cell))
        except Exception:  # noqa: BLE001
            pass
    return cells, kinds


# cells outside the modelled alphabet, spliced into generated sessions and checked by oracle (B) only:
# (text, fails?)  — stack-neutral when they succeed, so the surrounding cells keep their meaning
TZ1 = 'tz1VSUr8wwNhLAzempoch5d6hLRiTh8Cjcjb'
EXTRA_CELLS = [
    ('PATCH AMOUNT 100', False), ('PATCH NOW 1234', False), ('PATCH BALANCE 7000', False), (f'PATCH SENDER "{TZ1}"', False),
    (f'PATCH SOURCE "{TZ1}"', False), ('PATCH CHAIN_ID "NetXdQprcVkpaWU"', False), ('PATCH AMOUNT', False),
    ('AMOUNT ; DROP', False), ('NOW ; BALANCE ; DROP ; DROP', False), ('DUMP', False), ('PRINT "cell"', False),
    ('PATCH AMOUNT 5 ; UNIT ; FAILWITH', True), ('PATCH NOW 99 ; PATCH BALANCE 1 ; PUSH int 1 ; CAR', True),
    (f'PATCH SENDER "{TZ1}" ; DROP ; DROP ; DROP ; DROP ; DROP ; DROP ; DROP ; DROP ; DROP ; DROP ; DROP ; DROP', True),
    ('PATCH FOO 1', True), ('PATCH NOW "not a date"', True),
    ('PUSH int 0 ; DIP { UNIT ; FAILWITH }', True), ('PUSH int 0 ; PUSH int 1 ; DIP 2 { PUSH nat 1 ; PUSH string "a" ; ADD }', True),
    ('PUSH int 0 ; DIP { EMPTY_BIG_MAP string int ; DROP ; DROP ; DROP ; DROP ; DROP ; DROP ; DROP ; DROP ; DROP ; DROP ; DROP }', True),
    ('PUSH int 0 ; DIP { PUSH int 1 } ; DROP ; DROP', False),
    ('PUSH bool True ; IF { UNIT ; FAILWITH } { }', True), ('PUSH bool False ; IF { UNIT ; FAILWITH } { }', False),
    ('PUSH nat 300 ; PUSH nat 1 ; LSL', True), ('PUSH int 0 ; PUSH int 1 ; EDIV ; IF_NONE { UNIT ; FAILWITH } { DROP }', True),
    ('PUSH mutez 1 ; PUSH mutez 2 ; SWAP ; SUB_MUTEZ ; IF_NONE { UNIT ; FAILWITH } { DROP }', True),
    ('EMPTY_BIG_MAP nat nat ; PUSH nat 1 ; SOME ; PUSH nat 1 ; UPDATE ; DIP { UNIT } ; PUSH (option int) None ; IF_NONE { FAILWITH } { DROP }', True),
    ('DROP_ALL ; UNIT ; FAILWITH', True), ('PUSH (list int) { 1 ; 2 } ; ITER { DROP ; UNIT ; FAILWITH }', True),
    ('PUSH (list int) { 1 ; 2 } ; MAP { PUSH int 1 ; ADD } ; DROP', False),
    ('LAMBDA int int { UNIT ; FAILWITH } ; PUSH int 1 ; EXEC', True),
    # failures whose wrapped exception carries non-string args (KeyError(b'..') from a key in bytes form with an unknown
    # curve tag): MichelsonRuntimeError.format_stdout cannot join them and raises TypeError, so execute() itself raises;
    # the harness catches that, goes on with the session like a front end would, and oracle (B) demands that the cell left
    # nothing behind.  Each one has side effects (stack, tmp ids, alloc counter, PATCHed fields, declarations) before it fails.
    ('EMPTY_BIG_MAP nat nat ; PUSH key 0x09adbeef', True),
    ('PUSH int 7 ; PATCH AMOUNT 9 ; PUSH key 0x', True),
    ('EMPTY_BIG_MAP string nat ; BIG_MAP_DIFF ; DROP ; PUSH key 0x04ff', True),
    ('storage nat ; parameter nat ; DROP_ALL ; PUSH key 0xff00', True),
    ('EMPTY_BIG_MAP nat nat ; PUSH (or nat nat) (Left 1) ; IF_LEFT { PUSH key 0xff } { }', True),
    ('PATCH NOW 3 ; PUSH nat 1 ; PUSH (map nat key) { } ; SWAP ; GET ; IF_NONE { PUSH key 0x0a0b } { DROP }', True),
    ('UNIT ; DIP { EMPTY_BIG_MAP nat nat ; PUSH key 0x0900 }', True),
    ('EMPTY_BIG_MAP nat nat ; PUSH bytes 0x0a ; PUSH signature "edsigtXomBKi5CTRf5cjATJWSyaRvhfYNHqSUGrn4SdbYRcGwQrUGjzEfQDTuqHhuA8b2d8NarZjz8TRf65WkpQmo423BtomS8Q" ; PUSH key 0x0500 ; CHECK_SIGNATURE', True),
    ('PUSH (list nat) { 1 ; 2 } ; ITER { DROP ; EMPTY_BIG_MAP nat nat ; DROP } ; LAMBDA unit key { DROP ; PUSH key 0x77 } ; UNIT ; EXEC', True),
]


# context effects reached INDIRECTLY: a lambda whose body touches the context is put on the stack by an earlier successful
# cell; later cells run it (EXEC, also from DIP / IF / IF_NONE / ITER / MAP / LOOP bodies, through an APPLY-ed closure or
# through another lambda) without naming any context-touching primitive themselves, and then fail or not.
# (setup cell leaving exactly [lambda] on the stack, text pushing the argument, higher-order wrapper usable?)
INDIRECT_LAMBDAS = [
    ('LAMBDA unit (big_map string nat) { DROP ; EMPTY_BIG_MAP string nat }', 'UNIT', True),
    ('LAMBDA (pair nat unit) (big_map nat nat) { DROP ; EMPTY_BIG_MAP nat nat } ; PUSH nat 3 ; APPLY', 'UNIT', False),
    ('LAMBDA unit (sapling_state 8) { DROP ; SAPLING_EMPTY_STATE 8 }', 'UNIT', False),
    ('LAMBDA unit unit { PATCH AMOUNT 5 }', 'UNIT', False),
    ('LAMBDA nat (big_map string nat) { EMPTY_BIG_MAP string nat ; SWAP ; SOME ; PUSH string "k" ; UPDATE }', 'PUSH nat 4', False),
    ('LAMBDA unit unit { EMPTY_BIG_MAP nat nat ; BIG_MAP_DIFF ; DROP }', 'UNIT', False),
    ('LAMBDA unit unit { PUSH bool True ; IF { EMPTY_BIG_MAP nat nat ; DROP } { } }', 'UNIT', False),
]
INDIRECT_FAILS = [' ; PUSH key 0x09adbeef', ' ; PUSH key 0x', ' ; UNIT ; FAILWITH', ' ; PUSH int 1 ; CAR', ' ; DROP ; DROP ; DROP', ' ; PUSH nat 300 ; PUSH nat 1 ; LSL',
                  ' ; PUSH string "a" ; PUSH int 1 ; ADD']


def indirect_session(rng):
    setup, arg, higher = rng.choice(INDIRECT_LAMBDAS)
    body = f'DUP ; {arg} ; EXEC ; DROP'      # stack [lambda] -> [lambda]
    wraps = [body, body, f'UNIT ; DIP {{ {body} }} ; DROP', f'PUSH bool True ; IF {{ {body} }} {{ }}',
             f'PUSH (option nat) None ; IF_NONE {{ {body} }} {{ DROP }}', f'PUSH (list nat) {{ 1 ; 2 }} ; ITER {{ DROP ; {body} }}',
             f'PUSH (list nat) {{ 1 }} ; MAP {{ DIP {{ {body} }} }} ; DROP', f'PUSH bool True ; LOOP {{ {body} ; PUSH bool False }}',
             f'{body} ; {body}']
    if higher:
        wraps.append('DUP ; LAMBDA (lambda unit (big_map string nat)) (big_map string nat) { UNIT ; EXEC } ; SWAP ; EXEC ; DROP')
    cells = []
    if rng.random() < 0.4:
        cells.append(rng.choice(['EMPTY_BIG_MAP nat nat ; DROP', 'storage (big_map string nat) ; parameter unit', 'PATCH AMOUNT 1']))
    cells.append(setup)
    for _ in range(rng.randrange(2, 6)):
        w = rng.choice(wraps)
        cells.append(w + rng.choice(INDIRECT_FAILS) if rng.random() < 0.5 else w)
    # make the identifiers handed out afterwards visible on the stack and in COMMIT
    cells += ['DROP ; EMPTY_BIG_MAP string nat', 'storage (big_map string nat) ; parameter unit', 'NIL operation ; PAIR ; COMMIT']
    return [{'text': t} for t in cells]


def extend_session(rng, cells):
    out = list(cells)
    for _ in range(rng.randrange(1, 5)):
        text, _fails = rng.choice(EXTRA_CELLS)
        out.insert(rng.randrange(0, len(out) + 1), {'text': text})
    return out


def all_bodies(cells):
    """code bodies and lambda bodies (at any depth) of a session, in order of first appearance, without duplicates"""
    out = []

    def visit(instrs):
        for i in instrs:
            op = i[0]
            if op == 'code':
                out.append(i[1])
                visit(i[1])
            elif op == 'LAMBDA':
                out.append(i[3])
                visit(i[3])
            elif op in ('DIP', 'LOOP', 'SEQ', 'ITER', 'MAP'):
                visit(i[1])
            elif op == 'DIPN':
                visit(i[2])
            elif op in ('IF', 'IF_NONE', 'IF_CONS'):
                visit(i[1])
                visit(i[2])
    for c in cells:
        code = c.get('code', [])
        visit(code)
        # LAMBDA (pair a b) r { body } ; PUSH a lit ; APPLY  creates the code { PUSH a lit ; PAIR ; { body } }
        for x, y, z in zip(code, code[1:], code[2:]):
            if x[0] == 'LAMBDA' and y[0] == 'PUSH' and z[0] == 'APPLY':
                out.append([y, ('PAIR',), ('SEQ', x[3])])
    seen, uniq = [], []
    for b in out:
        k = json.dumps(code_expr(b), sort_keys=True)
        if k not in seen:
            seen.append(k)
            uniq.append(b)
    return seen, uniq


def bodies_of(cells):
    return all_bodies(cells)[0]


def code_expr(body):
    """the Micheline the parser yields for a code body (what ends up in context.code_expr / in a lambda value)"""
    from pytezos.michelson.parse import michelson_to_micheline
    return michelson_to_micheline('{ ' + ' ; '.join(m_text(x) for x in body) + ' }')


def bodies_coq(cells):
    return xlist('(list minstr)', (xlist('minstr', (m_coq(x) for x in b)) for b in all_bodies(cells)[1]))


def ser(o) -> bytes:
    """the same compact serialisation as Michelson/Repl.v [ser] (python lists are NSeq)"""
    def l4(x):
        return len(x).to_bytes(4, 'big')
    if isinstance(o, list):
        return b'l' + l4(o) + b''.join(ser(x) for x in o)
    if 'int' in o:
        z = int(o['int'])
        m = abs(z).to_bytes((abs(z).bit_length() + 7) // 8, 'big')
        return b'i' + (b'\x01' if z < 0 else b'\x00') + l4(m) + m
    if 'string' in o:
        b = o['string'].encode('utf-8')
        return b's' + l4(b) + b
    if 'bytes' in o:
        b = bytes.fromhex(o['bytes'])
        return b'b' + l4(b) + b
    args = o.get('args', []) or []
    annots = [a.encode('utf-8') for a in (o.get('annots', []) or [])]
    return (b'p' + bytes([lib.prim_tag(o['prim'])]) + l4(args) + b''.join(ser(x) for x in args)
            + l4(annots) + b''.join(l4(a) + a for a in annots))


FP_MASK = 2 ** 128 - 1
FP_MUL = 6364136223846793005


def fingerprint(b: bytes) -> int:
    acc = len(b)
    n = len(b) - len(b) % 8
    ws = [int.from_bytes(b[i:i + 8], 'big') for i in range(0, n, 8)]
    if len(b) % 8:
        ws.append(int.from_bytes(b'\x01' + b[n:], 'big'))
    for w in ws:
        acc = (acc * FP_MUL + w + 1) & FP_MASK
    return acc


def to_node(o):
    """expected observation as passed to coqc: the fingerprint of its serialisation (Repl.v [session_fp])"""
    return lib.cN(fingerprint(ser(o)))


WITNESS_19 = [
    {'code': [('storage', big_map(STRING, INT)), ('parameter', UNIT)]},
    {'code': [('EMPTY_BIG_MAP', STRING, INT)]},
    {'code': [('PUSH', INT, J(1)), ('SOME',), ('PUSH', STRING, J('a')), ('UPDATE',)]},
    {'code': [('PUSH', INT, J(1)), ('FAILWITH',)]},
    {'code': [('NIL', OPERATION), ('PAIR',)]},
    {'code': [('COMMIT',)]},
    {'code': [('EMPTY_BIG_MAP', STRING, INT), ('NIL', OPERATION), ('PAIR',), ('COMMIT',)]},
]

HAND = [
    WITNESS_19,
    # the failing cell itself touches the old context before failing (BIG_MAP_DIFF bumps alloc, BEGIN registers ids)
    [{'code': [('storage', big_map(STRING, INT)), ('parameter', big_map(STRING, INT))]},
     {'code': [('BEGIN', J(7), J(5)), ('UNPAIR',)]},
     {'code': [('BIG_MAP_DIFF',), ('RESET',), ('PUSH', INT, J(1)), ('FAILWITH',)]},
     {'code': [('BIG_MAP_DIFF',), ('DROP',), ('NIL', OPERATION), ('PAIR',), ('COMMIT',)]},
     {'code': [('BEGIN', J([]), J([('elt', 'a', 1)])), ('CDR',), ('NONE', INT), ('PUSH', STRING, J('a')), ('UPDATE',), ('BIG_MAP_DIFF',)]},
     {'bad': 'PUSH int'},
     {'code': [('NIL', OPERATION), ('PAIR',), ('COMMIT',)]}],
    # declarations inside a failing cell, failing RUN, RUN after failures
    [{'code': [('storage', big_map(STRING, INT)), ('parameter', UNIT), ('code', [('CDR',), ('PUSH', INT, J(1)), ('SOME',), ('PUSH', STRING, J('k')), ('UPDATE',), ('NIL', OPERATION), ('PAIR',)])]},
     {'code': [('RUN', J(('unit',)), J([]))]},
     {'code': [('storage', NAT), ('code', [('FAILWITH',)]), ('EMPTY_BIG_MAP', INT, INT), ('DROP',), ('DROP',)]},
     {'code': [('RUN', J(('unit',)), J(5))]},
     {'code': [('EMPTY_BIG_MAP', STRING, INT), ('code', [('FAILWITH',)]), ('RUN', J(('unit',)), J([]))]},
     {'code': [('RUN', J(('unit',)), J([('elt', 'a', 1), ('elt', 'b', 2)]))]}],
    # failures inside DIP / IF_NONE bodies after the body touched the context; DIP inside a declared code body
    [{'code': [('storage', big_map(STRING, INT)), ('parameter', UNIT), ('EMPTY_BIG_MAP', STRING, INT), ('PUSH', INT, J(7))]},
     {'code': [('DIP', [('PUSH', INT, J(1)), ('SOME',), ('PUSH', STRING, J('a')), ('UPDATE',), ('EMPTY_BIG_MAP', NAT, NAT), ('UNIT',), ('FAILWITH',)])]},
     {'code': [('DIP', [('DIP', [('EMPTY_BIG_MAP', NAT, NAT)]), ('PUSH', INT, J(2)), ('SOME',), ('PUSH', STRING, J('b')), ('UPDATE',)])]},
     {'code': [('DROP',), ('DUP',), ('PUSH', STRING, J('b')), ('GET',), ('IF_NONE', [('UNIT',), ('FAILWITH',)], [('DROP',), ('UNIT',), ('DROP',)])]},
     {'code': [('DUP',), ('PUSH', STRING, J('zz')), ('GET',), ('IF_NONE', [('EMPTY_BIG_MAP', INT, INT), ('PUSH', INT, J(1)), ('CAR',)], [('DROP',)])]},
     {'code': [('NIL', OPERATION), ('PAIR',), ('DIP', [('DROP',)]), ('COMMIT',)]},
     {'code': [('EMPTY_BIG_MAP', STRING, INT), ('NIL', OPERATION), ('PAIR',), ('COMMIT',)]}],
]


def case_for(cells):
    bodies = bodies_of(cells)
    recs, obs = run_session(cells, bodies)
    inp = f'({bodies_coq(cells)}, {xlist("cell", (cell_coq(c) for c in cells))})'
    return recs, obs, (inp, to_node(obs)), bodies


def run(ctx: lib.Ctx) -> None:
    from pytezos.michelson.tags import prim_tags
    ctx.rule = ('sessions of <= 8 (quick) / <= 14 (thorough) cells generated adaptively against a live Interpreter from the '
                'property\'s alphabet (parameter/storage/code declarations, PUSH and stack shuffling, EMPTY_BIG_MAP, UPDATE/GET/'
                'GET_AND_UPDATE, DIP / DIP n / IF / IF_NONE / IF_CONS / LOOP / ITER / MAP with nested bodies, CONS and list literals of atoms, LAMBDA / APPLY and EXEC of stored lambdas, PATCH AMOUNT/BALANCE/NOW, BEGIN/COMMIT/RUN, BIG_MAP_DIFF, RESET); about a third of the cells get a failure injected at a random '
                'instruction position, also inside DIP / DIP n / IF / IF_NONE / LOOP / LAMBDA bodies (FAILWITH, ill-typed operand, stack underflow, mutez overflow, ill-typed literal, unpushable / invalid type, '
                'undeclared BEGIN, bad COMMIT, parse error, unknown primitive, wrong arity); plus hand-written sessions and the '
                'witness of fixed defect 19; two oracle-only streams (cells outside the model spliced in; lambdas with context effects stored on '
                'the stack and EXECuted by later failing cells, also from DIP/IF/ITER/MAP/LOOP bodies and APPLY-ed closures). non-trivial = some cell fails while a big_map is on the stack, or fails after touching the context; '
                'distinct = distinct cell texts')
    # table: the primitive tags the model renders with
    tags = {'False': 3, 'True': 0x0a, 'bool': 0x59, 'lambda': 0x5e, 'Elt': 4, 'None': 6, 'Pair': 7, 'Some': 9, 'Unit': 0x0b, 'int': 0x5b, 'list': 0x5f, 'big_map': 0x61, 'nat': 0x62,
            'option': 0x63, 'pair': 0x65, 'string': 0x68, 'mutez': 0x6a, 'unit': 0x6c, 'operation': 0x6d}
    ctx.table('prim tags used by render_ty / render_g')
    tags_ok = all(prim_tags[k][0] == v for k, v in tags.items())

    sessions = []
    for cells in ctx_corpus(ctx):
        sessions.append((cells, ['corpus']))
    for cells in HAND:
        sessions.append((cells, ['hand']))
    nsess = ctx.n(45, 700)
    maxlen = ctx.n(8, 14)
    for _ in range(nsess):
        n = ctx.rng.randrange(3, maxlen + 1)
        cells, kinds = gen_session(ctx.rng, n, ctx.rng.choice([0.2, 0.35, 0.5]))
        sessions.append((cells, kinds))

    # failures at every instruction position of one cell (hand-written sessions always, generated ones as the tier allows)
    swept = []
    for cells, kinds in sessions[:len(HAND) + ctx.corpus_cases + ctx.n(4, 70)]:
        swept += position_sweep(ctx.rng, cells, ctx.n(5, 10))
    sessions += swept
    ctx.extra['position_sweep_sessions'] = len(swept)

    # modelled sessions with context effects reached through stored lambdas (the shape of seed C22-7)
    for _ in range(ctx.n(15, 250)):
        sessions.append((indirect_ast_session(ctx.rng), ['indirect']))

    cases, meta, meta_obs = [], [], []
    reported = 0
    for cells, kinds in sessions:
        recs, obs, case, bodies = case_for(cells)
        why, _ = oracle(cells, bodies, recs)
        texts = [cell_text(c) for c in cells]
        nfail = sum(r['failed'] for r in recs)
        bm_at_fail = any(r['failed'] and any(it[2] for it in r['stack'][:-1]) for r in recs)
        for k in kinds:
            ctx.dist['fail:' + k.split('@')[0]] += 1
            if '@' in k:
                ctx.dist['pos:' + k.split('@')[1]] += 1
        ctx.dist[f'failing_cells:{min(nfail, 5)}'] += 1
        ctx.dist['outputs:' + str(min(sum(len(r['outs']) for r in recs), 6))] += 1
        ctx.case(tuple(texts), nontrivial=bm_at_fail, kind=f'cells:{len(cells)}',
                 sample={'cells': texts, 'failed': [r['failed'] for r in recs]})
        cases.append(case)
        meta.append((cells, texts, recs))
        meta_obs.append(obs)
        if why and reported < 3:
            reported += 1
            ctx.violation('a failing REPL cell changed the session: ' + why,
                          {'cells': texts, 'failed_cells': [i for i, r in enumerate(recs) if r['failed']],
                           'repro': 'from pytezos.michelson.repl import Interpreter; i=Interpreter(); [i.execute(c) for c in cells]; '
                                    'compare with the same loop over the cells not listed in failed_cells'})
    # second stream, oracle (B) only: the same sessions with cells outside the modelled alphabet spliced in
    # (PATCH of context fields, failures inside DIP / IF / ITER / EXEC bodies, shifts, DROP_ALL ...)
    n_ext = 0
    for cells, kinds in sessions:
        if kinds and kinds[0] in ('corpus',):
            continue
        ext = extend_session(ctx.rng, cells)
        why, recs = oracle(ext, [])
        n_ext += 1
        texts = [cell_text(c) for c in ext]
        for c, r in zip(ext, recs):
            if 'text' in c:
                ctx.dist['extra:' + ('failed' if r['failed'] else 'ok')] += 1
        ctx.case(('ext', tuple(texts)), nontrivial=any(r['failed'] for r in recs), kind='extended-oracle-only')
        if why and reported < 3:
            reported += 1
            ctx.violation('a failing REPL cell changed the session: ' + why,
                          {'cells': texts, 'failed_cells': [i for i, r in enumerate(recs) if r['failed']],
                           'repro': 'from pytezos.michelson.repl import Interpreter; i=Interpreter(); [i.execute(c) for c in cells]; '
                                    'compare with the same loop over the cells not listed in failed_cells'})
    # third stream, oracle (B) only: context effects reached through lambdas stored on the stack by earlier cells
    n_ind = 0
    for _ in range(ctx.n(60, 600)):
        ind = indirect_session(ctx.rng)
        why, recs = oracle(ind, [])
        n_ind += 1
        texts = [cell_text(c) for c in ind]
        ctx.dist['indirect:failing_cells:' + str(min(sum(r['failed'] for r in recs), 4))] += 1
        ctx.case(('ind', tuple(texts)), nontrivial=any(r['failed'] for r in recs), kind='indirect-oracle-only')
        if why and reported < 3:
            reported += 1
            ctx.violation('a failing REPL cell changed the session: ' + why,
                          {'cells': texts, 'failed_cells': [i for i, r in enumerate(recs) if r['failed']],
                           'repro': 'from pytezos.michelson.repl import Interpreter; i=Interpreter(); [i.execute(c) for c in cells]; '
                                    'compare with the same loop over the cells not listed in failed_cells'})
    ctx.extra['indirect_sessions'] = n_ind
    ctx.extra['extended_sessions'] = n_ext
    bad = ctx.coq_mismatches('repl', IMPORTS, 'fun x => session_fp Rebind (fst x) (snd x)', 'N.eqb',
                             'list (list minstr) * list cell', 'N', cases, shard=ctx.n(13, 100))
    # thorough tier: a sample is also compared on the full serialisation (not only its fingerprint)
    if ctx.thorough and not bad:
        sample = ctx.rng.sample(range(len(cases)), min(40, len(cases)))
        full = [(cases[i][0], lib.chex(ser(meta_obs[i]))) for i in sample]
        bad_full = ctx.coq_mismatches('replfull', IMPORTS, 'fun x => session_ser Rebind (fst x) (snd x)', 'bytes_eqb',
                                      'list (list minstr) * list cell', 'bytes', full, shard=4)
        ctx.extra['full_serialisation_cases'] = len(full)
        bad = [sample[i] for i in bad_full]
    # witnesses of repaired defects (findings/C22.json "fixed") are replayed on every run: failing again = VIOLATION
    for f in ctx.known.get('fixed', []):
        texts = f['witness']['cells']
        why, _ = oracle([{'text': t} for t in texts], [])
        ctx.case(('fixed', tuple(texts)), nontrivial=True, kind='fixed-witness')
        if why and reported < 3:
            reported += 1
            ctx.violation(f'repaired defect is back ({f["commit"]}: {f["what"]}): ' + why,
                          {'cells': texts, 'repro': f['witness'].get('repro', '')})
    if reported == 0 and (bad or not tags_ok):
        rep = {'correspondence': 'C22/Interpreter.execute vs Michelson.Repl.session_obs Rebind', 'tags_ok': tags_ok, 'disagreements': len(bad)}
        if bad:
            cells, texts, recs = meta[bad[0]]
            cells2, texts2 = shrink(ctx, cells)
            _, obs2, case2, _ = case_for(cells2)
            rep.update({'cells': texts2, 'implementation': obs2,
                        'model': ctx.coq_eval(IMPORTS, f'session_obs Rebind (fst {case2[0]}) (snd {case2[0]})')})
        ctx.violation('implementation no longer corresponds to the model the theorems are about', rep, found=False)


def shrink(ctx, cells):
    """drop cells / instructions while the model and the implementation still disagree (few coqc calls)"""
    def disagrees(cs):
        try:
            _, _, case, _ = case_for(cs)
        except Exception:  # noqa: BLE001
            return False
        return bool(ctx.coq_mismatches('shrink', IMPORTS, 'fun x => session_fp Rebind (fst x) (snd x)', 'N.eqb',
                                       'list (list minstr) * list cell', 'N', [case]))
    cur = list(cells)
    budget = 14
    i = len(cur) - 1
    while i >= 0 and budget > 0:
        cand = cur[:i] + cur[i + 1:]
        budget -= 1
        if cand and disagrees(cand):
            cur = cand
        i -= 1
    return cur, [cell_text(c) for c in cur]


def ctx_corpus(ctx):
    import glob
    import os
    out = []
    for p in sorted(glob.glob(os.path.join(lib.VERIF, 'corpus', 'C22', '*.json'))):
        doc = json.load(open(p))
        out.append(from_json(doc['cells']))
        ctx.corpus_cases += 1
    return out


def from_json(o):
    """corpus files store cells as JSON; tuples come back as lists"""
    def tup(x):
        if isinstance(x, list):
            return tuple(tup(y) for y in x)
        return x
    cells = []
    for c in o:
        if 'bad' in c or 'crash' in c:
            cells.append(dict(c))
        else:
            cells.append({'code': [fix_instr(i) for i in c['code']], 'braces': c.get('braces', False)})
    return cells


def fix_instr(i):
    op = i[0]
    def ty(t): return tuple(ty(x) if isinstance(x, list) else x for x in t)
    if op == 'PUSH':
        return ('PUSH', ty(i[1]), i[2])
    if op in MT or op in ('parameter', 'storage'):
        return (op, ty(i[1]))
    if op == 'EMPTY_BIG_MAP':
        return (op, ty(i[1]), ty(i[2]))
    if op == 'code':
        return ('code', [fix_instr(x) for x in i[1]])
    if op in ('BEGIN', 'RUN'):
        return (op, i[1], i[2])
    if op == 'DIP':
        return ('DIP', [fix_instr(x) for x in i[1]])
    if op in ('IF_NONE', 'IF', 'IF_CONS'):
        return (op, [fix_instr(x) for x in i[1]], [fix_instr(x) for x in i[2]])
    if op == 'DIPN':
        return ('DIPN', i[1], [fix_instr(x) for x in i[2]])
    if op in ('LOOP', 'SEQ', 'ITER', 'MAP'):
        return (op, [fix_instr(x) for x in i[1]])
    if op == 'LAMBDA':
        return ('LAMBDA', ty(i[1]), ty(i[2]), [fix_instr(x) for x in i[3]])
    if op == 'PATCH':
        return ('PATCH', i[1], i[2])
    return (op,)


def replay(ctx, doc) -> bool:
    """./check C22 --replay file: run the recorded cells on the real Interpreter with and without the failing cells.
    Returns True when the property fails on them."""
    texts = doc.get('cells') or []
    why, recs = oracle([{'text': t} for t in texts], [])
    print('failed cells:', [i for i, r in enumerate(recs) if r['failed']])
    print('oracle (B):', why or 'holds on this session')
    return bool(why)
