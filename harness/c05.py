"""C05 — Micheline binary encoding round-trips and decodes strictly.

Correspondence (A): forge_micheline / unforge_micheline of /repo vs Codec/MichelineBin.v (enc, dec_full),
evaluated by vm_compute inside coqc on the same inputs; the primitive table of tags.py vs Codec/Prims.v
exhaustively (both directions, all 256 tag bytes).
Oracle (B), on the implementation's own outputs: (1) unforge(forge(t)) == normalised t for every well-formed
tree, (2) distinct normalised trees never share an encoding, (3) nothing is accepted that the reference
grammar of the Tezos binary format (harness/c05_ref.py-like decoder below, itself cross-checked against the
model's dec_full_tezos in every run) rejects, (4) what is accepted decodes to the tree the bytes denote.
"""
import glob
import json
import os
import time

import lib
from lib import cbool, clist, cstr, cbyte, copt

_BYTE_LIT = ['x%02x' % i for i in range(256)]


def chex(b: bytes) -> str:
    """bytes literal as an explicit constructor list (string literals `hx "…"` elaborate ~4x slower and
    overflow coqc's stack beyond ~30k characters)"""
    return '[' + '; '.join(_BYTE_LIT[x] for x in b) + ']' if b else 'nil'


def cZ(v: int) -> str:
    """hexadecimal number notation: linear-time conversion also for 4096-bit integers"""
    return f'(-{hex(-v)})%Z' if v < 0 else f'({hex(v)})%Z'


def cnode(m) -> str:
    """same canonicalisation as lib.cnode (integers as numbers, missing args/annots = empty, prim name -> the
    binary tag of /repo's tags.py), with the faster literals above"""
    if isinstance(m, list):
        return '(NSeq ' + clist(cnode(x) for x in m) + ')'
    if 'int' in m:
        return f'(NInt {cZ(int(m["int"]))})'
    if 'string' in m:
        return f'(NStr {chex(m["string"].encode("utf-8"))})'
    if 'bytes' in m:
        return f'(NByt {chex(bytes.fromhex(m["bytes"]))})'
    if 'prim' in m:
        args = clist(cnode(x) for x in m.get('args', []) or [])
        annots = clist(chex(a.encode('utf-8')) for a in m.get('annots', []) or [])
        return f'(NPrim {cbyte(lib.prim_tag(m["prim"]))} {args} {annots})'
    raise lib.InternalError(f'not micheline: {m!r}')

PROP = 'C05'
IMPORTS = 'From PV Require Import Codec.Micheline Codec.Zarith Codec.Prims Codec.MichelineBin.'
PRELUDE = '''
Definition chk_enc (n : node) : bytes * (bool * bool) :=
  (enc n, (dres_node_eqb (dec_full (enc n)) (DOk n), wf_nodeb known_prim utf8_valid n)).
Definition chk_enc_eqb := prod_eqb bytes_eqb (prod_eqb Bool.eqb Bool.eqb).
Definition accepted (r : dres node) : bool := match r with DOk _ => true | _ => false end.
(* the malformed stream runs the index-style transcription of unforge_micheline (pdec_full = dec_full is a theorem) *)
Definition chk_dec (bs : bytes) : dres node * bool := (pdec_full bs, accepted (dec_full_tezos bs)).
Definition chk_dec_eqb := prod_eqb dres_node_eqb Bool.eqb.
Definition sum_eqb {A B} (ea : A -> A -> bool) (eb : B -> B -> bool) (x y : A + B) : bool :=
  match x, y with inl a, inl b => ea a b | inr a, inr b => eb a b | _, _ => false end.
Definition chk_all (x : node + bytes) : (bytes * (bool * bool)) + (dres node * bool) :=
  match x with inl n => inl (chk_enc n) | inr b => inr (chk_dec b) end.
Definition chk_all_eqb := sum_eqb chk_enc_eqb chk_dec_eqb.
Definition chk_tag (b : byte) : bool * option string := (known_prim b, prim_name b).
Definition chk_tag_eqb := prod_eqb Bool.eqb (option_eqb String.eqb).
Definition chk_tab (x : string + byte) : option byte * (bool * option string) :=
  match x with inl s => (prim_tag s, (false, None)) | inr b => (None, chk_tag b) end.
Definition chk_tab_eqb := prod_eqb (option_eqb byte_eqb) chk_tag_eqb.
'''


# ----------------------------------------------------------------------------------------------
# reference decoder: the Tezos grammar (independent of /repo and of the Coq model)
# ----------------------------------------------------------------------------------------------

class Bad(Exception):
    pass


class NonUtf8(Exception):
    """valid for Tezos (text is bytes there) but not representable as JSON text"""


def ref_decode(b: bytes, names: dict):
    """bytes -> (micheline json, structure info). Raises Bad when the Tezos binary grammar rejects."""
    info = {'len_fields': [], 'ints': [], 'tags': [], 'prims': []}
    nonutf = []

    def arr(p, end):
        if p + 4 > end:
            raise Bad('length field truncated')
        n = int.from_bytes(b[p:p + 4], 'big')
        if p + 4 + n > end:
            raise Bad('length exceeds buffer')
        info['len_fields'].append(p)
        return p + 4, p + 4 + n

    def text(s, e):
        try:
            return b[s:e].decode('utf-8')
        except UnicodeDecodeError:
            nonutf.append(s)
            return b[s:e].decode('latin-1')

    def zint(p, end):
        start = p
        if p >= end:
            raise Bad('int truncated')
        first = b[p]
        p += 1
        v, shift = first & 0x3F, 6
        if first & 0x80:
            while True:
                if p >= end:
                    raise Bad('int truncated')
                c = b[p]
                p += 1
                v |= (c & 0x7F) << shift
                shift += 7
                if not c & 0x80:
                    if c == 0:
                        raise Bad('non-minimal int')
                    break
        info['ints'].append((start, p))
        return (-v if first & 0x40 else v), p

    def seq(s, e):
        out = []
        p = s
        while p < e:
            x, p = node(p, e)
            out.append(x)
        assert p == e
        return out

    def annots(p, end):
        s, e = arr(p, end)
        t = text(s, e)
        return (t.split(' ') if t else []), e

    def node(p, end):
        if p >= end:
            raise Bad('truncated')
        tag = b[p]
        info['tags'].append(p)
        p += 1
        if tag == 0:
            v, p = zint(p, end)
            return {'int': str(v)}, p
        if tag == 1:
            s, e = arr(p, end)
            return {'string': text(s, e)}, e
        if tag == 10:
            s, e = arr(p, end)
            return {'bytes': b[s:e].hex()}, e
        if tag == 2:
            s, e = arr(p, end)
            return seq(s, e), e
        if 3 <= tag <= 9:
            if p >= end:
                raise Bad('prim truncated')
            pt = b[p]
            info['prims'].append(p)
            p += 1
            if pt not in names:
                raise Bad('unknown primitive')
            out = {'prim': names[pt]}
            if tag == 9:
                s, e = arr(p, end)
                args = seq(s, e)
                p = e
            else:
                args = []
                for _ in range((tag - 3) // 2):
                    x, p = node(p, end)
                    args.append(x)
            if args:
                out['args'] = args
            if tag == 9 or (tag - 3) % 2:
                an, p = annots(p, end)
                if an:
                    out['annots'] = an
            return out, p
        raise Bad('unknown tag')

    x, p = node(0, len(b))
    if p != len(b):
        raise Bad('trailing bytes')
    if nonutf:
        raise NonUtf8()
    return x, info


# ----------------------------------------------------------------------------------------------
# generators
# ----------------------------------------------------------------------------------------------

ANN_PREFIX = '%:@'
UNI = ['\u00e9', '\u00df', '\u03bb', '\u4e2d', '\u20ac', '\U0001f600', '\u07ff', '\u0800', '\ud7ff', '\ue000', '\uffff', '\U00010000', '\U0010ffff', '\x00', '\x7f', '\x80']


def gen_int(rng, big_ok=True):
    k = rng.random()
    if k < 0.55:
        return lib.boundary_ints(rng)
    if k < 0.75:
        e = rng.choice([5, 6, 7, 12, 13, 14, 19, 20, 21, 27, 34, 41, 48, 55, 62, 69])
        return rng.choice([-1, 1]) * ((1 << e) + rng.choice([-1, 0, 1]))
    if k < 0.9 or not big_ok:
        return rng.choice([-1, 1]) * rng.getrandbits(rng.randrange(1, 80))
    return rng.choice([-1, 1]) * rng.getrandbits(rng.choice([512, 1024, 2048, 4095, 4096]))


def gen_text(rng, n=None):
    n = rng.choice([0, 1, 2, 3, 5, 8, 13, 40]) if n is None else n
    if rng.random() < 0.25:
        return ''.join(rng.choice(UNI + list('ab ')) for _ in range(n))
    return ''.join(rng.choice('abcXYZ019_ .%@:"\\\n') for _ in range(n))


def gen_annot(rng, wf=True):
    k = rng.random()
    body = ''.join(rng.choice('abcdefXYZ019_.') for _ in range(rng.choice([0, 1, 1, 2, 3, 6, 12])))
    if k < 0.85 or wf:
        a = rng.choice(ANN_PREFIX) + body
        if rng.random() < 0.08:
            a += rng.choice(UNI[:10])
        return a
    if k < 0.9:
        return ''
    if k < 0.95:
        return body + ' ' + body
    return ' '


def gen_tree(rng, names, budget, wf=True, depth=0, big_ok=True):
    """Random Micheline JSON using at most `budget` nodes. Returns (tree, nodes_used)."""
    k = rng.random()
    if budget <= 1 or depth > 40 or k < 0.22:
        j = rng.random()
        if j < 0.4:
            v = gen_int(rng, big_ok)
            s = str(v)
            if rng.random() < 0.1:   # integer spelling variants (normalised by the harness)
                s = rng.choice(['+' + s if v >= 0 else s, ('-00' + s[1:]) if v < 0 else '00' + s, ' ' + s + ' ', '-0' if v == 0 else s])
            return {'int': s}, 1
        if j < 0.6:
            return {'string': gen_text(rng)}, 1
        if j < 0.75:
            n = rng.choice([0, 1, 2, 4, 20, 33]) if rng.random() < 0.93 else rng.choice([255, 256, 300])
            return {'bytes': rng.randbytes(n).hex()}, 1
        if j < 0.9:
            out = {'prim': rng.choice(names)}
            if rng.random() < 0.3:
                out['annots'] = [gen_annot(rng, wf) for _ in range(rng.choice([1, 1, 2, 3]))]
            if rng.random() < 0.1:
                out['args'] = []
            return out, 1
        return [], 1
    if k < 0.45:
        n = rng.choice([0, 1, 2, 3, 4, 7])
        used, items = 1, []
        for _ in range(n):
            if used >= budget:
                break
            x, u = gen_tree(rng, names, max(1, (budget - used) // max(1, n - len(items))), wf, depth + 1, big_ok)
            items.append(x)
            used += u
        return items, used
    nargs = rng.choice([0, 1, 1, 2, 2, 2, 3, 3, 4, 6])
    used, args = 1, []
    for _ in range(nargs):
        if used >= budget:
            break
        x, u = gen_tree(rng, names, max(1, (budget - used) // max(1, nargs - len(args))), wf, depth + 1, big_ok)
        args.append(x)
        used += u
    out = {'prim': rng.choice(names)}
    if args or rng.random() < 0.1:
        out['args'] = args
    r = rng.random()
    if r < 0.35:
        out['annots'] = [gen_annot(rng, wf) for _ in range(rng.choice([1, 1, 2, 3]))]
    elif r < 0.42:
        out['annots'] = []
    if not wf and rng.random() < 0.15:
        out['annots'] = rng.choice([[''], ['', ''], ['a b'], [' '], ['%a', '']])
    return out, used


def chain(rng, names, depth):
    """deep, thin trees (alternating one-argument prims and singleton sequences)"""
    x = {'int': str(gen_int(rng, False))}
    for _ in range(depth):
        x = [x] if rng.random() < 0.4 else {'prim': rng.choice(names), 'args': [x] + ([{'prim': rng.choice(names)}] if rng.random() < 0.3 else [])}
    return x


def tree_size(t):
    if isinstance(t, list):
        return 1 + sum(tree_size(x) for x in t)
    return 1 + sum(tree_size(x) for x in t.get('args', []) or [])


def py_wf(t, proto):
    """the harness's own reading of 'well-formed' (compared with the model's wf_nodeb in every case)"""
    if isinstance(t, list):
        return all(py_wf(x, proto) for x in t)
    if 'prim' in t:
        an = t.get('annots') or []
        return (t['prim'] in proto and all(' ' not in a for a in an) and an != ['']
                and all(py_wf(x, proto) for x in t.get('args') or []))
    return True


def run_forge(t):
    from pytezos.michelson.forge import forge_micheline
    return lib.call(forge_micheline, t)


def run_unforge(b):
    from pytezos.michelson.forge import unforge_micheline
    return lib.call(unforge_micheline, bytes(b))


def dres_lit(ok, val):
    if not ok:
        return 'DReject'
    try:
        return f'(DOk {cnode(lib.canon_micheline(val))})'
    except Exception as e:  # noqa: BLE001 — the implementation returned something that is not Micheline
        return 'DFuel'


# ----------------------------------------------------------------------------------------------
# malformed stream
# ----------------------------------------------------------------------------------------------

def be4(n):
    return (n & 0xFFFFFFFF).to_bytes(4, 'big')


def mutants(rng, b: bytes, info, per: int, all_trunc: bool):
    """(kind, bytes) derived from the valid encoding b."""
    out = []
    n = len(b)
    if all_trunc:
        out += [('trunc', b[:i]) for i in range(n)]
    else:
        out += [('trunc', b[:rng.randrange(n)]) for _ in range(3)] + [('trunc', b[:n - 1])]
    for _ in range(per):
        k = rng.random()
        if k < 0.15:
            out.append(('extend', b + rng.randbytes(rng.choice([1, 1, 2, 4, 5]))))
        elif k < 0.2:
            out.append(('extend', b + b[:rng.randrange(1, n + 1)]))
        elif k < 0.35:
            i = rng.randrange(n)
            out.append(('byteflip', b[:i] + bytes([rng.randrange(256)]) + b[i + 1:]))
        elif k < 0.5:
            i = rng.randrange(n)
            out.append(('bitflip', b[:i] + bytes([b[i] ^ (1 << rng.randrange(8))]) + b[i + 1:]))
        elif k < 0.7 and info['len_fields']:
            p = rng.choice(info['len_fields'])
            v = int.from_bytes(b[p:p + 4], 'big')
            nv = rng.choice([v + 1, v - 1, v + 2, v - 2, v + rng.randrange(1, 9), 0, 0xFFFFFFFF, 0x80000000, v + 256, v << 8, n, n - p - 4])
            if nv != v and nv >= 0:
                out.append(('length', b[:p] + be4(nv) + b[p + 4:]))
        elif k < 0.8 and info['ints']:
            s, e = rng.choice(info['ints'])
            pad = bytes([0x80] * rng.choice([0, 0, 1, 2, 5])) + b'\x00'
            out.append(('nonminimal', b[:e - 1] + bytes([b[e - 1] | 0x80]) + pad + b[e:]))   # length fields now stale when nested
            if s == 1 and e == n:
                pass
        elif k < 0.88 and info['tags']:
            p = rng.choice(info['tags'])
            out.append(('tag', b[:p] + bytes([rng.choice([11, 12, 13, 0x7f, 0x80, 0xee, 0xff, rng.randrange(11, 256)])]) + b[p + 1:]))
        elif k < 0.96 and info['prims']:
            p = rng.choice(info['prims'])
            out.append(('primtag', b[:p] + bytes([rng.choice([0x9f, 0xa0, 0xee, 0xff, 0x9e, rng.randrange(0x9f, 256)])]) + b[p + 1:]))
        else:
            i = rng.randrange(n + 1)
            out.append(('insert', b[:i] + bytes([rng.randrange(256)]) + b[i:]))
    return out


def handmade(rng, names_by_tag):
    """valid-but-unusual and invalid encodings built directly"""
    out = []
    pt = lambda: bytes([rng.randrange(0x9f)])  # noqa: E731
    arr = lambda x: be4(len(x)) + x  # noqa: E731
    i5 = b'\x00\x05'
    # generic tag 9 with 0, 1, 2 args; with/without annotations
    for args in ([], [i5], [i5, b'\x01' + arr(b'x')], [i5] * 3, [i5] * 4):
        for an in (b'', b'%a', b'%a :b', b'%a  b', b' ', b' %a', b'%a '):
            out.append(('generic9', b'\x09' + pt() + arr(b''.join(args)) + arr(an)))
    # annotation flag with empty annotation string
    for tag, args in ((4, b''), (6, i5), (8, i5 + i5)):
        out.append(('emptyannots', bytes([tag]) + pt() + args + arr(b'')))
        out.append(('annots', bytes([tag]) + pt() + args + arr(b'%x @y')))
        out.append(('annots', bytes([tag]) + pt() + args + arr('%é'.encode())))
        out.append(('annots', bytes([tag]) + pt() + args + arr(b'%\xff')))
    # tag 9 without the mandatory annotation string
    out.append(('generic9', b'\x09' + pt() + arr(i5 * 3)))
    # integers
    for e in (b'\x40', b'\x00', b'\x80\x00', b'\xc0\x00', b'\x80\x80\x00', b'\x80\x01', b'\xff\xff\x00', b'\xff\x7f', b'\x80', b'\xc0', b'\xbf\x80\x80\x80\x00',
              b'\x80\x80\x80\x80\x80\x80\x80\x80\x80\x80\x01', b'\x7f', b'\x3f', b'\x41'):
        out.append(('int', b'\x00' + e))
        out.append(('int', b'\x02' + arr(b'\x00' + e)))
        out.append(('int', b'\x05' + pt() + b'\x00' + e))
    # strings: UTF-8 boundary cases
    for s in (b'\xc2\x80', b'\xc0\x80', b'\xc1\xbf', b'\xdf\xbf', b'\xe0\xa0\x80', b'\xe0\x9f\xbf', b'\xed\x9f\xbf', b'\xed\xa0\x80', b'\xee\x80\x80',
              b'\xef\xbf\xbf', b'\xf0\x90\x80\x80', b'\xf0\x8f\xbf\xbf', b'\xf4\x8f\xbf\xbf', b'\xf4\x90\x80\x80', b'\xf5\x80\x80\x80', b'\xff', b'\x80',
              b'\xc2', b'\xe0\xa0', b'\xf0\x90\x80', b'a\xc2', b'\xc2\x80\x80', b'\xe1\x80\xc0', b'\xf1\x80\x80\xc0', b'\xf1\xc0\x80\x80', b'\x00', b'\x7f', b''):
        out.append(('utf8', b'\x01' + arr(s)))
        out.append(('utf8', b'\x04' + pt() + arr(s)))
    # every head tag 0..255 with a plausible tail; every prim tag 0..255
    tail = pt() + i5 + i5 + arr(b'')
    for t in range(256):
        out.append(('headtag', bytes([t]) + tail))
        out.append(('primtag', b'\x03' + bytes([t])))
    for t in (0x9e, 0x9f, 0xee, 0xff):
        for tag in range(3, 10):
            out.append(('primtag', bytes([tag, t]) + i5 + i5 + arr(b'')))
    # length fields
    for tag in (1, 2, 10):
        for ln, body in ((1, b''), (0, b'\x00'), (2, b'\x00'), (0xFFFFFFFF, b'\x00\x05'), (0x80000000, b''), (2, b'\x00\x05'), (3, b'\x00\x05'), (1, b'\x00\x05')):
            out.append(('length', bytes([tag]) + be4(ln) + body))
    out.append(('length', b'\x02' + be4(3) + b'\x00\x05\x00'))       # length ends inside an element
    out.append(('length', b'\x02' + be4(1) + b'\x00\x05'))           # element crosses the boundary, trailing
    out.append(('length', b'\x02' + be4(8) + b'\x02' + be4(4) + b'\x00\x05\x00'))   # inner sequence runs past the outer one
    out.append(('length', b'\x02' + be4(7) + b'\x02' + be4(4) + b'\x00\x05\x00\x05'))
    out.append(('length', b'\x02' + be4(6) + b'\x01' + be4(2) + b'ab'))  # inner string crosses the outer end
    out.append(('empty', b''))
    for k in range(1, 4):
        out.append(('short', b'\x02' + b'\x00' * k))
    return out


# ----------------------------------------------------------------------------------------------
# the run
# ----------------------------------------------------------------------------------------------

def run(ctx: lib.Ctx) -> None:
    from pytezos.michelson import forge as F
    from pytezos.michelson.tags import prim_tags

    rng = ctx.rng
    timing = ctx.extra.setdefault('timing_s', {})
    t_last = [time.time()]

    def lap(name):
        timing[name] = round(time.time() - t_last[0], 1)
        t_last[0] = time.time()
    ctx.rule = ('structured stream: random Micheline trees (1..200 nodes, all 159 protocol primitives, 0..6 args, 0..3 annotations incl. non-ASCII, '
                'integers biased to 6/7-bit group boundaries and up to 4096 bits, integer spelling variants, empty args/annots lists, deep chains to depth 150, '
                'plus ill-formed trees: helper primitives (tag ee), annotations with spaces / the single empty annotation); each is forged and unforged by /repo and '
                'enc / dec_full / wf are evaluated on the same tree in coqc. malformed stream: every truncation of small encodings, extensions, byte and bit flips, '
                'insertions, edited length fields, non-minimal integers, node tags 11..255, primitive tags 9f..ff, generic-tag and empty-annotation re-encodings, '
                'UTF-8 boundary strings; each is decoded by /repo, by the model (pytezos and Tezos instance) and by the reference grammar. '
                'non-trivial = tree with >= 3 nodes, or a mutant of an encoding of >= 3 bytes; distinct = distinct tree / byte string')
    violations = 0

    def violate(what, replay, found=True):
        nonlocal violations
        if violations < 3:
            ctx.violation(what, replay, found=found)
        violations += 1

    # ---- tables: tags.py vs Codec/Prims.v, both directions, and the decoder's reverse table on all 256 bytes
    ctx.table('prim_tags (tags.py) name -> tag, 181 rows, vs Codec.Prims.prim_tag')
    ctx.table('forge.prim_int (decoder reverse table) on all 256 tag bytes vs Codec.Prims.known_prim / prim_name')
    PROTO_MAX = 0x9e   # the pinned protocol table (Codec/Prims.v) is exactly the tags 00..9e
    proto, helper = {}, []
    for k, v in prim_tags.items():
        if isinstance(v, (bytes, bytearray)) and len(v) == 1 and v[0] <= PROTO_MAX and isinstance(k, str):
            proto[k] = v[0]
        else:
            helper.append(k)
    # (B) for the table: every tag byte through the real decoder — a non-protocol tag must be rejected, a protocol tag accepted
    probe_bad = []
    for b in range(256):
        ok, val = run_unforge(bytes([3, b]))
        ctx.case(('primtag-probe', b), nontrivial=False, kind='primtag-probe:' + ('accepted' if ok else 'rejected'))
        if ok != (b <= PROTO_MAX):
            probe_bad.append(b)
            if ok:
                violate(f'prim tag {b:#04x} is not a protocol primitive but decodes', {'bytes': bytes([3, b]).hex(), 'decoded': val,
                        'repro': f"unforge_micheline(bytes.fromhex('{bytes([3, b]).hex()}'))"})
            else:
                violate(f'protocol primitive tag {b:#04x} no longer decodes', {'bytes': bytes([3, b]).hex(), 'error': repr(val),
                        'repro': f"unforge_micheline(bytes.fromhex('{bytes([3, b]).hex()}'))"})
    # (A) the tables themselves against the model's table
    table_problem = None
    try:
        def tag_lit(v):
            return copt(cbyte(v[0]) if isinstance(v, (bytes, bytearray)) and len(v) == 1 and v != b'\xee' else None)

        def name_lit(x):
            return cstr(x) if isinstance(x, str) and x.isascii() and x.isprintable() else '"?"%string'

        rev = dict(getattr(F, 'prim_int', {}))
        t1 = [(f'(inl {name_lit(k)})', f'({tag_lit(v)}, (false, None))') for k, v in prim_tags.items()]
        t2 = [(f'(inr {cbyte(b)})', f'(None, ({cbool(b in rev)}, {copt(name_lit(rev[b])) if b in rev else "None"}))') for b in range(256)]
        both = ctx.coq_mismatches('tab', IMPORTS, 'chk_tab', 'chk_tab_eqb', 'string + byte', 'option byte * (bool * option string)', t1 + t2, prelude=PRELUDE, shard=1000)
        bad = [i for i in both if i < len(t1)]
        bad2 = [i - len(t1) for i in both if i >= len(t1)]
        if bad or bad2:
            items = list(prim_tags.items())
            table_problem = {'rows': [(k, v.hex() if isinstance(v, (bytes, bytearray)) else repr(v)) for k, v in (items[i] for i in bad[:12])],
                             'tag_bytes': [f'{b:#04x}' for b in bad2[:16]]}
    except Exception as e:  # noqa: BLE001 — an unexpected shape of the implementation's table must not stop the check
        table_problem = {'error': f'{type(e).__name__}: {e}'[:600]}
    if table_problem and not probe_bad:
        # rows moved without changing which tags decode: look for a tree whose encoding changed
        violate('primitive table of tags.py differs from the pinned protocol table',
                {'correspondence': 'C05/tags.py prim_tags + forge.prim_int vs Codec.Prims.prims', **table_problem}, found=False)

    lap('tables')
    names = list(proto)
    names_by_tag = {v: k for k, v in proto.items()}

    # ---- replay the witnesses of fixed defects
    for f in ctx.known.get('fixed', []):
        w = f.get('witness', {})
        if 'bytes' in w:
            ok, val = run_unforge(bytes.fromhex(w['bytes']))
            ctx.case(('fixed', w['bytes']), nontrivial=False, kind='fixed-witness')
            if ok:
                violate(f"fixed defect is back: {f['what']}", {'bytes': w['bytes'], 'decoded': val, 'commit': f.get('commit'),
                        'repro': f"unforge_micheline(bytes.fromhex('{w['bytes']}'))"})

    # ---- corpus
    trees, raw = [], []
    for path in sorted(glob.glob(os.path.join(lib.VERIF, 'corpus', PROP, '*.json'))):
        doc = json.load(open(path))
        ctx.corpus_cases += 1
        if 'tree' in doc:
            trees.append(('corpus', doc['tree']))
        if 'bytes' in doc:
            raw.append(('corpus', bytes.fromhex(doc['bytes'])))

    # ---- structured stream
    n_small, n_mid, n_big = ctx.n(500, 5000), ctx.n(70, 1200), ctx.n(8, 150)
    for _ in range(n_small):
        trees.append(('small', gen_tree(rng, names, rng.choice([1, 2, 3, 4, 6, 9, 12]), big_ok=rng.random() < 0.1)[0]))
    for _ in range(n_mid):
        trees.append(('mid', gen_tree(rng, names, rng.choice([15, 20, 30, 45]), big_ok=False)[0]))
    for _ in range(n_big):
        trees.append(('big', gen_tree(rng, names, rng.choice([80, 120, 200, 200]), big_ok=rng.random() < 0.3)[0]))
    for _ in range(ctx.n(6, 60)):
        trees.append(('chain', chain(rng, names, rng.choice([10, 40, 90, 150]))))
    for _ in range(ctx.n(6, 80)):
        trees.append(('bigint', {'int': str(rng.choice([-1, 1]) * rng.getrandbits(rng.choice([2048, 4095, 4096])))}))
    for _ in range(ctx.n(80, 800)):   # ill-formed trees: correspondence only
        trees.append(('illformed', gen_tree(rng, names + helper[:3], rng.choice([1, 2, 4, 8, 15]), wf=False, big_ok=False)[0]))

    enc_cases, enc_meta = [], []
    seen_enc: dict = {}
    valid_encodings = []
    for kind, t in trees:
        ok, b = run_forge(t)
        if not ok:
            ctx.case(('forge-raises', repr(t)), nontrivial=False, kind=kind + ':forge-raises')
            okc, ctc = lib.call(lib.canon_micheline, t)
            if okc and py_wf(ctc, proto) and not isinstance(b, RecursionError):
                violate('forge_micheline raises on a well-formed expression', {'tree': ctc if tree_size(ctc) < 400 else None, 'error': repr(b)[:300],
                        'repro': 'forge_micheline(tree)'})
            continue
        try:
            ct = lib.canon_micheline(t)
            lit = cnode(ct)
        except Exception:  # noqa: BLE001  (e.g. lone surrogates)
            continue
        ok2, back = run_unforge(b)
        rt = bool(ok2) and lib.call(lib.canon_micheline, back) == (True, ct)
        wf = py_wf(ct, proto)
        size = tree_size(ct)
        ctx.case(json.dumps(ct, sort_keys=True), nontrivial=size >= 3, kind=f'{kind}:{"wf" if wf else "illformed"}',
                 sample={'tree': ct if size < 12 else f'<{size} nodes>', 'bytes': b.hex()[:120], 'roundtrip': rt})
        ctx.dist[f'size<={[s for s in (1, 2, 5, 10, 20, 50, 100, 1000) if size <= s][0]}'] += 1
        enc_cases.append((lit, f'({chex(b)}, ({cbool(rt)}, {cbool(wf)}))'))
        enc_meta.append((t, ct, b, rt, wf))
        # (B1) round trip
        if wf and not rt:
            violate('unforge_micheline(forge_micheline(t)) differs from t' if ok2 else 'unforge_micheline rejects forge_micheline(t)',
                    {'tree': ct if size < 400 else None, 'bytes': b.hex(), 'decoded': back if ok2 else repr(back),
                     'repro': f"t=...; unforge_micheline(forge_micheline(t))  # forged bytes: {b.hex()[:2000]}"})
        # (B2) injectivity
        key = json.dumps(ct, sort_keys=True)
        if wf:
            if seen_enc.setdefault(b, key) != key:
                violate('two different expressions have the same encoding', {'bytes': b.hex(), 'tree_a': json.loads(seen_enc[b]), 'tree_b': ct,
                        'repro': 'forge_micheline(tree_a) == forge_micheline(tree_b)'})
            if rt:
                valid_encodings.append(b)

    lap('structured:python')
    # ---- malformed stream
    for kind, m in handmade(rng, names_by_tag):
        raw.append((kind, m))
    small = [b for b in valid_encodings if 3 <= len(b) <= 40]
    other = [b for b in valid_encodings if 40 < len(b) <= 1500]
    rng.shuffle(small)
    rng.shuffle(other)
    for b in small[:ctx.n(40, 350)]:
        _, info = ref_decode(b, names_by_tag)
        raw += mutants(rng, b, info, per=ctx.n(8, 20), all_trunc=True)
    for b in other[:ctx.n(25, 250)]:
        try:
            _, info = ref_decode(b, names_by_tag)
        except (Bad, NonUtf8):
            continue
        raw += mutants(rng, b, info, per=ctx.n(6, 16), all_trunc=False)

    dec_cases, dec_meta = [], []
    seen_raw = set()
    for kind, m in raw:
        if m in seen_raw:
            continue
        seen_raw.add(m)
        ok, val = run_unforge(m)
        try:
            ref, _ = ref_decode(m, names_by_tag)
            ref_ok, ref_class = True, 'valid'
        except Bad as e:
            ref, ref_ok, ref_class = None, False, 'invalid:' + str(e)
        except NonUtf8:
            ref, ref_ok, ref_class = None, True, 'valid-for-tezos-nonutf8'
        except RecursionError:
            continue
        ctx.case(m, nontrivial=len(m) >= 3, kind=f'{kind}:{"accepted" if ok else "rejected"}',
                 sample={'bytes': m.hex()[:80], 'impl': 'accepted' if ok else 'rejected', 'reference': ref_class} if len(ctx.samples) >= 4 else None)
        ctx.dist['ref:' + ref_class.split(':')[0] + ('' if ref_ok else ':' + ref_class.split(':')[1])] += 1
        dec_cases.append((chex(m), f'({dres_lit(ok, val)}, {cbool(ref_ok)})'))
        dec_meta.append((kind, m, ok, val, ref_class))
        # (B3) accepts what Tezos rejects
        if ok and not ref_ok:
            violate(f'unforge_micheline accepts bytes the Tezos grammar rejects ({ref_class})', {'bytes': m.hex(), 'decoded': val, 'mutation': kind,
                    'repro': f"unforge_micheline(bytes.fromhex('{m.hex()[:4000]}'))"})
        # (B4) accepted, but decoded to another tree than the bytes denote
        elif ok and ref is not None and lib.canon_micheline(val) != lib.canon_micheline(ref):
            violate('unforge_micheline decodes to a different expression than the bytes denote', {'bytes': m.hex(), 'decoded': val, 'denoted': ref,
                    'repro': f"unforge_micheline(bytes.fromhex('{m.hex()[:4000]}'))"})

    lap('malformed:python')
    # one evaluation of the model over both streams (input: node + bytes), split evenly over the available cores
    all_cases = [(f'(inl {a})', f'(inl {b})') for a, b in enc_cases] + [(f'(inr {a})', f'(inr {b})') for a, b in dec_cases]
    order = list(range(len(all_cases)))
    rng.shuffle(order)      # balance the shards
    per = max(150, min(ctx.n(900, 600), -(-len(all_cases) // lib.n_jobs())))
    eval_error = None
    try:
        bad_all = ctx.coq_mismatches('cases', IMPORTS, 'chk_all', 'chk_all_eqb', 'node + bytes', '(bytes * (bool * bool)) + (dres node * bool)',
                                     [all_cases[i] for i in order], prelude=PRELUDE, shard=per)
    except lib.InternalError as e:   # the model could not be evaluated on what the implementation produced
        bad_all, eval_error = [], str(e)[-1500:]
    bad_all = sorted(order[i] for i in bad_all)
    bad_enc = [i for i in bad_all if i < len(enc_cases)]
    bad_dec = [i - len(enc_cases) for i in bad_all if i >= len(enc_cases)]
    lap('coqc')
    # ---- thorough tier: independent re-check of the compiled development by coqchk
    if ctx.thorough:
        import subprocess
        try:
            r = subprocess.run(['coqchk', '-silent', '-o', '-R', lib.THEORIES, 'PV', 'PV.Properties.C05', 'PV.Properties.C33', 'PV.Properties.C32'],
                               cwd=lib.COQ, stdout=subprocess.PIPE, stderr=subprocess.STDOUT, text=True, timeout=1500)
            tail = ' '.join(r.stdout.split())[-600:]
            clean = r.returncode == 0 and 'Axioms: <none>' in tail and 'type-in-type: <none>' in tail and 'unsafe (co)fixpoints: <none>' in tail
            ctx.extra['coqchk'] = {'returncode': r.returncode, 'clean': clean, 'summary': tail}
            if not clean:
                violate('coqchk does not accept the compiled development as axiom-free', {'theorem_file': 'Properties/C05.v', 'coqchk': tail}, found=False)
        except (OSError, subprocess.TimeoutExpired) as e:
            ctx.extra['coqchk'] = {'skipped': repr(e)[:200]}
        lap('coqchk')

    ctx.extra['literal_kb'] = {'structured': sum(len(a) + len(b) for a, b in enc_cases) // 1024, 'malformed': sum(len(a) + len(b) for a, b in dec_cases) // 1024}
    ctx.extra['structured_cases'] = len(enc_cases)
    ctx.extra['malformed_cases'] = len(dec_cases)
    ctx.extra['valid_fraction_of_malformed_stream'] = round(sum(1 for x in dec_meta if x[2]) / max(1, len(dec_meta)), 3)

    # ---- correspondence broke without a failing input of the property itself
    if violations == 0 and (bad_enc or bad_dec or eval_error):
        rep = {'correspondence': 'C05/forge_micheline+unforge_micheline vs Codec.MichelineBin.enc/dec_full', 'model_evaluation_error': eval_error,
               'disagreements': {'encode': len(bad_enc), 'decode': len(bad_dec)}}
        if bad_enc:
            i = min(bad_enc, key=lambda j: len(enc_cases[j][0]))
            t, ct, b, rt, wf = enc_meta[i]
            rep.update({'tree': ct, 'impl_bytes': b.hex(), 'impl_roundtrip': rt, 'harness_wf': wf,
                        'model': ctx.coq_eval(IMPORTS, f'chk_enc {enc_cases[i][0]}', prelude=PRELUDE)[:1500]})
        if bad_dec:
            i = min(bad_dec, key=lambda j: len(dec_meta[j][1]))
            kind, m, ok, val, ref_class = dec_meta[i]
            rep.update({'bytes': m.hex(), 'mutation': kind, 'impl': val if ok else 'rejected: ' + repr(val), 'reference_grammar': ref_class,
                        'model_dec': ctx.coq_eval(IMPORTS, f'chk_dec {chex(m)}', prelude=PRELUDE)[:1500],
                        'repro': f"unforge_micheline(bytes.fromhex('{m.hex()[:4000]}'))"})
        violate('implementation no longer corresponds to the model the theorems are about', rep, found=False)
