"""C16 — arithmetic and numeric conversions are exact.

(A) correspondence: the program `PUSH operands ; OP` executed by the real pytezos Interpreter vs
    Michelson/Arith.v `run` (evaluated by vm_compute inside coqc) — for every instruction of the
    property and every pair of scalar operand types (well-typed overloads with many boundary values,
    ill-typed combinations with a few), including operands the PUSH itself must refuse.
(B) the property's own oracle: an independent Python transcription of the Michelson reference
    (Euclidean division, shortest two's complement, mutez range, shift bound) applied to the
    implementation's results, plus BYTES;INT / BYTES;NAT round trips run on the interpreter.
"""
import glob
import json
import os

import lib
from lib import chex, clist


def cZ(n):
    """hexadecimal literals: Coq parses them much faster than long decimal ones"""
    return f'(-0x{-n:x})%Z' if n < 0 else f'(0x{n:x})%Z'


PROP = 'C16'
IMPORTS = 'From PV Require Import Michelson.Arith.'

BINARY = ['ADD', 'SUB', 'SUB_MUTEZ', 'MUL', 'EDIV', 'LSL', 'LSR', 'AND', 'OR', 'XOR']
UNARY = ['ABS', 'NEG', 'ISNAT', 'INT', 'NAT', 'BYTES', 'NOT']
SCALARS = ['int', 'nat', 'mutez', 'timestamp', 'bytes', 'bool']
M63 = 1 << 63

# overloads of the Michelson reference (top of stack first) -> used by the oracle and to steer generation
REF_BIN = {
    'ADD': {('nat', 'nat'): 'nat', ('nat', 'int'): 'int', ('int', 'nat'): 'int', ('int', 'int'): 'int',
            ('timestamp', 'int'): 'timestamp', ('int', 'timestamp'): 'timestamp', ('mutez', 'mutez'): 'mutez'},
    'SUB': {('nat', 'nat'): 'int', ('nat', 'int'): 'int', ('int', 'nat'): 'int', ('int', 'int'): 'int',
            ('timestamp', 'int'): 'timestamp', ('timestamp', 'timestamp'): 'int', ('mutez', 'mutez'): 'mutez'},
    'MUL': {('nat', 'nat'): 'nat', ('nat', 'int'): 'int', ('int', 'nat'): 'int', ('int', 'int'): 'int',
            ('mutez', 'nat'): 'mutez', ('nat', 'mutez'): 'mutez'},
    'EDIV': {('nat', 'nat'): ('nat', 'nat'), ('nat', 'int'): ('int', 'nat'), ('int', 'nat'): ('int', 'nat'),
             ('int', 'int'): ('int', 'nat'), ('mutez', 'nat'): ('mutez', 'mutez'), ('mutez', 'mutez'): ('nat', 'mutez')},
    'SUB_MUTEZ': {('mutez', 'mutez'): None},
    'LSL': {('nat', 'nat'): 'nat'}, 'LSR': {('nat', 'nat'): 'nat'},
    'AND': {('bool', 'bool'): 'bool', ('nat', 'nat'): 'nat', ('int', 'nat'): 'nat'},
    'OR': {('bool', 'bool'): 'bool', ('nat', 'nat'): 'nat'},
    'XOR': {('bool', 'bool'): 'bool', ('nat', 'nat'): 'nat'},
}
REF_UN = {
    'ABS': ['int'], 'NEG': ['int', 'nat'], 'ISNAT': ['int'], 'INT': ['nat', 'bytes'], 'NAT': ['bytes'],
    'BYTES': ['int', 'nat'], 'NOT': ['bool', 'nat', 'int'],
}
# accepted by pytezos although not an overload of the reference (issubclass tests; symmetric AND row)
LENIENT = {('AND', ('nat', 'int')), ('INT', ('mutez',)), ('BYTES', ('mutez',)), ('BYTES', ('timestamp',))}


# --------------------------------------------------------------------------------------------
# independent reference (oracle B)
# --------------------------------------------------------------------------------------------

def valid_operand(t, v):
    if t == 'nat':
        return v >= 0
    if t == 'mutez':
        return 0 <= v < M63
    return True


def spec_bytes(z, signed):
    """shortest big-endian (two's complement when signed) encoding, by search + digit extraction"""
    if z == 0:
        return b''
    n = 1
    while True:
        if signed:
            if -(1 << (8 * n - 1)) <= z < (1 << (8 * n - 1)):
                break
        elif z < (1 << (8 * n)):
            break
        n += 1
    u = z if z >= 0 else z + (1 << (8 * n))
    out = []
    for _ in range(n):
        out.append(u & 0xFF)
        u >>= 8
    return bytes(reversed(out))


def spec_value(b, signed):
    n = 0
    for i, x in enumerate(b):
        n += x * 256 ** (len(b) - 1 - i)
    if signed and b and (b[0] & 0x80):
        n -= 256 ** len(b)
    return n


def mz(z):
    return ('ok', ('mutez', z)) if 0 <= z < M63 else ('fail',)


def spec(op, args):
    """args: [(type, value)] top of stack first, all valid. -> ('ok', canon) | ('fail',) | None (no overload)."""
    tys = tuple(t for t, _ in args)
    vs = [v for _, v in args]
    if op in REF_BIN:
        if len(args) != 2 or tys not in REF_BIN[op]:
            return None
        a, b = vs
        rt = REF_BIN[op][tys]
        if op in ('ADD', 'SUB', 'MUL'):
            z = {'ADD': a + b, 'SUB': a - b, 'MUL': a * b}[op]
            return mz(z) if rt == 'mutez' else ('ok', (rt, z))
        if op == 'SUB_MUTEZ':
            return ('ok', ('none', 'mutez')) if a < b else ('ok', ('some', ('mutez', a - b)))
        if op == 'EDIV':
            qt, rty = rt
            if b == 0:
                return ('ok', ('none', ('pair', qt, rty)))
            r = a % abs(b)
            q = (a - r) // b
            assert a == b * q + r and 0 <= r < abs(b)
            return ('ok', ('some', ('pair', (qt, q), (rty, r))))
        if op in ('LSL', 'LSR'):
            if b > 256:
                return ('fail',)
            return ('ok', ('nat', a * 2 ** b if op == 'LSL' else a // 2 ** b))
        if tys == ('bool', 'bool'):
            return ('ok', ('bool', {'AND': a and b, 'OR': a or b, 'XOR': a != b}[op]))
        # bit by bit on two's complement, width large enough for both operands (result is non-negative)
        w = max(a.bit_length(), b.bit_length()) + 2
        f = {'AND': lambda x, y: x & y, 'OR': lambda x, y: x | y, 'XOR': lambda x, y: x ^ y}[op]
        z = 0
        for i in range(w):
            bit = f((a >> i) & 1, (b >> i) & 1)
            z |= bit << i
        return ('ok', ('nat', z))
    if len(args) != 1 or tys[0] not in REF_UN[op]:
        return None
    (t,), (a,) = tys, vs
    if op == 'ABS':
        return ('ok', ('nat', -a if a < 0 else a))
    if op == 'NEG':
        return ('ok', ('int', 0 - a))
    if op == 'ISNAT':
        return ('ok', ('none', 'nat')) if a < 0 else ('ok', ('some', ('nat', a)))
    if op == 'INT':
        return ('ok', ('int', a if t == 'nat' else spec_value(a, True)))
    if op == 'NAT':
        return ('ok', ('nat', spec_value(a, False)))
    if op == 'BYTES':
        return ('ok', ('bytes', spec_bytes(a, t == 'int')))
    if op == 'NOT':
        return ('ok', ('bool', not a)) if t == 'bool' else ('ok', ('int', -a - 1))
    return None


# --------------------------------------------------------------------------------------------
# running the implementation
# --------------------------------------------------------------------------------------------

def lit(t, v):
    if t == 'bytes':
        return '0x' + v.hex()
    if t == 'bool':
        return 'True' if v else 'False'
    return str(v)


def program(op, args):
    """args top of stack first -> Michelson text pushing the last one first"""
    return ' ; '.join([f'PUSH {t} {lit(t, v)}' for t, v in reversed(args)] + [op])


def canon_item(item):
    """typed stack item -> canonical nested tuple"""
    return canon(type(item).as_micheline_expr(), item.to_micheline_value(mode='optimized'))


def canon(ty, val):
    p = ty['prim']
    if p in ('int', 'nat', 'mutez', 'timestamp'):
        return (p, int(val['int']))
    if p == 'bytes':
        return ('bytes', bytes.fromhex(val['bytes']))
    if p == 'bool':
        return ('bool', val['prim'] == 'True')
    if p == 'pair':
        assert len(ty['args']) == 2 and val['prim'] == 'Pair' and len(val['args']) == 2
        return ('pair', canon(ty['args'][0], val['args'][0]), canon(ty['args'][1], val['args'][1]))
    if p == 'option':
        if val['prim'] == 'None':
            return ('none', canon_ty(ty['args'][0]))
        return ('some', canon(ty['args'][0], val['args'][0]))
    raise lib.InternalError(f'unexpected result type {ty}')


def canon_ty(ty):
    p = ty['prim']
    if p == 'pair':
        return ('pair', canon_ty(ty['args'][0]), canon_ty(ty['args'][1]))
    if p == 'option':
        return ('option', canon_ty(ty['args'][0]))
    return p


_INTERP = None


def interpreter():
    """one Interpreter (its PLY parser tables are expensive to build), reset before every program"""
    global _INTERP
    if _INTERP is None:
        from pytezos.michelson.repl import Interpreter
        _INTERP = Interpreter()
    _INTERP.reset()
    return _INTERP


def run_impl(text):
    """-> ('ok', canon) | ('fail',) | ('other', why)"""
    interp = interpreter()
    ok, res = lib.call(interp.execute, text)
    if not ok or res.error is not None:
        return ('fail',)
    items = list(interp.stack.items)
    if len(items) != 1:
        return ('other', f'{len(items)} items left on the stack')
    try:
        return ('ok', canon_item(items[0]))
    except lib.InternalError:
        raise
    except Exception as e:  # noqa: BLE001
        return ('other', f'cannot render result: {e!r}')


# --------------------------------------------------------------------------------------------
# Coq rendering
# --------------------------------------------------------------------------------------------

CT = {'int': 'TInt', 'nat': 'TNat', 'mutez': 'TMutez', 'timestamp': 'TTimestamp', 'bytes': 'TBytes', 'bool': 'TBool'}
CV = {'int': 'VInt', 'nat': 'VNat', 'mutez': 'VMutez', 'timestamp': 'VTs'}


def coq_ty(t):
    if isinstance(t, str):
        return CT[t]
    if t[0] == 'pair':
        return f'(TPair {coq_ty(t[1])} {coq_ty(t[2])})'
    return f'(TOption {coq_ty(t[1])})'


def coq_val(c):
    k = c[0]
    if k in CV:
        return f'({CV[k]} {cZ(c[1])})'
    if k == 'bytes':
        return f'(VBytes {chex(c[1])})'
    if k == 'bool':
        return f'(VBool {"true" if c[1] else "false"})'
    if k == 'pair':
        return f'(VPair {coq_val(c[1])} {coq_val(c[2])})'
    if k == 'some':
        return f'(VSome {coq_val(c[1])})'
    if k == 'none':
        return f'(VNone {coq_ty(c[1])})'
    raise lib.InternalError(f'cannot render {c!r}')


def coq_out(o):
    return f'(Ok {coq_val(o[1])})' if o[0] == 'ok' else 'Reject'


def coq_case(op, args):
    return f'({op}, {clist(coq_val((t, v)) for t, v in args)})'


# --------------------------------------------------------------------------------------------
# generators
# --------------------------------------------------------------------------------------------

def int_boundaries():
    out = {0, 1, 2, 3, 5, 7, 10, 100, 127, 128, 129, 255, 256, 257, M63 - 1, M63, M63 + 1, M63 - 2, 1 << 62, (1 << 64) - 1, 1 << 64}
    for k in list(range(1, 11)) + [16, 31, 32, 33, 64]:
        for d in (-1, 0, 1):
            out.add((1 << (8 * k)) + d)
            out.add((1 << (8 * k - 1)) + d)
    return sorted(out)


BOUND = int_boundaries()
# always present, whatever the PRNG draws
ESSENTIAL = [0, 1, 2, 127, 128, 129, 255, 256, 32767, 32768, 65535, 65536, M63 - 1, M63, M63 + 1, 1 << 64]
SHIFTS = [0, 1, 7, 8, 9, 63, 64, 255, 256, 257, 258, 300, 1000, 1 << 64]
BYTES_FIXED = [b'', b'\x00', b'\x01', b'\x7f', b'\x80', b'\xff', b'\x00\x80', b'\x00\x7f', b'\xff\x7f', b'\xff\x80',
               b'\x00\x00', b'\xff\xff', b'\x80\x00', b'\x7f\xff', b'\x00\xff', b'\x00\x00\x01', b'\xff\xff\xfe',
               b'\x80' + b'\x00' * 7, b'\x7f' + b'\xff' * 7, b'\x00' + b'\x80' + b'\x00' * 7, b'\xff' * 9, b'\x01' + b'\x00' * 32]


def gen_int(rng, signed=True):
    k = rng.random()
    if k < 0.55:
        v = rng.choice(BOUND)
    elif k < 0.75:
        v = rng.getrandbits(rng.choice([3, 7, 8, 9, 15, 16, 17, 31, 32, 62, 63, 64, 65, 127, 128]))
    elif k < 0.9:
        v = lib.boundary_ints(rng, signed=False)
    else:
        v = rng.getrandbits(rng.randrange(65, 1200))
    if signed and rng.random() < 0.5:
        v = -v
    return v


def gen_mutez(rng):
    k = rng.random()
    if k < 0.5:
        return rng.choice([0, 1, 2, 3, 1000000, (1 << 31), (1 << 32), (1 << 62) - 1, 1 << 62, (1 << 62) + 1, M63 - 2, M63 - 1])
    return rng.getrandbits(rng.choice([1, 8, 20, 31, 32, 33, 40, 62, 63]))


def gen_bytes(rng):
    k = rng.random()
    if k < 0.5:
        return rng.choice(BYTES_FIXED)
    n = rng.choice([1, 2, 3, 7, 8, 9, 16, 31, 32, 33, 40])
    body = bytes(rng.getrandbits(8) for _ in range(n))
    lead = rng.choice([b'', b'', b'\x00', b'\xff', b'\x00\x00', b'\xff\xff', b'\x80', b'\x7f'])
    return lead + body


def gen_val(rng, t, malformed=False):
    if t == 'int' or t == 'timestamp':
        return gen_int(rng)
    if t == 'nat':
        if malformed:
            return -1 - gen_int(rng, signed=False) % 1000
        return gen_int(rng, signed=False)
    if t == 'mutez':
        if malformed:
            return rng.choice([-1, M63, M63 + 1, 1 << 64, -M63])
        return gen_mutez(rng)
    if t == 'bytes':
        return gen_bytes(rng)
    return rng.random() < 0.5


def targeted(rng, op, tys):
    """operand pairs aimed at the decision points of one overload (returns list of value tuples)"""
    out = []
    if tys == ('mutez', 'mutez'):
        a = gen_mutez(rng)
        out += [(a, M63 - 1 - a), (a, M63 - a) if a else (1, M63 - 1), (a, a), (a, a + 1) if a + 1 < M63 else (a - 1, a), (a + 1 if a + 1 < M63 else a, a)]
        out += [(M63 - 1, M63 - 1), (0, 0), (M63 - 1, 0), (0, M63 - 1), (1 << 62, 1 << 62), ((1 << 62) - 1, 1 << 62)]
    if op == 'MUL' and 'mutez' in tys:
        n = rng.choice([1, 2, 3, 7, 1 << 31, 1 << 32, (1 << 32) + 1, 1000003])
        lo, hi = (M63 - 1) // n, (M63 - 1) // n + 1
        pairs = [(lo, n), (hi, n), (M63 - 1, 1), (M63 - 1, 2), (1 << 62, 2), (1 << 31, 1 << 32), (0, 1 << 70), (1, 1 << 63), (1, M63 - 1)]
        pairs = [(m, k) for m, k in pairs if 0 <= m < M63]
        out += pairs if tys[0] == 'mutez' else [(k, m) for m, k in pairs]
    if op == 'EDIV':
        a = gen_val(rng, tys[0])
        for b in (0, 1, 2, 3, 7, 256, a, a + 1, abs(a) + 1, -1, -2, -3, -7, -a if a else 5):
            if valid_operand(tys[1], b) and valid_operand(tys[0], a):
                out.append((a, b))
        d = gen_val(rng, tys[1])
        if d and valid_operand(tys[1], d):
            for q in (1, 2, -1, -3, 5):
                for r in (0, 1, abs(d) - 1):
                    x = d * q + r
                    if valid_operand(tys[0], x):
                        out.append((x, d))
    if op in ('LSL', 'LSR') and tys == ('nat', 'nat'):
        a = gen_int(rng, signed=False)
        out += [(a, s) for s in SHIFTS]
        out += [(0, 257), (1, 256), ((1 << 256) - 1, 256), (1 << 256, 256), ((1 << 256) + 1, 255)]
    if op in ('AND', 'OR', 'XOR') and 'bool' not in tys and 'bytes' not in tys:
        a, b = gen_val(rng, tys[0]), gen_val(rng, tys[1])
        out += [(a, b), (a, a), (a, 0), (0, b)]
        if tys[0] == 'int':
            out += [(-1, b), (-1 - abs(b), b), (-(1 << 64), b), (-(1 << 8), (1 << 16) - 1)]
    return [p for p in out if all(valid_operand(t, v) for t, v in zip(tys, p))]


def build_cases(ctx):
    rng = ctx.rng
    cases = []  # (kind, op, args)
    n_well, n_ill = ctx.n(14, 160), ctx.n(1, 6)
    # unary
    for op in UNARY:
        for t in SCALARS:
            well = t in REF_UN[op] or (op, (t,)) in LENIENT
            vals = []
            if well:
                if t in ('int', 'nat', 'timestamp', 'mutez') and op in ('BYTES', 'ABS', 'NEG', 'ISNAT', 'NOT', 'INT'):
                    pool = BOUND + [-x for x in BOUND] if t in ('int', 'timestamp') else BOUND
                    k = ctx.n(45, len(pool))
                    vals += ESSENTIAL + ([-x for x in ESSENTIAL] if t in ('int', 'timestamp') else [])
                    vals += rng.sample(pool, min(k, len(pool)))
                    vals = [v for v in vals if valid_operand(t, v)]
                if t == 'bytes':
                    vals += BYTES_FIXED
                vals += [gen_val(rng, t) for _ in range(n_well)]
            else:
                vals += [gen_val(rng, t) for _ in range(n_ill)]
            for v in vals:
                cases.append(('well' if well else 'ill', op, [(t, v)]))
            if t in ('nat', 'mutez'):
                cases.append(('badpush', op, [(t, gen_val(rng, t, malformed=True))]))
    # binary
    for op in BINARY:
        for ta in SCALARS:
            for tb in SCALARS:
                tys = (ta, tb)
                well = tys in REF_BIN[op] or (op, tys) in LENIENT
                pairs = []
                if well:
                    if 'bytes' not in tys and 'bool' not in tys:
                        x, y = gen_val(rng, ta), gen_val(rng, tb)
                        ess = [(0, 0), (0, y), (x, 0), (1, y), (x, 1), (1, 1), (x, x) if ta == tb else (x, y)]
                        if ta in ('int', 'timestamp'):
                            ess += [(-1, y), (-1, 0), (-abs(x) - 1, y)]
                        if tb in ('int', 'timestamp'):
                            ess += [(x, -1), (0, -1), (x, -abs(y) - 1)]
                        pairs += [p for p in ess if valid_operand(ta, p[0]) and valid_operand(tb, p[1])]
                    else:
                        pairs += [(False, False), (False, True), (True, False), (True, True)] if tys == ('bool', 'bool') else []
                    for _ in range(ctx.n(1, 6)):
                        pairs += targeted(rng, op, tys)
                    pairs += [(gen_val(rng, ta), gen_val(rng, tb)) for _ in range(n_well)]
                else:
                    pairs += [(gen_val(rng, ta), gen_val(rng, tb)) for _ in range(n_ill)]
                for a, b in pairs:
                    cases.append(('well' if well else 'ill', op, [(ta, a), (tb, b)]))
                if well and (ta in ('nat', 'mutez') or tb in ('nat', 'mutez')):
                    bad_first = ta in ('nat', 'mutez') and (tb not in ('nat', 'mutez') or rng.random() < 0.5)
                    a = gen_val(rng, ta, malformed=bad_first)
                    b = gen_val(rng, tb, malformed=not bad_first)
                    cases.append(('badpush', op, [(ta, a), (tb, b)]))
    # arity: too few operands
    for op in BINARY:
        cases.append(('arity', op, [('nat', 1)]))
        cases.append(('arity', op, []))
    for op in UNARY:
        cases.append(('arity', op, []))
    return cases


def corpus(ctx):
    out = []
    for path in sorted(glob.glob(os.path.join(lib.VERIF, 'corpus', PROP, '*.json'))):
        for c in json.load(open(path)):
            args = [(t, bytes.fromhex(v) if t == 'bytes' else v) for t, v in c['operands']]
            out.append(('corpus', c['op'], args))
    return out


# --------------------------------------------------------------------------------------------

def nontrivial(op, args):
    """well-typed with a boundary-ish operand: not all operands small"""
    return any((isinstance(v, bytes) and len(v) > 0) or (isinstance(v, int) and not isinstance(v, bool) and abs(v) > 100) for _, v in args)


def jsonable(c):
    if isinstance(c, tuple):
        return [jsonable(x) for x in c]
    if isinstance(c, bytes):
        return '0x' + c.hex()
    return c


def run(ctx: lib.Ctx) -> None:
    ctx.rule = ('program PUSH operands ; OP through pytezos Interpreter for each of the 17 instructions and every pair (or single) of '
                'scalar operand types int/nat/mutez/timestamp/bytes/bool; reference overloads get boundary values (0, +-1, 2^(8k)+-1, '
                '2^(8k-1)+-1, 2^63+-1, 2^64, up to 2000-bit integers, byte strings with redundant 00/ff prefixes, shifts 255..258) and '
                'targeted pairs (mutez sums/products at 2^63-1 and 2^63, exact multiples and negative divisors for EDIV); other type pairs '
                'a few values; invalid PUSH operands (negative nat, mutez >= 2^63) and missing operands as malformed stream. '
                'non-trivial = some operand is a non-empty byte string or an integer of magnitude > 100')
    ctx.table('dispatch tables of ADD SUB MUL EDIV SUB_MUTEZ LSL LSR AND OR XOR (probed: all 36 operand type pairs) and of ABS NEG ISNAT INT NAT BYTES NOT (all 6 types)')
    ctx.assumptions.append('C16: Coq Z.div/Z.modulo/Z.shiftl/Z.shiftr/Z.land/Z.lor/Z.lxor/Z.lnot/Z.log2 are taken as the meaning of Python //, %, <<, >>, &, |, ^, ~, bit_length (checked on every generated case); '
                           'the bytes overloads of AND/OR/XOR/NOT/LSL/LSR are absent from pytezos (rejected, never mis-computed) and count as outside the supported set')
    all_cases = corpus(ctx)
    ctx.corpus_cases = len(all_cases)
    all_cases += build_cases(ctx)

    coq_cases, meta, direct_bad, lenient_cases = [], [], [], []
    reported = 0
    for kind, op, args in all_cases:
        text = program(op, args)
        obs = run_impl(text)
        tys = tuple(t for t, _ in args)
        ctx.case((op, tuple(args)), nontrivial=kind in ('well', 'corpus') and nontrivial(op, args), kind=f'{op}:{kind}',
                 sample={'program': text if len(text) < 300 else text[:300] + '...', 'result': jsonable(obs)})
        ctx.dist['overload ' + op + ' ' + ' '.join(tys)] += 0  # keep the key space visible without flooding
        if (op, tys) in LENIENT and all(valid_operand(t, v) for t, v in args):
            # accepted by pytezos beyond the reference typing: outside the property; compared with the model for the
            # record only, a disagreement here (e.g. after a stricter type check lands) is reported in evidence, not alarmed on
            lenient_cases.append((coq_case(op, args), coq_out(obs) if obs[0] != 'other' else 'Reject'))
        elif obs[0] == 'other':
            direct_bad.append((text, obs))
        else:
            coq_cases.append((coq_case(op, args), coq_out(obs)))
            meta.append((kind, op, args, text, obs))
        # (B) reference oracle on specified, valid operands
        if all(valid_operand(t, v) for t, v in args):
            want = spec(op, args)
            if want is not None and obs != want and reported < 3:
                reported += 1
                ctx.violation(f'{op} on {" ".join(tys)}: result differs from the Michelson reference',
                              {'program': text, 'observed': jsonable(obs), 'expected': jsonable(want),
                               'repro': f"from pytezos.michelson.repl import Interpreter; i=Interpreter(); print(i.execute({text!r}).error, i.stack.items)"})
    # (B) round trips on the interpreter
    rt = 0
    pool = BOUND + [-x for x in BOUND]
    zs = ctx.rng.sample(pool, ctx.n(40, len(pool))) + [gen_int(ctx.rng) for _ in range(ctx.n(40, 600))]
    for z in zs:
        for t, back in (('int', 'INT'), ('nat', 'NAT')):
            if t == 'nat' and z < 0:
                continue
            text = f'PUSH {t} {z} ; BYTES ; {back}'
            obs = run_impl(text)
            rt += 1
            ctx.case(('rt', t, z), nontrivial=abs(z) > 100, kind=f'roundtrip:{t}')
            if obs != ('ok', (t, z)) and reported < 3:
                reported += 1
                ctx.violation(f'{t} -> bytes -> {t} does not return the original number',
                              {'program': text, 'observed': jsonable(obs), 'expected': jsonable(('ok', (t, z))),
                               'repro': f"from pytezos.michelson.repl import Interpreter; i=Interpreter(); print(i.execute({text!r}).error, i.stack.items)"})
    ctx.extra['roundtrips'] = rt
    # fixed defects must stay fixed
    for f in ctx.known['fixed']:
        w = f.get('witness', {})
        if 'program' in w:
            obs = run_impl(w['program'])
            if jsonable(obs) != w['expected'] and reported < 3:
                reported += 1
                ctx.violation(f'fixed defect is back: {f["what"]}', {'program': w['program'], 'observed': jsonable(obs), 'expected': w['expected'],
                                                                  'repro': f"Interpreter().execute({w['program']!r})"})

    allbad = ctx.coq_mismatches('arith', IMPORTS, 'fun c => run (fst c) (snd c)', 'res_eqb', 'op * list val', 'result val', coq_cases + lenient_cases)
    bad = [i for i in allbad if i < len(coq_cases)]
    lbad = [i for i in allbad if i >= len(coq_cases)]
    ctx.extra['lenient_acceptances'] = {'cases': len(lenient_cases), 'differ_from_model': len(lbad),
                                        'note': 'AND nat int, INT mutez, BYTES mutez/timestamp: outside the reference typing, not part of the verdict'}
    ctx.extra['model_disagreements'] = len(bad) + len(direct_bad)
    if reported == 0 and (bad or direct_bad):
        if bad:
            kind, op, args, text, obs = meta[bad[0]]
            rep = {'program': text, 'observed': jsonable(obs), 'model': ctx.coq_eval(IMPORTS, f'run {op} {coq_case(op, args).split(", ", 1)[1][:-1]}'),
                   'disagreements': len(bad), 'more': [meta[i][3] for i in bad[1:6]]}
        else:
            rep = {'program': direct_bad[0][0], 'observed': jsonable(direct_bad[0][1])}
        rep['correspondence'] = 'C16/Interpreter(PUSH..;OP) vs Michelson.Arith.run'
        ctx.violation('implementation no longer corresponds to the model the theorems are about', rep, found=False)


def replay(ctx: lib.Ctx, doc: dict) -> bool:
    """./check C16 --replay file : re-run the recorded program; True (exit 1) if it still deviates."""
    text = doc.get('program')
    if not text:
        return False
    obs = jsonable(run_impl(text))
    print('observed now:', obs)
    if 'expected' in doc:
        print('expected    :', doc['expected'])
        return obs != doc['expected']
    return obs != doc.get('observed')
