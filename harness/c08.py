"""C08 — key import, export and address derivation.

(A) correspondence: Key.from_secret_exponent / public_key / public_key_hash / secret_key (plain and encrypted) /
    from_encoded_key (incl. decryption) / validate_mnemonic / from_mnemonic / HASH_KEY of /repo, run with every native
    primitive routed through recording proxies (c07_keys.patched), against Client/KeyStore.v evaluated on the recorded
    oracle table by vm_compute inside coqc.
(B) the property itself on the unpatched implementation: the derived public key equals an independent derivation
    (`cryptography`; BLS: py_ecc's non-optimized curve + own compression); public_key_hash = base58check(tzN prefix ++
    blake2b-160(public point)) computed independently; export (plain / encrypted with any passphrase) then import
    yields the same key; HASH_KEY agrees; a mnemonic is accepted exactly when the BIP-39 rule (written from the standard
    with integers) holds; from_mnemonic is deterministic and equals an independent PBKDF2 derivation.
"""
from __future__ import annotations

import hashlib

import lib
from lib import cbool, clist, copt
import c07_keys as ck
from c07_keys import IMPORTS, PRELUDE, cblob, cpyin, cpystr, ckey, ctable, o_key, o_str, run_recorded

PROP = 'C08'


class Cases:
    def __init__(self, ctx):
        self.ctx = ctx
        self.cases: list[tuple[str, str]] = []
        self.meta: list[dict] = []

    def add(self, calls, op: str, out: str, meta: dict):
        self.cases.append((f'({ctable(calls)}, {op})', out))
        self.meta.append(meta)


def cpass(p) -> str:
    return copt(None if p is None else cpyin(p))


def show(v):
    if isinstance(v, (bytes, bytearray)):
        return {'bytes': bytes(v).hex()}
    return v


def grind_short_x(rng, curve: bytes) -> bytes:
    """A secret exponent of secp256k1 / P-256 whose public X coordinate has a leading zero byte (X < 2^248, about 1 key in 256),
    found with `cryptography` directly (not through pytezos); nothing cached across runs."""
    from cryptography.hazmat.primitives.asymmetric import ec
    crv = ec.SECP256K1() if curve == b'sp' else ec.SECP256R1()
    order = ck.SECP_N if curve == b'sp' else ck.P256_N
    for _ in range(20000):
        d = rng.randrange(1, order)
        if ec.derive_private_key(d, crv).public_key().public_numbers().x < (1 << 248):
            return d.to_bytes(32, 'big')
    return ck.rand_secret(rng, curve)


# ------------------------------------------------------------------------------------------------
# (A) runners
# ------------------------------------------------------------------------------------------------

def a_from_secret(cs, tag: bytes, se: bytes, kind: str):
    from pytezos.crypto.key import Key
    ok, k, calls = run_recorded(lambda: Key.from_secret_exponent(se, tag))
    cs.add(calls, f'(OpFromSecret {cblob(tag)} {cblob(se)})', o_key(ok, k),
           {'op': 'from_secret_exponent', 'curve': tag.decode('latin-1'), 'secret_exponent': se.hex(), 'observed': ck.key_tuple(k) if ok else repr(k)})
    cs.ctx.case(('fse', tag, se), nontrivial=ok, kind=f'from_secret:{kind}:{tag.decode("latin-1")}:{"ok" if ok else "reject"}')
    return k if ok else None


def a_key_text(cs, which: str, pub, sec, tag, kind: str):
    from pytezos.crypto.key import Key
    f = {'OpPublicKey': lambda: Key(pub, sec, tag).public_key(), 'OpPkh': lambda: Key(pub, sec, tag).public_key_hash()}[which]
    ok, v, calls = run_recorded(f)
    cs.add(calls, f'({which} {ckey(pub, sec, tag)})', o_str(ok, v),
           {'op': which, 'curve': tag.decode('latin-1'), 'public_point': pub.hex(), 'observed': v if ok else repr(v)})
    cs.ctx.case((which, tag, pub), nontrivial=ok, kind=f'{which}:{kind}:{"ok" if ok else "reject"}')
    return v if ok else None


def a_secret_key(cs, pub, sec, tag, passphrase, ed_seed: bool, salt: bytes, kind: str):
    from pytezos.crypto.key import Key
    ok, v, calls = run_recorded(lambda: Key(pub, sec, tag).secret_key(passphrase, ed_seed), salt=salt)
    cs.add(calls, f'(OpSecretKey {ckey(pub, sec, tag)} {cpass(passphrase)} {cbool(ed_seed)} {cblob(salt)})', o_str(ok, v),
           {'op': 'secret_key', 'curve': tag.decode('latin-1'), 'secret_exponent': None if sec is None else sec.hex(),
            'passphrase': show(passphrase), 'ed25519_seed': ed_seed, 'salt': salt.hex(), 'observed': v if ok else repr(v)})
    cs.ctx.case(('sk', tag, sec, passphrase, ed_seed, salt), nontrivial=ok, kind=f'secret_key:{kind}:{"ok" if ok else "reject"}',
                sample={'op': 'secret_key', 'curve': tag.decode('latin-1'), 'passphrase': repr(passphrase)[:30], 'result': (v if ok else repr(v))[:30]})
    return v if ok else None


def a_from_encoded(cs, text, passphrase, kind: str):
    from pytezos.crypto.key import Key
    ok, k, calls = run_recorded(lambda: Key.from_encoded_key(text, passphrase))
    cs.add(calls, f'(OpFromEncoded {cpyin(text)} {cpass(passphrase)})', o_key(ok, k),
           {'op': 'from_encoded_key', 'key': show(text), 'passphrase': show(passphrase), 'observed': ck.key_tuple(k) if ok else repr(k)})
    cs.ctx.case(('fek', text, passphrase), nontrivial=True, kind=f'from_encoded:{kind}:{"ok" if ok else "reject"}')
    return k if ok else None


def a_hash_key(cs, pk: str, kind: str):
    ok, v, calls = run_recorded(lambda: ck.hash_key_impl(pk))
    cs.add(calls, f'(OpHashKey {cpystr(pk)})', o_str(ok, v), {'op': 'HASH_KEY', 'key': pk, 'observed': v if ok else repr(v)})
    cs.ctx.case(('hash_key', pk), nontrivial=ok, kind=f'HASH_KEY:{kind}:{"ok" if ok else "reject"}')
    return v if ok else None


def a_validate(cs, mn: str, kind: str):
    from pytezos.crypto.key import validate_mnemonic
    ok, v, calls = run_recorded(lambda: validate_mnemonic(mn))
    out = f'(OUnit {ck.cres("tt" if ok else None)})'
    cs.add(calls, f'(OpValidate {cpystr(mn)})', out, {'op': 'validate_mnemonic', 'mnemonic': mn, 'observed': 'accepted' if ok else repr(v)})
    cs.ctx.case(('validate', mn), nontrivial=len(mn.split(' ')) >= 12, kind=f'validate:{kind}:{"accept" if ok else "reject"}',
                sample={'op': 'validate_mnemonic', 'words': len(mn.split(' ')), 'kind': kind, 'accepted': ok})
    return ok


def a_from_mnemonic(cs, mn, passphrase: str, email: str, validate: bool, tag: bytes, kind: str):
    from pytezos.crypto.key import Key
    ok, k, calls = run_recorded(lambda: Key.from_mnemonic(mn, passphrase=passphrase, email=email, validate=validate, curve=tag))
    lit = f'(@inl (list pystr) pystr {clist(cpystr(w) for w in mn)})' if isinstance(mn, list) else f'(@inr (list pystr) pystr {cpystr(mn)})'
    cs.add(calls, f'(OpFromMnemonic {lit} {cpystr(passphrase)} {cpystr(email)} {cbool(validate)} {cblob(tag)})', o_key(ok, k),
           {'op': 'from_mnemonic', 'mnemonic': mn, 'passphrase': passphrase, 'email': email, 'validate': validate,
            'curve': tag.decode('latin-1'), 'observed': ck.key_tuple(k) if ok else repr(k)})
    cs.ctx.case(('fm', repr(mn), passphrase, email, validate, tag), nontrivial=ok, kind=f'from_mnemonic:{kind}:{tag.decode("latin-1")}:{"ok" if ok else "reject"}')
    return k if ok else None


# ------------------------------------------------------------------------------------------------
# mnemonic generators
# ------------------------------------------------------------------------------------------------

def valid_mnemonic(rng, nwords: int) -> list[str]:
    ent = rng.randbytes(nwords * 4 // 3)
    k = rng.random()
    if k < 0.1:
        ent = bytes(len(ent))
    elif k < 0.2:
        ent = b'\xff' * len(ent)
    return ck._mnemonic().to_mnemonic(ent).split(' ')


def mnemonic_variants(rng, words: list[str]):
    """(kind, text) — valid and damaged versions of a valid mnemonic"""
    wl = ck._mnemonic().wordlist
    yield 'valid', ' '.join(words)
    w = list(words)
    i = rng.randrange(len(w))
    w[i] = rng.choice([x for x in wl if x != w[i]])
    yield 'one-word-changed', ' '.join(w)
    w = list(words)
    w[-1] = wl[wl.index(w[-1]) ^ 1]                     # lowest checksum bit flipped
    yield 'last-bit-flipped', ' '.join(w)
    w = list(words)
    w[0] = wl[wl.index(w[0]) ^ 1024]                    # highest entropy bit flipped
    yield 'first-bit-flipped', ' '.join(w)
    w = list(words)
    i, j = rng.sample(range(len(w)), 2)
    w[i], w[j] = w[j], w[i]
    yield 'order-changed', ' '.join(w)
    w = list(words)
    w[rng.randrange(len(w))] = rng.choice(['tezos', 'zzz', 'Abandon', 'abandon.', 'ábandon', ''])
    yield 'unknown-word', ' '.join(w)
    yield 'one-word-less', ' '.join(words[:-1])
    yield 'one-word-more', ' '.join(words + [rng.choice(wl)])
    yield 'three-words-less', ' '.join(words[:-3])          # another valid count unless 12, checksum almost surely wrong
    yield 'double-space', ' '.join(words[:3]) + '  ' + ' '.join(words[3:])
    yield 'trailing-space', ' '.join(words) + ' '
    yield 'upper-case', ' '.join(words).upper()
    yield 'full-width', ' '.join(words).replace('a', 'ａ', 1)   # NFKD maps it back to 'a'
    yield 'ideographic-space', '　'.join(words)                 # NFKD maps U+3000 to a space


# ------------------------------------------------------------------------------------------------
# from_mnemonic sequences in one process
# ------------------------------------------------------------------------------------------------

def mnemonic_sequences(ctx, cs, report):
    """Consecutive Key.from_mnemonic calls in one process that share some of (mnemonic, passphrase, email) and differ in the rest
    (same mnemonic + passphrase / other email; same email / other passphrase; email and passphrase swapped; a split of the same
    concatenation, which legitimately gives the same key; a repetition of the first call; list vs str input): every result is
    compared with the independent PBKDF2 derivation — a result must not depend on the calls made before."""
    from pytezos.crypto.key import Key
    rng = ctx.rng
    for nwords in ((12, 24) if not ctx.thorough else (12, 15, 18, 21, 24, 12, 24)):
        words = valid_mnemonic(rng, nwords)
        other = valid_mnemonic(rng, nwords)
        text = ' '.join(words)
        curve = rng.choice([b'ed', b'sp', b'p2'])
        pA, pB = rng.choice([('pw', 'pw2'), ('', 'x'), ('secret', 'Secret')])
        eA, eB = rng.choice([('a@b.c', 'b@b.c'), ('', 'e@x'), ('é@x', 'e@x')])
        steps = [(text, pA, eA), (text, pA, eB), (text, pB, eB), (text, pB, eA), (text, eA, pA), (text, pA, eA),
                 (' '.join(other), pA, eA), (text, pA + eA[:1], eA[1:]), (text, '', eA + pA), (text, pA, eA)]
        done = []
        for i, (mn, pw, em) in enumerate(steps):
            as_list = i % 3 == 1
            arg = mn.split(' ') if as_list else mn
            ok, k = lib.call(Key.from_mnemonic, arg, passphrase=pw, email=em, curve=curve)
            ref_pub = ck.ref_public_point(curve, ck.ref_mnemonic_secret(mn, pw, em))
            done.append({'mnemonic': mn, 'passphrase': pw, 'email': em, 'as_list': as_list,
                         'public_point': k.public_point.hex() if ok else repr(k), 'independent': None if ref_pub is None else ref_pub.hex()})
            ctx.case(('fm-seq', mn, pw, em, i), nontrivial=ok, kind=f'from_mnemonic-sequence:step{i}:{"ok" if ok else "fails"}')
            if ref_pub is not None and not (ok and k.public_point == ref_pub):
                report(f'from_mnemonic call {i + 1} of a sequence in one process differs from the independent derivation '
                       f'(mnemonic / passphrase / email partly shared with earlier calls: the result depends on history)',
                       {'curve': curve.decode(), 'sequence': done,
                        'repro': 'in one process: ' + '; '.join(
                            f"Key.from_mnemonic({d['mnemonic']!r}, passphrase={d['passphrase']!r}, email={d['email']!r}, curve=b'{curve.decode()}').public_point.hex()"
                            for d in done)})
                break
        # the same shape under the recorder for the stateless model (A): fresh mnemonic so that nothing above is shared
        w2 = valid_mnemonic(rng, nwords)
        for pw, em in ((pA, eA), (pA, eB), (pB, eB)):
            a_from_mnemonic(cs, ' '.join(w2), pw, em, True, curve, 'sequence')


# ------------------------------------------------------------------------------------------------
# from_mnemonic acceptance for every input form
# ------------------------------------------------------------------------------------------------

def mnemonic_forms(ctx, cs, report):
    """Key.from_mnemonic(validate=True) for the mnemonic given as str, list, tuple, and through Key.from_faucet (dict and JSON
    file, words as a list) x validity (valid, one word changed, order changed, unknown word, one word less / more): accepted
    exactly when the BIP-39 rule (integer reference) holds. A tuple is outside the documented argument type (the unchanged code
    refuses every tuple with TypeError), so for tuples only `never accepted when invalid` is demanded."""
    import json
    import os
    import tempfile
    import unicodedata
    from pytezos.crypto.key import Key
    rng = ctx.rng
    wl = ck._mnemonic().wordlist
    for nwords in ((12, 15, 24) if not ctx.thorough else (12, 15, 18, 21, 24, 12, 24)):
        words = valid_mnemonic(rng, nwords)
        variants = [('valid', list(words))]
        w = list(words)
        i = rng.randrange(len(w))
        w[i] = rng.choice([x for x in wl if x != w[i]])
        variants.append(('one-word-changed', w))
        w = list(words)
        i, j = rng.sample(range(len(w)), 2)
        w[i], w[j] = w[j], w[i]
        variants.append(('order-changed', w))
        w = list(words)
        w[rng.randrange(len(w))] = rng.choice(['tezos', 'zzz', 'Abandon'])
        variants.append(('unknown-word', w))
        variants.append(('one-word-less', list(words[:-1])))
        variants.append(('one-word-more', list(words) + [rng.choice(wl)]))
        variants.append(('three-words-less', list(words[:-3])))
        for kind, ws in variants:
            want = ck.ref_bip39_valid(unicodedata.normalize('NFKD', ' '.join(ws)).split(' '))
            pw, email = rng.choice([('', ''), ('pw', 'a@b.c')])
            # what the key would be if the words were taken as they are (so that from_faucet's pkh comparison cannot hide anything)
            ref_pub = ck.ref_public_point(b'ed', ck.ref_mnemonic_secret(' '.join(ws), pw, email))
            pkh = ck.ref_pkh(b'ed', ref_pub) if ref_pub is not None else None
            faucet = {'mnemonic': list(ws), 'password': pw, 'email': email, 'activation_code': 'ab' * 20, 'pkh': pkh}
            forms = [('str', lambda: Key.from_mnemonic(' '.join(ws), passphrase=pw, email=email)),
                     ('list', lambda: Key.from_mnemonic(list(ws), passphrase=pw, email=email)),
                     ('tuple', lambda: Key.from_mnemonic(tuple(ws), passphrase=pw, email=email))]
            if pkh is not None:
                forms.append(('faucet-dict', lambda: Key.from_faucet(dict(faucet))))
                if kind in ('valid', 'order-changed') or ctx.thorough:
                    def from_file():
                        fd, path = tempfile.mkstemp(suffix='.json', prefix='c08-faucet-')
                        try:
                            with os.fdopen(fd, 'w') as f:
                                json.dump(faucet, f)
                            return Key.from_faucet(path)
                        finally:
                            os.unlink(path)
                    forms.append(('faucet-file', from_file))
            for form, f in forms:
                ok, k = lib.call(f)
                ctx.case(('fm-form', form, tuple(ws), pw, email), nontrivial=True, kind=f'from_mnemonic-form:{form}:{kind}:{"accepted" if ok else type(k).__name__}')
                bad = (ok and not want) or (not ok and want and form != 'tuple')
                if bad:
                    arg = {'str': repr(' '.join(ws)), 'list': repr(list(ws)), 'tuple': repr(tuple(ws))}.get(form)
                    repro = (f"Key.from_mnemonic({arg}, passphrase={pw!r}, email={email!r})" if arg else f"Key.from_faucet({faucet!r})")
                    report(f'from_mnemonic ({form} form, validate=True) {"accepts" if ok else "rejects"} a mnemonic whose BIP-39 checksum / word count is '
                           f'{"invalid" if ok else "valid"} ({kind})',
                           {'form': form, 'kind': kind, 'words': list(ws), 'passphrase': pw, 'email': email, 'bip39_valid': want,
                            'observed': k.public_key_hash() if ok else repr(k), 'repro': repro})
            # (A) the list and str forms under the recorder
            if kind in ('valid', 'order-changed', 'one-word-less') or ctx.thorough:
                a_from_mnemonic(cs, list(ws), pw, email, True, b'ed', f'form-list-{kind}')
                if ctx.thorough:
                    a_from_mnemonic(cs, ' '.join(ws), pw, email, True, b'ed', f'form-str-{kind}')


# ------------------------------------------------------------------------------------------------
# run
# ------------------------------------------------------------------------------------------------

def run(ctx: lib.Ctx) -> None:
    from pytezos.crypto.encoding import base58_decode, base58_encode
    from pytezos.crypto.key import Key, validate_mnemonic

    rng = ctx.rng
    ctx.rule = ('random secret exponents / seeds of the four curves (uniform and boundary scalars, 64-byte Ed25519 secret keys, malformed lengths, 0, '
                '>= group order, unknown curve) -> public key, public key hash, HASH_KEY; export plain / encrypted (passphrases: none, empty str/bytes, '
                'ASCII, multi-byte UTF-8 incl. astral, bytes, lone surrogate) with random salts, import with the right / wrong / missing passphrase and of '
                'damaged texts (checksum, truncation, foreign prefix, re-labelled payload); mnemonics of 12..24 words: valid, one word / one bit changed, '
                'order changed, unknown word, wrong count, spacing and normalisation variants; from_mnemonic with str and list input x passphrase x email x '
                'validate x curve; sequences of from_mnemonic calls in one process sharing part of (mnemonic, passphrase, email), each compared with an independent derivation; from_mnemonic acceptance for str / list / tuple / from_faucet(dict, file) x valid / one word changed / order changed / unknown word / wrong count against the integer BIP-39 reference. non-trivial = the operation succeeded or the text has >= 12 words; distinct = distinct (operation, arguments).')
    ctx.assumptions.append(
        'native cryptography (key derivation of libsodium / libsecp256k1 / fastecdsa / py_ecc, blake2b, sha256, pbkdf2, secretbox, base58check, the mnemonic '
        "package's NFKD normalisation, word list and to_seed) is trusted: the theorems assume of it exactly the laws `store_laws` / `b58_laws`; in the "
        'correspondence run its recorded answers are the oracle table')
    violations: list[tuple[str, dict]] = []

    def report(what, replay):
        if len(violations) < 3:
            violations.append((what, replay))

    cs = Cases(ctx)
    ctx.table('VALID_MNEMONIC_LENGTHS; english word list has 2048 entries')
    import pytezos.crypto.key as K
    table_ok = list(K.VALID_MNEMONIC_LENGTHS) == [12, 15, 18, 21, 24] and len(ck._mnemonic().wordlist) == 2048

    # ---- keys: derivation, texts, export / import
    per_curve = {b'ed': ctx.n(3, 40), b'sp': ctx.n(3, 40), b'p2': ctx.n(3, 40), b'BL': ctx.n(2, 30)}
    for curve in ck.CURVES:
        c = curve.decode()
        for ki in range(per_curve[curve]):
            secret = ck.rand_secret(rng, curve)
            if curve in (b'sp', b'p2') and ki == 0:
                try:
                    secret = grind_short_x(rng, curve)      # rare shape: public X with a leading zero byte
                    ctx.dist[f'short-public-x:{curve.decode()}'] += 1
                except ImportError:
                    pass
            if curve == b'ed' and ki % 3 == 1:      # a well-formed 64-byte libsodium secret key
                import pysodium
                secret = pysodium.crypto_sign_seed_keypair(secret)[1]
            k = a_from_secret(cs, curve, secret, 'valid')
            mk = f"Key.from_secret_exponent(bytes.fromhex('{secret.hex()}'), b'{c}')"
            base = {'curve': c, 'secret_exponent': secret.hex()}
            if k is None:
                report(f'key derivation failed for a valid {c} secret', {**base, 'repro': mk})
                continue
            pub, sec = k.public_point, k.secret_exponent
            # (B) independent public key
            ref = ck.ref_public_point(curve, secret)
            ctx.dist[f'independent-pk:{c}:{"n/a" if ref is None else ref == pub}'] += 1
            if ref is not None and ref != pub:
                report('the derived public key differs from an independent derivation', {**base, 'observed': pub.hex(), 'independent': ref.hex(), 'repro': mk + '.public_point'})
            pk_txt = a_key_text(cs, 'OpPublicKey', pub, sec, curve, 'valid')
            pkh = a_key_text(cs, 'OpPkh', pub, sec, curve, 'valid')
            # (B) pkh
            want = ck.ref_pkh(curve, pub)
            if pkh != want:
                report('public_key_hash is not base58check(tzN prefix + blake2b-160(public point))', {**base, 'observed': pkh, 'expected': want, 'repro': mk + '.public_key_hash()'})
            if pk_txt is None:
                report('public_key() failed', {**base, 'repro': mk + '.public_key()'})
                continue
            hk = a_hash_key(cs, pk_txt, 'valid')
            if hk != want:
                report('HASH_KEY differs from the public key hash', {**base, 'key': pk_txt, 'observed': hk, 'expected': want})
            kp = a_from_encoded(cs, pk_txt if rng.random() < 0.7 else pk_txt.encode(), None, 'public')
            if kp is None or ck.key_tuple(kp) != (pub, None, curve):
                report('importing the exported public key does not give the public half', {**base, 'key': pk_txt, 'repro': f"Key.from_encoded_key('{pk_txt}')"})
            # export / import
            passes = [None, rng.choice(['', b'']), ck.rand_passphrase(rng), ck.rand_passphrase(rng)]
            if ki == 0:
                passes.append('\ud800x')      # cannot be encoded: export is refused
            for p in passes:
                salt = rng.choice([rng.randbytes(8), bytes(8), b'\xff' * 8]) if rng.random() < 0.3 else rng.randbytes(8)
                for ed_seed in ([True, False] if (curve == b'ed' or rng.random() < 0.2) else [True]):
                    txt = a_secret_key(cs, pub, sec, curve, p, ed_seed, salt, 'encrypted' if p else 'plain')
                    encodable = not (isinstance(p, str) and '\ud800' in p)
                    should_work = (not p) or (ed_seed and encodable)
                    rp = {**base, 'passphrase': show(p), 'ed25519_seed': ed_seed, 'salt': salt.hex(),
                          'repro': f'k={mk}; Key.from_encoded_key(k.secret_key({p!r}, {ed_seed}), {p!r}) vs k'}
                    if txt is None:
                        if should_work:
                            report('exporting the secret key failed', rp)
                        continue
                    p_in = p
                    if p and rng.random() < 0.3:    # the same passphrase in the other Python type
                        p_in = p.encode() if isinstance(p, str) else (p.decode() if all(b < 128 for b in p) else p)
                    if not p and rng.random() < 0.5:
                        p_in = rng.choice([None, '', 'unused'])
                    k2 = a_from_encoded(cs, txt if rng.random() < 0.8 else txt.encode(), p_in, 'roundtrip')
                    # (B) round trip on the unpatched code
                    ok, k3 = lib.call(Key.from_encoded_key, txt, p_in)
                    if not ok or ck.key_tuple(k3) != (pub, sec, curve):
                        report('export followed by import does not yield the same key', {**rp, 'exported': txt, 'imported': ck.key_tuple(k3) if ok else repr(k3)})
                    if p:
                        wrong = rng.choice([p + (b'x' if isinstance(p, bytes) else 'x'), 'wrong', b'\x00', ''])
                        # HMAC pads its key with zero bytes: passphrases that differ only in trailing NUL bytes ('\x00' and '')
                        # derive the same PBKDF2 key, so one opens what the other locked — not a wrong passphrase in effect
                        enc = lambda x: (x.encode() if isinstance(x, str) else x).rstrip(b'\x00')  # noqa: E731
                        if wrong != p:
                            kw = a_from_encoded(cs, txt, wrong, 'wrong-passphrase')
                            if kw is not None and enc(wrong) != enc(p):
                                report('an encrypted key was imported with a wrong passphrase', {**rp, 'exported': txt, 'wrong': show(wrong)})
                        a_from_encoded(cs, txt, None, 'missing-passphrase')
                    # damaged texts
                    i = rng.randrange(5, len(txt))
                    dmg = [('bad-checksum', txt[:i] + ('2' if txt[i] != '2' else '3') + txt[i + 1:]), ('truncated', txt[:-1]), ('extended', txt + '1')]
                    raw = base58_decode(txt.encode())
                    other = rng.choice([x for x in ck.CURVES if x != curve])
                    lab = other + (b'esk' if p else b'sk')
                    ok_l, relabelled = lib.call(base58_encode, raw, lab)
                    if ok_l:
                        dmg.append(('relabelled-' + other.decode(), relabelled.decode()))
                    for kind, t in rng.sample(dmg, 2):
                        a_from_encoded(cs, t, p_in, 'damaged-' + kind)
            # keys that cannot be exported
            a_secret_key(cs, pub, None, curve, None, True, bytes(8), 'no-secret')
            a_secret_key(cs, pub, b'', curve, 'x', True, bytes(8), 'empty-secret')
            if curve != b'ed':
                a_secret_key(cs, pub, sec[:-1], curve, None, True, bytes(8), 'short-secret')
            a_key_text(cs, 'OpPublicKey', pub[:-1], None, curve, 'short-point')
            a_key_text(cs, 'OpPkh', pub, None, rng.choice([b'xx', b'', b'ED']), 'unknown-curve')
            a_key_text(cs, 'OpPublicKey', pub, None, rng.choice([b'xx', b'', b'ED']), 'unknown-curve')
        # malformed secrets
        order = {b'sp': ck.SECP_N, b'p2': ck.P256_N, b'BL': ck.BLS_R}.get(curve)
        bad = [b'', bytes(32), rng.randbytes(31), rng.randbytes(33), rng.randbytes(64), rng.randbytes(16)]
        if order:
            bo = 'little' if curve == b'BL' else 'big'
            bad += [order.to_bytes(32, bo), (order + 1).to_bytes(32, bo), b'\xff' * 32]
        for se in bad:
            k = a_from_secret(cs, curve, se, 'malformed')
            if k is not None and k.public_point:
                a_key_text(cs, 'OpPublicKey', k.public_point, k.secret_exponent, curve, 'from-malformed')
                a_secret_key(cs, k.public_point, k.secret_exponent, curve, None, True, bytes(8), 'from-malformed')
    for tag in (b'xx', b'', b'e', b'edd', b'ED'):
        a_from_secret(cs, tag, rng.randbytes(32), 'unknown-curve')

    # other texts handed to from_encoded_key
    some = Key.from_secret_exponent(ck.rand_secret(rng, b'ed'), b'ed')
    for t in [some.public_key_hash(), some.sign(b'x'), 'edpk', '', 'ed', 'xxpk' + 'a' * 50, some.public_key().replace('edpk', 'edXk'),
              some.public_key().replace('edpk', 'edek'), some.secret_key().replace('edsk', 'edes'), some.public_key().encode().hex(), 'sppk' + some.public_key()[4:]]:
        a_from_encoded(cs, t, None, 'foreign-text')

    # ---- mnemonics
    n_mn = ctx.n(2, 25)
    for nwords in (12, 15, 18, 21, 24):
        for _ in range(n_mn):
            words = valid_mnemonic(rng, nwords)
            for kind, text in mnemonic_variants(rng, words):
                if not ctx.thorough and kind not in ('valid', 'one-word-changed', 'last-bit-flipped', 'first-bit-flipped', 'order-changed') and rng.random() < 0.5:
                    continue
                acc = a_validate(cs, text, f'{nwords}:{kind}')
                # (B) accepted exactly when the BIP-39 checksum rule holds for the words the library sees
                import unicodedata
                seen = unicodedata.normalize('NFKD', text).split(' ')
                want = ck.ref_bip39_valid(seen)
                if acc != want:
                    report(f'validate_mnemonic {"accepts" if acc else "rejects"} a mnemonic whose BIP-39 checksum is {"invalid" if acc else "valid"}',
                           {'mnemonic': text, 'kind': kind, 'repro': f'validate_mnemonic({text!r})'})
                lib_says = ck._mnemonic().check(text)
                ctx.dist[f'mnemonic-lib-agrees:{lib_says == acc}'] += 1
            # from_mnemonic
            for _ in range(ctx.n(1, 2)):
                curve = rng.choice(ck.CURVES)
                pw = rng.choice(['', 'secret', 'pässwörd', '\U0001f600', 'ＡＢ'])
                email = rng.choice(['', 'a@b.c', 'é@x'])
                as_list = rng.random() < 0.5
                k = a_from_mnemonic(cs, words if as_list else ' '.join(words), pw, email, True, curve, 'valid')
                rp = {'mnemonic': ' '.join(words), 'passphrase': pw, 'email': email, 'curve': curve.decode(),
                      'repro': f"Key.from_mnemonic({' '.join(words)!r}, passphrase={pw!r}, email={email!r}, curve=b'{curve.decode()}')"}
                ok1, k1 = lib.call(Key.from_mnemonic, ' '.join(words), passphrase=pw, email=email, curve=curve)
                ok2, k2 = lib.call(Key.from_mnemonic, list(words), passphrase=pw, email=email, curve=curve)
                ref_se = ck.ref_mnemonic_secret(' '.join(words), pw, email)
                if curve == b'BL' and not 0 < int.from_bytes(ref_se, 'little') < ck.BLS_R:
                    # The first 32 seed bytes, read little-endian, are not a BLS12-381 scalar (>= group order r, about 55 % of all
                    # mnemonics): py_ecc refuses them, so there is no key of the curve to speak about.  Outside C08's statement
                    # ("every secret key of each curve"); determinism still demands that every call fails alike.
                    ctx.dist['from_mnemonic:BL-seed-not-a-scalar'] += 1
                    if ok1 or ok2 or k is not None:
                        report('from_mnemonic built a BLS key from seed bytes that are not a scalar of the curve', rp)
                    continue
                if not (ok1 and ok2 and k is not None and ck.key_tuple(k1) == ck.key_tuple(k2) == ck.key_tuple(k)):
                    report('from_mnemonic is not deterministic / fails on a valid mnemonic', rp)
                    continue
                ref_pub = ck.ref_public_point(curve, ref_se)
                if ref_pub is not None and ref_pub != k1.public_point:
                    report('from_mnemonic differs from an independent derivation (PBKDF2-HMAC-SHA512 seed, first 32 bytes)', {**rp, 'observed': k1.public_point.hex(), 'independent': ref_pub.hex()})
            # invalid mnemonic: refused with validation, accepted without
            bad_words = list(words)
            bad_words[1], bad_words[2] = bad_words[2], bad_words[1]
            if bad_words != words:
                curve = rng.choice([b'ed', b'sp', b'p2'])
                a_from_mnemonic(cs, bad_words, '', '', True, curve, 'order-changed')
                a_from_mnemonic(cs, ' '.join(bad_words), 'pw', '', False, curve, 'order-changed-novalidate')
            a_from_mnemonic(cs, words, '', '', True, rng.choice([b'xx', b'']), 'unknown-curve')
    mnemonic_sequences(ctx, cs, report)
    mnemonic_forms(ctx, cs, report)
    for text in ['', ' ', 'abandon', 'abandon ' * 11 + 'about', 'abandon ' * 12, ('zoo ' * 11 + 'wrong'), ('zoo ' * 23 + 'vote'), 'legal winner thank year wave sausage worth useful legal winner thank yellow']:
        acc = a_validate(cs, text.strip(' ') if text.strip(' ') else text, 'fixed')

    bad = ctx.coq_mismatches('store', IMPORTS, 'run_case', 'outcome_eqb', 'otable * op', 'outcome', cs.cases, shard=(250 if not ctx.thorough else 400), prelude=PRELUDE)
    ctx.extra['correspondence_cases'] = len(cs.cases)
    ctx.extra['correspondence_disagreements'] = len(bad)

    for what, replay in violations:
        ctx.violation(what, replay, found=True)
    if not violations and (bad or not table_ok):
        rep = {'correspondence': 'C08/Key.from_secret_exponent, public_key, public_key_hash, secret_key, from_encoded_key, validate_mnemonic, from_mnemonic, HASH_KEY vs Client.KeyStore run_case',
               'table_ok': table_ok, 'disagreements': len(bad)}
        if bad:
            i = bad[0]
            rep.update(cs.meta[i])
            rep['model'] = ctx.coq_eval(IMPORTS, f'run_case {cs.cases[i][0]}', prelude=PRELUDE)
            rep['other_disagreeing_ops'] = sorted({cs.meta[j]['op'] for j in bad})
        ctx.violation('implementation no longer corresponds to the model the theorems are about', rep, found=False)
