#!/venv/bin/python
"""Entry point: vcheck.py <Cxx> [--tier quick|thorough] [--replay file]"""
import argparse
import importlib
import json
import os
import sys
import time
import traceback

HERE = os.path.dirname(os.path.abspath(__file__))
sys.path.insert(0, HERE)
import lib  # noqa: E402


def main() -> int:
    ap = argparse.ArgumentParser()
    ap.add_argument('prop')
    ap.add_argument('--tier', default=os.environ.get('VERIF_TIER') or 'quick')
    ap.add_argument('--replay')
    a = ap.parse_args()
    tier = a.tier if a.tier in ('quick', 'thorough') else 'quick'
    try:
        seed = int(os.environ.get('VERIF_SEED') or 0)
    except ValueError:
        seed = 0
    prop = a.prop.upper()
    ctx = lib.Ctx(prop, tier, seed)
    status = 'ok'
    try:
        mod = importlib.import_module(prop.lower())
        if a.replay:
            doc = json.load(open(a.replay))
            print(json.dumps({k: doc[k] for k in doc if k != 'coqc_output'}, indent=1, default=repr)[:6000])
            if hasattr(mod, 'replay'):
                return int(bool(mod.replay(ctx, doc)))
            return 0
        lib.ensure_built()
        lib.recheck_proofs(ctx, coq_args=getattr(mod, 'COQ_ARGS', ()))
        try:
            mod.run(ctx)
        except Exception as e:  # noqa: BLE001
            # The harness could not observe the implementation the way the model describes it (a table changed its
            # shape, an output could not be rendered, the model could not be evaluated on it ...). The correspondence is
            # then not established for this tree: by DESIGN.md section 6 that is reported, never swallowed.
            tb = traceback.format_exc()
            print(f'HARNESS-EXCEPTION property={prop}:\n{tb}', file=sys.stderr)
            ctx.extra['harness_exception'] = tb[-3000:]
            if not ctx.violations:
                ctx.violation('correspondence could not be established: the harness failed while observing the implementation '
                              f'({type(e).__name__}: {str(e)[:300]})',
                              {'correspondence': f'{prop}/harness', 'traceback': tb[-4000:]}, found=False)
    except lib.InternalError as e:
        status = 'internal-error'
        print(f'INTERNAL-ERROR property={prop}: {e}', file=sys.stderr)
        ctx.extra['internal_error'] = str(e)[-2000:]
        lib.write_evidence(ctx, status)
        return 2
    except Exception:  # noqa: BLE001
        status = 'internal-error'
        tb = traceback.format_exc()
        print(f'INTERNAL-ERROR property={prop}:\n{tb}', file=sys.stderr)
        ctx.extra['internal_error'] = tb[-2000:]
        lib.write_evidence(ctx, status)
        return 2
    for line in ctx.known_printed:
        print(line)
    if ctx.violations:
        status = 'violation'
    lib.write_evidence(ctx, status)
    for v in ctx.violations:
        tail = '' if v['found'] else ' no-failing-input-found'
        print(f"VIOLATION property={prop} replay={v['replay']}{tail}")
        print(f"  ({v['what']})")
    if not ctx.violations:
        print(f"OK property={prop} tier={tier} seed={seed} theorems={ctx.proof['discharged']}/{ctx.proof['obligations']} "
              f"evaluations={ctx.evaluations} distinct_nontrivial={len(ctx._nontrivial)} wall={time.time()-ctx.t0:.1f}s")
    return 1 if ctx.violations else 0


if __name__ == '__main__':
    rc = main()
    sys.exit(rc)
