"""C13 — entrypoint resolution and parameter decoding are mutual inverses.

(A) correspondence: ParameterSection.match / root_name / list_entrypoints / from_parameters / to_parameters of /repo
    vs Michelson/Entrypoints.v (std_run: the model instantiated with a concrete leaf codec), evaluated by vm_compute.
(B) oracle on the implementation's outputs: entrypoint list = independent spec; value round trip; entry round trip.
"""
import glob
import json
import os

import lib
from lib import chex, clist, cnode, cok, copt

PROP = 'C13'
IMPORTS = 'From PV Require Import Codec.Micheline Michelson.Entrypoints.'
CORR = 'C13/ParameterSection.{match,list_entrypoints,from_parameters,to_parameters} vs Michelson.Entrypoints.std_run'

# ----------------------------------------------------------------------------------------------
# types: ('leaf', fn, sty, tn) | ('or', fn, l, r, tn);  fn: None | str ('' = bare "%");  tn: None | str (":tn" noise)
# sty: ('nat',) ('int',) ('string',) ('bytes',) ('unit',) ('bool',) ('pair',a,b) ('option',a) ('or',a,b) ('list',a)
# ----------------------------------------------------------------------------------------------
SIMPLE = ['nat', 'int', 'string', 'bytes', 'unit', 'bool']


def gen_sty(rng, depth=2, no_pair=False):
    k = rng.random()
    if depth <= 0 or k < 0.6:
        return (rng.choice(SIMPLE),)
    if k < 0.72 and not no_pair:
        return ('pair', gen_sty(rng, depth - 1), gen_sty(rng, depth - 1, no_pair=True))
    if k < 0.82:
        return ('option', gen_sty(rng, depth - 1))
    if k < 0.92:
        return ('list', gen_sty(rng, depth - 1))
    return ('or', gen_sty(rng, depth - 1), gen_sty(rng, depth - 1))


def sty_json(s):
    if len(s) == 1:
        return {'prim': s[0]}
    return {'prim': s[0], 'args': [sty_json(x) for x in s[1:]]}


def sty_coq(s):
    k = s[0]
    if k in SIMPLE:
        return {'nat': 'SNat', 'int': 'SInt', 'string': 'SStr', 'bytes': 'SByt', 'unit': 'SUnit', 'bool': 'SBool'}[k]
    if k == 'pair':
        return f'(SPair {sty_coq(s[1])} {sty_coq(s[2])})'
    if k == 'option':
        return f'(SOpt {sty_coq(s[1])})'
    if k == 'or':
        return f'(SOrIn {sty_coq(s[1])} {sty_coq(s[2])})'
    if k == 'list':
        return f'(SList {sty_coq(s[1])})'
    raise lib.InternalError(f'sty {s}')


def gen_sval(rng, s):
    k = s[0]
    if k == 'nat':
        return {'int': str(abs(lib.boundary_ints(rng, signed=False, big=False)))}
    if k == 'int':
        return {'int': str(lib.boundary_ints(rng, big=False))}
    if k == 'string':
        return {'string': ''.join(rng.choice('abcXYZ 019_') for _ in range(rng.randrange(0, 6)))}
    if k == 'bytes':
        return {'bytes': bytes(rng.randrange(256) for _ in range(rng.randrange(0, 5))).hex()}
    if k == 'unit':
        return {'prim': 'Unit'}
    if k == 'bool':
        return {'prim': rng.choice(['True', 'False'])}
    if k == 'pair':
        return {'prim': 'Pair', 'args': [gen_sval(rng, s[1]), gen_sval(rng, s[2])]}
    if k == 'option':
        return {'prim': 'None'} if rng.random() < 0.4 else {'prim': 'Some', 'args': [gen_sval(rng, s[1])]}
    if k == 'or':
        return ({'prim': 'Left', 'args': [gen_sval(rng, s[1])]} if rng.random() < 0.5
                else {'prim': 'Right', 'args': [gen_sval(rng, s[2])]})
    if k == 'list':
        return [gen_sval(rng, s[1]) for _ in range(rng.randrange(0, 3))]
    raise lib.InternalError(f'sty {s}')


FRESH = ['a', 'b', 'c', 'd', 'e', 'f', 'g', 'h', 'mint', 'burn', 'transfer', 'x1', 'Default', 'root_', 'do', 'set_delegate']
# boundary lengths: Tezos allows entrypoint names of at most 31 bytes (1, 2 are in FRESH already)
N30A, N31A, N31B, N32 = 'n30_' + 'a' * 26, 'm31_' + 'b' * 27, 'z' * 31, 'q' * 32
FRESH += [N30A, N31A, N31B, N31A, N31B, N32]


def gen_name(rng, used, dup_ok=True):
    """field annotation of a node; biased to the shapes where the code branches"""
    k = rng.random()
    if k < 0.42:
        return None
    if k < 0.47:
        return ''           # bare "%": falsy in Python
    if k < 0.55:
        name = 'default'
    elif k < 0.62:
        name = 'root'
    elif k < 0.66 and used and dup_ok:
        return rng.choice(sorted(used))      # a deliberate duplicate (Tezos: ill-formed)
    else:
        name = rng.choice(FRESH)
    if name in used and rng.random() < 0.85:
        free = [n for n in FRESH if n not in used]
        if not free:
            return None
        name = rng.choice(free)
    used.add(name)
    return name


def gen_ty(rng, depth, used, root=False, p_or=0.75, annot_p=1.0):
    tn = rng.choice(['t', 'default', 'a']) if rng.random() < 0.08 else None
    fn = gen_name(rng, used) if rng.random() < annot_p else None
    if depth > 0 and not root and rng.random() < 0.12:
        # an enum-like union (every leaf `unit`), annotated or not, with annotated or unannotated constants
        return gen_enum_tree(rng, rng.choice([1, 1, 2]), used, fn, tn, rng.choice([0.0, 0.5, 1.0, 1.0]))
    if depth > 0 and rng.random() < p_or:
        left = gen_ty(rng, depth - 1, used, p_or=p_or * 0.8, annot_p=annot_p)
        right = gen_ty(rng, depth - 1, used, p_or=p_or * 0.8, annot_p=annot_p)
        return ('or', fn, left, right, tn)
    s = gen_sty(rng)
    while s[0] == 'or':   # an `or` directly under a union node is a union node, not a leaf
        s = gen_sty(rng)
    return ('leaf', fn, s, tn)


def gen_enum_tree(rng, depth, used, fn, tn, annot_p):
    def leaf_or_node(d):
        f = gen_name(rng, used, dup_ok=False) if rng.random() < annot_p else None
        if d > 0 and rng.random() < 0.5:
            return gen_enum_tree(rng, d - 1, used, f, None, annot_p)
        return ('leaf', f, ('unit',), None)
    return ('or', fn, leaf_or_node(depth - 1), leaf_or_node(depth - 1), tn)


def annots(t):
    fn, tn = t[1], t[-1]
    out = []
    if tn is not None:
        out.append(':' + tn)
    if fn is not None:
        out.append('%' + fn)
    return out


def ty_json(t):
    if t[0] == 'leaf':
        j = dict(sty_json(t[2]))
    else:
        j = {'prim': 'or', 'args': [ty_json(t[2]), ty_json(t[3])]}
    a = annots(t)
    if a:
        j['annots'] = a
    return j


def cname(fn):
    return copt(None if fn is None else chex(fn.encode()))


def ty_coq(t):
    if t[0] == 'leaf':
        return f'(ULeaf {cname(t[1])} {sty_coq(t[2])})'
    return f'(UOr {cname(t[1])} {ty_coq(t[2])} {ty_coq(t[3])})'


def anon(t):
    return (t[0], None) + tuple(t[2:-1]) + (None,)


def strip_tn(t):
    if t[0] == 'leaf':
        return ('leaf', t[1], t[2], None)
    return ('or', t[1], strip_tn(t[2]), strip_tn(t[3]), None)


def truthy(fn):
    return fn if fn else None


def nodes(t, path=''):
    """all nodes of the union tree with their binary paths"""
    yield path, t
    if t[0] == 'or':
        yield from nodes(t[2], path + '0')
        yield from nodes(t[3], path + '1')


def leaves(t, path=''):
    return [(p, n) for p, n in nodes(t, path) if n[0] == 'leaf']


def sub(t, path):
    for c in path:
        t = t[2] if c == '0' else t[3]
    return t


# ---- the property's own spec (independent of pytezos and of the Coq model) ----------------------------------
def spec(t):
    """Tezos rules. Returns dict(wf=bool, branches=[(name, path, node)], root=name, collide=bool)."""
    br = [(truthy(n[1]), p, n) for p, n in nodes(t) if p and truthy(n[1])]
    names = [b[0] for b in br]
    own = truthy(t[1])
    allnames = names + ([own] if own else [])
    wf = len(set(allnames)) == len(allnames) and all(len(n.encode()) <= 31 for n in allnames)
    root = own or ('root' if 'default' in names else 'default')
    collide = own is None and 'default' in names and 'root' in names
    return dict(wf=wf, branches=br, root=root, collide=collide)


def gen_val(rng, t, path=None):
    """(value JSON, path of the leaf taken)"""
    if t[0] == 'leaf':
        return gen_sval(rng, t[2]), ''
    if path:
        side, rest = path[0], path[1:]
    else:
        side, rest = rng.choice('01'), None
    v, p = gen_val(rng, t[2] if side == '0' else t[3], rest)
    return {'prim': 'Left' if side == '0' else 'Right', 'args': [v]}, side + p


def mutate_val(rng, v, t):
    """malformed / unusual value stream"""
    k = rng.randrange(9)
    if k == 0:
        return {'prim': 'Left', 'args': [v]}
    if k == 1 and isinstance(v, dict) and v.get('args'):
        return v['args'][0]
    if k == 2 and isinstance(v, dict) and v.get('prim') in ('Left', 'Right'):
        return {'prim': 'Right' if v['prim'] == 'Left' else 'Left', 'args': v['args']}
    if k == 3 and isinstance(v, dict) and v.get('prim') in ('Left', 'Right'):
        return {'prim': v['prim'], 'args': v['args'] + v['args']}
    if k == 4 and isinstance(v, dict) and v.get('prim') in ('Left', 'Right'):
        return {'prim': v['prim']}
    if k == 5:
        return [v]
    if k == 6 and isinstance(v, dict) and v.get('prim') in ('Left', 'Right'):
        return {'prim': v['prim'], 'args': [mutate_val(rng, v['args'][0], None)]}
    if k == 7 and isinstance(v, dict) and v.get('prim') in ('Left', 'Right'):
        return {'prim': v['prim'], 'args': v['args'], 'annots': ['%' + rng.choice(['a', 'default', 'root'])]}
    return rng.choice([{'int': '-1'}, {'string': 'zz'}, {'prim': 'Unit'}, {'prim': 'Pair', 'args': [{'int': '1'}, {'int': '2'}]},
                       {'prim': 'Some', 'args': [v]}, {'bytes': '00'}])


# ---- running the implementation --------------------------------------------------------------------
def cls_to_sty(cls):
    p = cls.prim
    if p in SIMPLE:
        return (p,)
    if p in ('pair', 'or') and len(cls.args) == 2:
        return (p, cls_to_sty(cls.args[0]), cls_to_sty(cls.args[1]))
    if p in ('option', 'list'):
        return (p, cls_to_sty(cls.args[0]))
    raise lib.InternalError(f'unexpected leaf class {p}')


def cls_to_ty(cls):
    if cls.prim == 'or':
        return ('or', cls.field_name, cls_to_ty(cls.args[0]), cls_to_ty(cls.args[1]), cls.type_name)
    return ('leaf', cls.field_name, cls_to_sty(cls), cls.type_name)


class Impl:
    def __init__(self, t):
        from pytezos.michelson.sections.parameter import ParameterSection
        self.t = t
        ok, P = lib.call(ParameterSection.match, {'prim': 'parameter', 'args': [ty_json(t)]})
        self.P = P if ok else None
        self.err = None if ok else P

    def root(self):
        return self.P.root_name if self.P else None

    def entries(self):
        """None | [(name, ty tuple)]"""
        if not self.P:
            return None
        ok, d = lib.call(self.P.list_entrypoints)
        if not ok:
            return None
        return [(k, cls_to_ty(v)) for k, v in d.items()]

    def to(self, v):
        """None | (entrypoint, value JSON)"""
        if not self.P:
            return None
        ok, r = lib.call(lambda: self.P.from_micheline_value(v).to_parameters())
        if not ok:
            return None
        if not (isinstance(r, dict) and set(r) == {'entrypoint', 'value'} and isinstance(r['entrypoint'], str)):
            return ('<malformed result>', {'prim': 'Unit'})
        return r['entrypoint'], r['value']

    def frm(self, e, v):
        if not self.P:
            return None
        params = {} if e is None else {'entrypoint': e, 'value': v}
        ok, r = lib.call(lambda: self.P.from_parameters(params).to_micheline_value())
        return r if ok else None

    def norm(self, v):
        if not self.P:
            return None
        ok, r = lib.call(lambda: self.P.from_micheline_value(v).to_micheline_value())
        return r if ok else None


def safe_node(v):
    try:
        return cnode(v)
    except Exception:  # noqa: BLE001
        return None


def c_entry(e):
    return chex(e.encode('ascii', 'replace'))


def answer_coq(q, a):
    kind = q[0]
    if kind == 'root':
        return f'(ARoot _ {cok(None if a is None else c_entry(a))})'
    if kind == 'list':
        if a is None:
            return '(AList _ Reject)'
        return '(AList _ (Ok ' + clist(f'({c_entry(k)}, {ty_coq(t)})' for k, t in a) + '))'
    if kind == 'to':
        if a is None:
            return '(ATo _ Reject)'
        return f'(ATo _ (Ok ({c_entry(a[0])}, {cnode(a[1])})))'
    return f'(AFrom _ {cok(None if a is None else cnode(a))})'


def query_coq(q):
    kind = q[0]
    if kind == 'root':
        return 'QRoot'
    if kind == 'list':
        return 'QList'
    if kind == 'to':
        return f'(QTo {cnode(q[1])})'
    if kind == 'from':
        return f'(QFrom {c_entry(q[1])} {cnode(q[2])})'
    return 'QEmpty'


def run_query(impl, q):
    kind = q[0]
    if kind == 'root':
        return impl.root()
    if kind == 'list':
        return impl.entries()
    if kind == 'to':
        return impl.to(q[1])
    if kind == 'from':
        return impl.frm(q[1], q[2])
    return impl.frm(None, None)


# ---- (B) the property on the implementation's outputs ----------------------------------------------
def canon(v):
    return None if v is None else lib.canon_micheline(v)


def oracle(impl, t, q, a, sp):
    """reason string when the property itself fails on this observation, else None.
    Only called for types that are well-formed per Tezos."""
    kind = q[0]
    if impl.P is None:
        return f'ParameterSection.match refuses a well-formed parameter type: {impl.err!r}'
    if kind == 'root':
        if a != sp['root'] and not sp['collide']:
            return f'root entrypoint is named {a!r}, expected {sp["root"]!r}'
        return None
    if kind == 'list':
        want = {k: strip_tn(anon(n)) for k, _, n in sp['branches']}
        rootname = sp['root']
        if rootname in want:      # only in the collide class; Tezos lists the %root branch, the full type has no name
            return 'the generated root name shadows the %root branch'
        want[rootname] = strip_tn(t)
        if a is None:
            return 'list_entrypoints raised'
        got = {k: strip_tn(x) if k != rootname else strip_tn(x) for k, x in a}
        if got != want:
            return f'listed entrypoints {sorted(got)} differ from the annotated branches plus root {sorted(want)} (names or types)'
        return None
    if kind == 'to':
        full = impl.norm(q[1])
        if full is None:
            return None          # not a value of the type
        if a is None:
            return 'to_parameters raised on a valid value'
        back = impl.frm(a[0], a[1])
        if canon(back) != canon(full):
            return f'from_parameters(to_parameters(v)) = {back!r} differs from v'
        return None
    if kind == 'from' and q[3]:
        # q[3] = (path of the entrypoint, leaf path taken below it) for listed entrypoint + valid argument
        epath, below = q[3]
        if a is None:
            return f'from_parameters raised for listed entrypoint {q[1]!r} and a valid argument'
        want_full = q[2]
        for c in reversed(epath):
            want_full = {'prim': 'Left' if c == '0' else 'Right', 'args': [want_full]}
        if canon(a) != canon(want_full):
            return f'from_parameters built {a!r}, expected the argument wrapped along path {epath!r}'
        r = impl.to(a)
        if r is None:
            return 'to_parameters raised on the value built by from_parameters'
        back = impl.frm(r[0], r[1])
        if canon(back) != canon(a):
            return f'from_parameters(to_parameters(full)) = {back!r} differs from full value {a!r}'
        # when no annotated node lies strictly below the entrypoint on the way to the leaf, the pair itself comes back
        s = sub(t, epath)
        deeper = any(truthy(sub(s, below[:i])[1]) for i in range(1, len(below) + 1))
        if not deeper and (r[0] != q[1] or canon(r[1]) != canon(q[2])):
            return f'({q[1]!r}, arg) came back as ({r[0]!r}, {r[1]!r})'
        return None
    return None


# ---- case construction --------------------------------------------------------------------------------
def queries_for(rng, t, sp, nval):
    qs = [('root',), ('list',)]
    lv = leaves(t)
    rng.shuffle(lv)
    # full values, one per leaf (all leaves for small trees)
    for p, _ in lv[:nval]:
        v, _ = gen_val(rng, t, p)
        qs.append(('to', v))
        if rng.random() < 0.25:
            qs.append(('to', mutate_val(rng, v, t)))
    # listed entrypoints with arguments
    ents = [(k, p, n) for k, p, n in sp['branches']]
    rng.shuffle(ents)
    for k, p, n in ents[:nval]:
        sl = leaves(n)
        lp, _ = rng.choice(sl)
        a, _ = gen_val(rng, n, lp)
        qs.append(('from', k, a, (p, lp)))
        if rng.random() < 0.2:
            qs.append(('from', k, mutate_val(rng, a, n), None))
    lp, _ = rng.choice(lv)
    v, _ = gen_val(rng, t, lp)
    qs.append(('from', sp['root'], v, ('', lp)))
    # names that are not entrypoints / special names
    for e in rng.sample(['default', 'root', 'nope', '', 'a', 'Default'], 2):
        known = {k for k, _, _ in sp['branches']} | {sp['root']}
        if e not in known:
            qs.append(('from', e, v, None))
    if rng.random() < 0.3:
        qs.append(('empty',))
    return qs


FIXED_TYPES = [
    # defect #13 (fixed): annotated inner node over unannotated leaves
    ('or', None, ('or', 'a', ('leaf', None, ('nat',), None), ('leaf', None, ('int',), None), None), ('leaf', None, ('string',), None), None),
    # root-name collision (known finding)
    ('or', None, ('leaf', 'default', ('nat',), None), ('leaf', 'root', ('int',), None), None),
    ('or', None, ('or', 'root', ('leaf', 'default', ('unit',), None), ('leaf', None, ('int',), None), None), ('leaf', None, ('string',), None), None),
    # default below, unannotated elsewhere -> root is called "root"
    ('or', None, ('or', 'a', ('leaf', 'b', ('nat',), None), ('leaf', None, ('int',), None), None), ('leaf', 'default', ('string',), None), None),
    # named root
    ('or', 'r', ('leaf', 'a', ('nat',), None), ('leaf', None, ('int',), None), None),
    ('or', 'default', ('leaf', 'a', ('nat',), None), ('leaf', 'root', ('int',), None), None),
    # Tezos-ill-formed: duplicates
    ('or', 'a', ('leaf', 'a', ('nat',), None), ('leaf', None, ('int',), None), None),
    ('or', None, ('leaf', 'a', ('nat',), None), ('leaf', 'a', ('int',), None), None),
    ('or', 'r', ('leaf', 'a', ('nat',), None), ('leaf', 'a', ('int',), None), None),
    # annotated enum-like inner unions (all leaves unit)
    ('or', None, ('or', 'action', ('leaf', 'start', ('unit',), None), ('leaf', 'stop', ('unit',), None), None), ('leaf', 'set', ('nat',), None), None),
    ('or', None, ('leaf', 'set', ('nat',), None), ('or', 'action', ('leaf', None, ('unit',), None), ('or', 'deep', ('leaf', 'x', ('unit',), None), ('leaf', 'y', ('unit',), None), None), None), None),
    # entrypoint names of the maximal length (31 bytes) and just below
    ('or', None, ('leaf', N31A, ('nat',), None), ('leaf', N30A, ('int',), None), None),
    ('or', None, ('or', N31B, ('leaf', None, ('nat',), None), ('leaf', 'x', ('unit',), None), None), ('leaf', None, ('string',), None), None),
    ('or', N31A, ('leaf', 'a', ('nat',), None), ('leaf', None, ('int',), None), None),
    ('leaf', N31B, ('nat',), None),
    ('or', None, ('leaf', N32, ('nat',), None), ('leaf', 'a', ('int',), None), None),
    # non-union roots
    ('leaf', None, ('nat',), None), ('leaf', 'foo', ('unit',), None), ('leaf', '', ('unit',), None), ('leaf', 'default', ('pair', ('or', ('nat',), ('int',)), ('nat',)), None),
    # bare % annotations
    ('or', '', ('leaf', '', ('nat',), None), ('leaf', 'x', ('unit',), None), None),
    # unit parameter / from_parameters({})
    ('leaf', None, ('unit',), None),
    ('or', None, ('leaf', 'default', ('unit',), None), ('leaf', 'x', ('nat',), None), None),
]


def ty_to_jsonable(t):
    return t      # nested tuples serialise as nested lists


def ty_from_jsonable(j):
    def conv(x):
        if isinstance(x, list):
            return tuple(conv(y) for y in x)
        return x
    return conv(j)


def run(ctx: lib.Ctx) -> None:
    from pytezos.michelson.tags import prim_tags
    rng = ctx.rng
    ctx.rule = ('types: random union trees (depth <= 5, non-union roots included) whose nodes carry no / fresh / "default" / '
                '"root" / bare "%" / duplicated field annotations (+ ":type" annotation noise), leaves drawn from nat,int,string,'
                'bytes,unit,bool,pair,option,list and `or` nested below those; per type: root name, entrypoint list, one full '
                'value per leaf (+ malformed variants), one (entrypoint, argument) per listed entrypoint (+ malformed), unknown '
                'entrypoint names, from_parameters({}). non-trivial = union root with at least one annotated node; distinct = '
                'distinct (type, query)')
    # ---- table: the value primitives' tags
    want_tags = {'Left': 5, 'Right': 8, 'Unit': 11, 'Pair': 7, 'Some': 9, 'None': 6, 'True': 10, 'False': 3}
    tag_bad = {k: prim_tags.get(k) for k, v in want_tags.items() if prim_tags.get(k) != bytes([v])}
    ctx.table('prim_tags[Left,Right,Unit,Pair,Some,None,True,False]')

    cases, meta, groups = [], [], []

    def add_type(t, nval, kind):
        sp = spec(t)
        impl = Impl(t)
        cls = ('illformed' if not sp['wf'] else 'collide' if sp['collide'] else 'wf')
        qcs, acs, first = [], [], len(meta)
        for q in queries_for(rng, t, sp, nval):
            a = run_query(impl, q)
            try:
                qc, ac = query_coq(q), answer_coq(q, a)
            except (lib.InternalError, KeyError, ValueError, UnicodeError):
                continue
            nontrivial = t[0] == 'or' and any(truthy(n[1]) for _, n in nodes(t))
            ctx.case((ty_coq(t), qc), nontrivial=nontrivial, kind=f'{kind}:{cls}:{q[0]}:{"ok" if a is not None else "reject"}',
                     sample={'type': ty_json(t), 'query': [x for x in q[:3]], 'answer': a if q[0] != 'list' else (None if a is None else [k for k, _ in a])})
            qcs.append(qc)
            acs.append(ac)
            meta.append((t, q, a, sp, impl))
        # one Coq case per type: all its queries against the same type literal
        cases.append((f'({ty_coq(t)}, {clist(qcs)})', clist(acs)))
        groups.append((first, len(meta)))

    # corpus first
    for path in sorted(glob.glob(os.path.join(lib.VERIF, 'corpus', PROP, '*.json'))):
        doc = json.load(open(path))
        add_type(ty_from_jsonable(doc['type']), 8, 'corpus')
        ctx.corpus_cases += 1
    for t in FIXED_TYPES:
        add_type(t, 8, 'fixed')
    ntypes = ctx.n(200, 6000)
    for i in range(ntypes):
        depth = rng.choice([1, 1, 2, 2, 3, 3, 4, 5])
        k = rng.random()
        used: set = set()
        if k < 0.08:
            t = gen_ty(rng, 0, used, root=True)
        elif k < 0.2:
            # annotated inner nodes over unannotated leaves (shape of defect #13)
            t = gen_ty(rng, depth, used, p_or=0.9, annot_p=0.35)
        else:
            t = gen_ty(rng, depth, used, p_or=0.9)
        add_type(t, ctx.n(5, 8), 'gen')

    bad_groups = ctx.coq_mismatches('ep', IMPORTS, 'fun c => map (std_run (fst c)) (snd c)', 'list_eqb std_answer_eqb',
                                    'uty sty * list query', 'list (answer sty)', cases, shard=35)
    bad = []
    for g in bad_groups[:3]:     # pin the disagreement down to single queries (first few groups suffice for the replay)
        lo, hi = groups[g]
        sub_cases = [(f'({ty_coq(meta[i][0])}, {query_coq(meta[i][1])})', answer_coq(meta[i][1], meta[i][2])) for i in range(lo, hi)]
        sub_bad = ctx.coq_mismatches('ep1', IMPORTS, 'fun c => std_run (fst c) (snd c)', 'std_answer_eqb',
                                     'uty sty * query', 'answer sty', sub_cases)
        bad.extend(lo + i for i in sub_bad)
        if len(bad) > 20:
            break

    # ---- replay the witnesses of fixed defects: a relapse is a violation, never a known finding
    reported = 0
    for f in ctx.known['fixed']:
        w = f.get('witness', {})
        if 'type' not in w:
            continue
        t = ty_from_jsonable(w['type'])
        impl = Impl(t)
        sp = spec(t)
        why = oracle(impl, t, ('to', w['value']), impl.to(w['value']), sp)
        if why:
            reported += 1
            ctx.violation(f'fixed defect is back ({f.get("commit")}): {why}',
                          {'type': ty_json(t), 'value': w['value'],
                           'repro': "P=ParameterSection.match({'prim':'parameter','args':[type]}); P.from_parameters(P.from_micheline_value(value).to_parameters())"})

    # ---- (B)
    kf = ctx.finding('root-name-collision')
    for t, q, a, sp, impl in meta:
        if not sp['wf']:
            continue
        why = oracle(impl, t, q, a, sp)
        if not why:
            continue
        if sp['collide'] and kf:
            ctx.known_hit(kf)
            continue
        if reported < 3:
            reported += 1
            ctx.violation(f'entrypoint property violated: {why}',
                          {'type': ty_json(t), 'query': list(q[:3]), 'observed': a if q[0] != 'list' else [[k, ty_json(x)] for k, x in (a or [])],
                           'type_tuple': ty_to_jsonable(t),
                           'repro': "P=ParameterSection.match({'prim':'parameter','args':[type]}); query 'to': P.from_parameters(P.from_micheline_value(v).to_parameters()).to_micheline_value(); "
                                    "'from': P.from_parameters({'entrypoint':e,'value':a}).to_parameters(); 'list': P.list_entrypoints()"})
    if reported == 0 and (bad or tag_bad):
        rep = {'correspondence': CORR, 'disagreements': len(bad), 'tag_table_differences': {k: repr(v) for k, v in tag_bad.items()}}
        if bad:
            i = bad[0]
            t, q, a, sp, impl = meta[i]
            rep.update({'type': ty_json(t), 'type_tuple': ty_to_jsonable(t), 'query': list(q[:3]),
                        'observed': a if q[0] != 'list' else [[k, ty_json(x)] for k, x in (a or [])],
                        'model': ctx.coq_eval(IMPORTS, f'std_run {ty_coq(t)} {query_coq(q)}')})
        ctx.violation('implementation no longer corresponds to the model the theorems are about', rep, found=False)


def replay(ctx: lib.Ctx, doc: dict) -> int:
    """./check C13 --replay file: re-run the stored input on the current /repo; 1 = the property still fails on it."""
    if 'type_tuple' not in doc or 'query' not in doc:
        print('replay: no concrete input in this file (correspondence-only verdict)')
        return 0
    t = ty_from_jsonable(doc['type_tuple'])
    q = tuple(doc['query'])
    sp = spec(t)
    impl = Impl(t)
    if q[0] == 'from' and len(q) == 3:
        # recover the (entrypoint path, leaf path) annotation when the entrypoint is listed
        ep = {k: p for k, p, _ in sp['branches']}
        ep[sp['root']] = ''
        q = q + ((ep[q[1]], _leaf_path(q[2])) if q[1] in ep else None,)
    a = run_query(impl, q)
    why = oracle(impl, t, q, a, sp) if sp['wf'] else None
    print(f'replay: observed {a!r}')
    print(f'replay: {"FAILS: " + why if why else "property holds on this input now"}')
    return 1 if why else 0


def _leaf_path(v):
    p = ''
    while isinstance(v, dict) and v.get('prim') in ('Left', 'Right') and v.get('args'):
        p += '0' if v['prim'] == 'Left' else '1'
        v = v['args'][0]
    return p
