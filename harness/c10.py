"""C10 — addresses, keys, key hashes, signatures and chain ids survive binary form.

(A) correspondence, two levels:
  * typed: the real forge_*/unforge_* functions, the optimized-mode converters of the Michelson types and
    blind_unpack are run on Base58Check strings built from (kind, payload) values; strings are mapped back to
    (kind, payload) with the `base58` package and compared with Codec/Domain.v part 1 inside coqc;
  * text: a sample of the same calls is compared with Domain.v part 2 (the text-level model, which goes
    through Codec/Base58.v with SHA-256 supplied as data).
(B) the property itself on the implementation: reading the optimized form back gives the same value and
    the same kind, for every kind and boundary digest."""
import hashlib
import random as _random

import base58

import lib
from lib import cbool, chex, cnat

from c09 import ctext, embedded_prefix_payloads, oracle

PROP = 'C10'
IMPORTS = 'From PV Require Import Codec.Base58 Codec.Domain Proofs.Domain_proofs.'

ADDR = ['tz1', 'tz2', 'tz3', 'tz4', 'KT1', 'txr1', 'sr1']
KEYS = [('edpk', 32), ('sppk', 33), ('p2pk', 33), ('BLpk', 48)]
SIGS = [('sig', 64), ('edsig', 64), ('spsig', 64), ('p2sig', 64), ('BLsig', 96)]

PRELUDE = '''
Definition akind (n : nat) : addr_kind := nth n all_addr_kinds Tz1.
Definition aidx (k : addr_kind) : nat := match k with Tz1 => 0 | Tz2 => 1 | Tz3 => 2 | Tz4 => 3 | KT1 => 4 | Txr1 => 5 | Sr1 => 6 end.
Definition kkind (n : nat) : key_kind := nth n all_key_kinds Edpk.
Definition kidx (k : key_kind) : nat := match k with Edpk => 0 | Sppk => 1 | P2pk => 2 | BLpk => 3 end.
Definition sidx (k : sig_kind) : nat := match k with Sig => 0 | Edsig => 1 | Spsig => 2 | P2sig => 3 | BLsig => 4 end.
Definition out := result (nat * bytes * bytes).
Definition out_eqb : out -> out -> bool := result_eqb (prod_eqb (prod_eqb Nat.eqb bytes_eqb) bytes_eqb).
Definition ob (b : bytes) : out := Ok (0%nat, b, nil).
Definition oa (r : result address) : out := match r with Ok (k, h) => Ok (aidx k, h, nil) | Reject => Reject end.
Definition oc (r : result contract) : out := match r with Ok ((k, h), e) => Ok (aidx k, h, e) | Reject => Reject end.
(* typed level: (operation, kind index, flag, data, entrypoint) *)
Definition typed (x : nat * nat * bool * bytes * bytes) : out :=
  let '(op, k, fl, a, e) := x in
  match op with
  | 0 => ob (forge_address fl (akind k, a))
  | 1 => oa (unforge_address a)
  | 2 => ob (forge_contract ((akind k, a), e))
  | 3 => oc (unforge_contract a)
  | 4 => ob (forge_public_key (kkind k, a))
  | 5 => match unforge_public_key a with Ok (kk, p) => Ok (kidx kk, p, nil) | Reject => Reject end
  | 6 => match unforge_signature a with Ok (sk, p) => Ok (sidx sk, p, nil) | Reject => Reject end
  | 7 => match unforge_chain_id a with Ok c => ob c | Reject => Reject end
  | 8 => match blind_unpack a with
         | BChain c => Ok (100, c, nil)
         | BAddr (kk, h) => Ok (200 + aidx kk, h, nil)
         | BKey (kk, p) => Ok (300 + kidx kk, p, nil)
         | BSig (sk, p) => Ok (400 + sidx sk, p, nil)
         | BOther => Ok (500, nil, nil)
         end
  | 9 => oa (unforge_key_hash a)
  | 10 => oc (unforge_address_typed a)
  | 11 => oc (unforge_txr_typed a)
  | 12 => if domain_rows_ok repo_table && table_ok repo_table then ob nil else Reject
  | _ => Reject
  end%nat.
(* text level: (sha data, operation, flag, input) *)
Definition textual (x : (N * bytes * bytes) * (nat * bool * bytes)) : result bytes :=
  let '(o, (op, fl, a)) := x in
  let sh := sha_data o in
  match op with
  | 0 => forge_address_text sh fl a
  | 1 => unforge_address_text sh table43 a
  | 2 => forge_contract_text sh a
  | 3 => unforge_contract_text sh table43 a
  | 4 => forge_public_key_text sh a
  | 5 => unforge_public_key_text sh table43 a
  | 6 => forge_base58_text sh table43 a
  | 7 => unforge_signature_text sh table43 a
  | 8 => unforge_chain_id_text sh table43 a
  | 9 => observe_address sh table43 a
  | 10 => observe_txr sh table43 a
  | 11 => observe_key_hash sh table43 a
  | 12 => observe_key sh table43 a
  | 13 => observe_signature sh table43 a
  | 14 => observe_chain_id sh table43 a
  | _ => Reject
  end%nat.
(* both levels behind one entry point: operations >= 100 are the text-level ones *)
Definition both (x : (N * bytes * bytes) * (nat * nat * bool * bytes * bytes)) : out :=
  let '(o, (op, k, fl, a, e)) := x in
  if Nat.leb 100 op
  then match textual (o, ((op - 100)%nat, fl, a)) with Ok b => ob b | Reject => Reject end
  else typed (op, k, fl, a, e).
'''


def rb(rng, n):
    return bytes(rng.getrandbits(8) for _ in range(n))


def digests(rng, n, count):
    """Boundary payloads: the shapes that decide the dispatch in unforge_address."""
    out = [bytes(n), b'\xff' * n, b'\x01' + bytes(n - 2) + b'\x00', bytes(n - 1) + b'\x01']
    for lead in (0, 1, 2, 3, 4):
        out.append(bytes([lead]) + rb(rng, n - 1))
        out.append(bytes([lead]) + rb(rng, n - 2) + b'\x00')
        out.append(bytes([0, lead]) + rb(rng, n - 2))
    out.append(rb(rng, n - 1) + b'\x00')
    while len(out) < count:
        out.append(rb(rng, n))
    rng.shuffle(out)
    return out[:count] if count < len(out) else out


ENTRYPOINTS = ['default', 'a', 'do', 'set_delegate', 'remove_delegate', 'root', 'Default', 'default2', 'x' * 31,
               'a%b', '%', 'a%default', 'default%a', 'e_1.2', '0', 'é', 'tz1', '\x00', ' ']


def parse_text(table, s: str):
    """Base58Check string -> (textual prefix, payload) by the `base58` package and the repo's table."""
    b = s.encode()
    d = base58.b58decode_check(b)
    for tp, el, bp, pl, _ in table:
        if len(b) == el and b.startswith(tp) and d.startswith(bp) and len(d) - len(bp) == pl:
            return tp.decode(), d[len(bp):]
    raise lib.InternalError(f'cannot classify implementation output {s!r}')


def run(ctx: lib.Ctx) -> None:
    import pytezos.crypto.encoding as E
    import pytezos.michelson.forge as F
    from pytezos.michelson.micheline import blind_unpack
    from pytezos.michelson.types import domain as D

    rng = ctx.rng
    sel = _random.Random(f'C10-sel:{ctx.seed}')
    table = [tuple(r) for r in E.base58_encodings]
    rows = {(r[0].decode(), r[3]): r for r in table}
    ctx.table('base58_encodings rows used by forge.py (tz1-4, KT1, txr1, sr1, edpk, sppk, p2pk, BLpk, sig*, Net): binary prefix lengths 3/4')
    ctx.rule = ('structured: every address kind x boundary digests (00.., ff.., first byte 00..04 with and without last byte 00, '
                'second byte 00..04, ..00, digests containing the kind\'s own Base58 binary prefix, random) x tz_only x entrypoints (default, names up to 31 chars, names containing %, '
                'non-ASCII); every key kind and signature notation x boundary payloads; chain ids. observed through the forge/unforge '
                'functions, through Type.from_micheline_value(v.to_micheline_value("optimized")) of the seven Michelson types, and '
                'through blind_unpack; histories: one value object is compared / sorted / hashed / used as set element or dict key / converted in '
                'readable, optimized and legacy_optimized mode in random order before the optimized round trip (all seven types), '
                'byte strings that are both a well-formed optimized form and a PACKed Micheline literal (05 00.., 05 0a.., 05 01.., 05 02.. of length '
                '4/64/96 and 21/22/33/34/49) through blind_unpack, micheline_value_to_python_object and BytesType.to_python_object(try_unpack); '
                'and set/map containers of addresses, key hashes and keys are round-tripped through the optimized form. malformed: byte strings of every length 0..24 and around 33/34/49/64/96, valid forms with '
                'mutated tag/padding bytes, truncations, extensions. non-trivial = every case except the empty byte string; '
                'distinct = distinct (operation, input)')
    # the rows forge.py relies on (hard-coded prefix lengths 3/4, kinds it names) in the table found in /repo
    from c09 import coq_row
    rows_def = 'Definition repo_table : list row := [\n  ' + ';\n  '.join(coq_row(r) for r in table) + '\n].\n'
    # evaluated as case number 0 of the comparison below (operation 12 of [typed])
    tcases, tmeta, tmeta_all = [], [], []   # typed level (tmeta_all: every call made, tmeta: those also sent to coqc)
    tcases.append(('((0%N, nil, nil), (12%nat, 0%nat, false, nil, nil))', '(Ok (0%nat, nil, nil))'))
    tmeta.append(('domain_rows_ok repo_table && table_ok repo_table', ''))
    xcases, xmeta = [], []   # text level
    reported = 0
    text_share = ctx.n(0.03, 0.25)

    def report(what, replay, found=True):
        nonlocal reported
        if reported < 3:
            reported += 1
            ctx.violation(what, replay, found=found)

    def b58(prefix: str, payload: bytes) -> str:
        r = rows[(prefix, len(payload))]
        return base58.b58encode_check(r[2] + payload).decode()

    def out_bytes(ok, val):
        return f'(Ok (0%nat, {chex(val)}, nil))' if ok else 'Reject'

    def out_val(idx, payload, ep=b''):
        return f'(Ok ({cnat(idx)}, {chex(payload)}, {chex(ep) if ep else "nil"}))'

    typed_share = ctx.n(0.13, 1.0)

    def typed(op, k, fl, a, e, expect, what):
        tmeta_all.append(what)
        if sel.random() >= typed_share:
            return
        tcases.append((f'((0%N, nil, nil), ({cnat(op)}, {cnat(k)}, {cbool(fl)}, {chex(a)}, {(chex(e) if e else 'nil')}))', expect))
        tmeta.append(what)

    xcount = {}

    def textual(op, fl, a_lit, body, ok, val, what):
        # a sample, but at least two cases of every kind of call
        if sel.random() < text_share or xcount.get(what[0], 0) < 2:
            xcount[what[0]] = xcount.get(what[0], 0) + 1
            out = f'(Ok (0%nat, {ctext(val.encode()) if isinstance(val, str) else chex(val)}, nil))' if ok else 'Reject'
            xcases.append((f'({oracle(body)}, ({cnat(100 + op)}, 0%nat, {cbool(fl)}, {a_lit}, nil))', out))
            xmeta.append(what)

    def body_of(prefix, payload):
        r = rows.get((prefix, len(payload)))
        return r[2] + payload if r else None

    def addr_out(ok, text, with_ep=True):
        """implementation text output -> expected model output (address part, entrypoint)."""
        if not ok:
            return 'Reject'
        a, pct, ep = text.partition('%')
        tp, h = parse_text(table, a)
        if not with_ep:
            return out_val(ADDR.index(tp), h)
        return out_val(ADDR.index(tp), h, ep.encode() if pct else b'default')

    ctx.assumptions.append('C10: the typed-level comparison maps Base58Check strings to (kind, payload) with the base58 package and '
                           "/repo's table (harness); the text-level sample and the C10_text_*/C10_observed_* theorems go through Codec/Base58.v")
    ctx.assumptions.append('C10: address strings with an empty entrypoint name (KT1...%) are excluded (normalisation, FIXLOG #41 not fixed)')
    # corpus/C10/*.json: {"digests": {"tz2": ["00…"], …}} — digests run first for the named kinds
    import glob
    import json
    import os
    corpus = {}
    for path in sorted(glob.glob(os.path.join(lib.VERIF, 'corpus', 'C10', '*.json'))):
        for k, lst in json.load(open(path)).get('digests', {}).items():
            corpus.setdefault(k, []).extend(bytes.fromhex(x) for x in lst)
            ctx.corpus_cases += len(lst)

    # ---------------------------------------------------------------- addresses and key hashes
    n_dig = ctx.n(7, 80)
    for ki, kind in enumerate(ADDR):
        emb = embedded_prefix_payloads(rng, 20, rows[(kind, 20)][2])   # digests containing the kind's own Base58 binary prefix
        for h in corpus.get(kind, []) + rng.sample(emb, ctx.n(3, len(emb))) + digests(rng, 20, n_dig):
            text = b58(kind, h)
            for tz_only in (False, True):
                ok, d = lib.call(F.forge_address, text, tz_only)
                ctx.case(('forge_address', text, tz_only), kind=f'forge_address:{kind}:{"key_hash" if tz_only else "address"}',
                         sample={'forge_address': [text, tz_only], 'bytes': d.hex() if ok else repr(d)})
                typed(0, ki, tz_only, h, b'', out_bytes(ok, d), ('forge_address', text, tz_only))
                textual(0, tz_only, ctext(text.encode()), body_of(kind, h), ok, d, ('forge_address', text, tz_only))
                if not ok:
                    report(f'forge_address fails on a valid {kind} address', {'address': text, 'tz_only': tz_only, 'error': repr(d),
                           'repro': f'pytezos.michelson.forge.forge_address({text!r}, tz_only={tz_only})'})
                    continue
                if tz_only and ki > 3:
                    continue   # key hashes exist only for tz1..tz4
                ok2, back = lib.call(F.unforge_address, d)
                ctx.case(('unforge_address', d), kind=f'unforge_address:{len(d)}:{"ok" if ok2 else "reject"}')
                typed(1, 0, False, d, b'', addr_out(ok2, back, False), ('unforge_address', d.hex()))
                textual(1, False, chex(d), body_of(kind, h), ok2, back, ('unforge_address', d.hex()))
                if not ok2 or back != text:
                    report('reading the optimized form of an address/key hash back does not give the same value'
                           + ('' if not ok2 or back[:3] == text[:3] else ' (kind confusion)'),
                           {'value': text, 'tz_only': tz_only, 'optimized': d.hex(), 'read_back': back if ok2 else repr(back),
                            'repro': f'unforge_address(forge_address({text!r}, tz_only={tz_only}))'})
            # typed converters
            T = D.TXRAddress if kind == 'txr1' else D.AddressType
            for ep in [None] + rng.sample(ENTRYPOINTS, ctx.n(2, 8)):
                value = text if ep is None else f'{text}%{ep}'
                ok, v = lib.call(T.from_value, value)
                if not ok:
                    report(f'{T.__name__}.from_value rejects a valid value', {'value': value, 'error': repr(v)})
                    continue
                ok1, m = lib.call(v.to_micheline_value, mode='optimized')
                ctx.case(('to_optimized', value), kind=f'{T.__name__}:to_optimized:{kind}:{"ep" if ep else "plain"}',
                         sample={'value': value, 'optimized': m if ok1 else repr(m)})
                if not ok1:
                    report(f'{T.__name__}.to_micheline_value(optimized) fails', {'value': value, 'error': repr(m)})
                    continue
                d = bytes.fromhex(m['bytes'])
                epb = b'default' if ep is None else ep.encode()
                typed(2, ki, False, h, epb, out_bytes(True, d), ('forge_contract', value))
                textual(2, False, ctext(value.encode()), body_of(kind, h), True, d, ('forge_contract', value))
                ok2, w = lib.call(T.from_micheline_value, m)
                back = w.value if ok2 else None
                op = 11 if kind == 'txr1' else 10
                typed(op, 0, False, d, b'', addr_out(ok2, back), (f'{T.__name__}.from_micheline_value', d.hex()))
                textual(10 if kind == 'txr1' else 9, False, ctext(value.encode()), body_of(kind, h), ok2, back, (f'{T.__name__} observe', value))
                ok3, u = lib.call(F.unforge_contract, d)
                typed(3, 0, False, d, b'', addr_out(ok3, u), ('unforge_contract', d.hex()))
                textual(3, False, chex(d), body_of(kind, h), ok3, u, ('unforge_contract', d.hex()))
                if ep == '':
                    continue
                # the value denoted by the string: only an entrypoint that is exactly "default" is elided
                denoted = text if ep in (None, 'default') else value
                if not ok2 or back != v.value or back != denoted:
                    if ep is not None and ep == '':
                        continue
                    report('a value with' + ('out' if ep is None else '') + ' entrypoint does not survive the optimized form',
                           {'value': value, 'normalised': v.value, 'optimized': d.hex(), 'read_back': back if ok2 else repr(w),
                            'repro': f'T=pytezos.michelson.types.{T.__name__}; T.from_micheline_value(T.from_value({value!r}).to_micheline_value(mode="optimized")).value'})
            if ki <= 3:
                ok, v = lib.call(D.KeyHashType.from_value, text)
                ok1, m = lib.call(v.to_micheline_value, mode='optimized') if ok else (False, None)
                ok2, w = lib.call(D.KeyHashType.from_micheline_value, m) if ok1 else (False, None)
                ctx.case(('key_hash', text), kind=f'KeyHashType:roundtrip:{kind}')
                if ok1:
                    d = bytes.fromhex(m['bytes'])
                    typed(0, ki, True, h, b'', out_bytes(True, d), ('KeyHashType.to_micheline_value', text))
                    typed(9, 0, False, d, b'', addr_out(ok2, w.value if ok2 else None, False), ('KeyHashType.from_micheline_value', d.hex()))
                textual(11, False, ctext(text.encode()), body_of(kind, h), ok and ok1 and ok2, w.value if ok2 else None, ('KeyHashType observe', text))
                if not (ok and ok1 and ok2) or w.value != text:
                    report('a key hash does not survive the optimized form' + (' (kind confusion)' if ok2 and w.value[:3] != text[:3] else ''),
                           {'value': text, 'optimized': m, 'read_back': w.value if ok2 else repr(w),
                            'repro': f'K=pytezos.michelson.types.KeyHashType; K.from_micheline_value(K.from_value({text!r}).to_micheline_value(mode="optimized")).value'})

    # ---------------------------------------------------------------- public keys
    for ki, (kind, n) in enumerate(KEYS):
        emb = embedded_prefix_payloads(rng, n, rows[(kind, n)][2])
        for p in rng.sample(emb, ctx.n(2, len(emb))) + digests(rng, n, ctx.n(6, 60)):
            text = b58(kind, p)
            ok, d = lib.call(F.forge_public_key, text)
            ctx.case(('forge_public_key', text), kind=f'forge_public_key:{kind}', sample={'forge_public_key': text, 'bytes': d.hex() if ok else repr(d)})
            typed(4, ki, False, p, b'', out_bytes(ok, d), ('forge_public_key', text))
            textual(4, False, ctext(text.encode()), body_of(kind, p), ok, d, ('forge_public_key', text))
            ok1, v = lib.call(D.KeyType.from_value, text)
            ok2, m = lib.call(v.to_micheline_value, mode='optimized') if ok1 else (False, None)
            ok3, w = lib.call(D.KeyType.from_micheline_value, m) if ok2 else (False, None)
            if ok2:
                typed(4, ki, False, p, b'', out_bytes(True, bytes.fromhex(m['bytes'])), ('KeyType.to_micheline_value', text))
            if ok:
                ok4, back = lib.call(F.unforge_public_key, d)
                typed(5, 0, False, d, b'', out_val(ki, parse_text(table, back)[1]) if ok4 else 'Reject', ('unforge_public_key', d.hex()))
                textual(5, False, chex(d), body_of(kind, p), ok4, back, ('unforge_public_key', d.hex()))
            textual(12, False, ctext(text.encode()), body_of(kind, p), ok1 and ok2 and ok3, w.value if ok3 else None, ('KeyType observe', text))
            if not (ok and ok1 and ok2 and ok3) or w.value != text:
                report(f'a {kind} public key does not survive the optimized form',
                       {'value': text, 'optimized': m, 'read_back': w.value if ok3 else repr(w),
                        'repro': f'K=pytezos.michelson.types.KeyType; K.from_micheline_value(K.from_value({text!r}).to_micheline_value(mode="optimized")).value'})

    # ---------------------------------------------------------------- signatures and chain ids
    for si, (kind, n) in enumerate(SIGS):
        emb = embedded_prefix_payloads(rng, n, rows[(kind, n)][2])
        for p in rng.sample(emb, ctx.n(2, len(emb))) + digests(rng, n, ctx.n(4, 40)):
            text = b58(kind, p)
            ok1, v = lib.call(D.SignatureType.from_value, text)
            ok2, m = lib.call(v.to_micheline_value, mode='optimized') if ok1 else (False, None)
            ok3, w = lib.call(D.SignatureType.from_micheline_value, m) if ok2 else (False, None)
            ctx.case(('signature', text), kind=f'SignatureType:roundtrip:{kind}', sample={'signature': text[:20] + '...', 'read_back': (w.value[:20] + '...') if ok3 else repr(w)})
            if ok2:
                d = bytes.fromhex(m['bytes'])
                textual(6, False, ctext(text.encode()), body_of(kind, p), True, d, ('forge_base58', text))
                ok4, back = lib.call(F.unforge_signature, d)
                bk = parse_text(table, back) if ok4 else None
                typed(6, 0, False, d, b'', out_val([s for s, _ in SIGS].index(bk[0]), bk[1]) if ok4 else 'Reject', ('unforge_signature', d.hex()))
                textual(7, False, chex(d), body_of('BLsig' if n == 96 else 'sig', p), ok4, back, ('unforge_signature', d.hex()))
            if kind in ('sig', 'BLsig'):
                textual(13, False, ctext(text.encode()), body_of(kind, p), ok1 and ok2 and ok3, w.value if ok3 else None, ('SignatureType observe', text))
            if not (ok1 and ok2 and ok3) or bytes.fromhex(m['bytes']) != p or not (v == w) or E.base58_decode(w.value.encode()) != p:
                report(f'a {n}-byte signature ({kind} notation) does not survive the optimized form',
                       {'value': text, 'optimized': m, 'read_back': w.value if ok3 else repr(w),
                        'repro': f'S=pytezos.michelson.types.SignatureType; S.from_micheline_value(S.from_value({text!r}).to_micheline_value(mode="optimized"))'})
    for p in embedded_prefix_payloads(rng, 4, rows[('Net', 4)][2]) + digests(rng, 4, ctx.n(8, 40)):
        text = b58('Net', p)
        ok1, v = lib.call(D.ChainIdType.from_value, text)
        ok2, m = lib.call(v.to_micheline_value, mode='optimized') if ok1 else (False, None)
        ok3, w = lib.call(D.ChainIdType.from_micheline_value, m) if ok2 else (False, None)
        ctx.case(('chain_id', text), kind='ChainIdType:roundtrip')
        if ok2:
            d = bytes.fromhex(m['bytes'])
            textual(6, False, ctext(text.encode()), body_of('Net', p), True, d, ('forge_base58', text))
            ok4, back = lib.call(F.unforge_chain_id, d)
            typed(7, 0, False, d, b'', out_bytes(True, parse_text(table, back)[1]) if ok4 else 'Reject', ('unforge_chain_id', d.hex()))
            textual(8, False, chex(d), body_of('Net', p), ok4, back, ('unforge_chain_id', d.hex()))
        textual(14, False, ctext(text.encode()), body_of('Net', p), ok1 and ok2 and ok3, w.value if ok3 else None, ('ChainIdType observe', text))
        if not (ok1 and ok2 and ok3) or w.value != text or bytes.fromhex(m['bytes']) != p:
            report('a chain id does not survive the optimized form', {'value': text, 'optimized': m, 'read_back': w.value if ok3 else repr(w)})

    # ---------------------------------------------------------------- histories on ONE value object
    # The converters must be functions of the value only: whatever was done with the object before (compared,
    # sorted, hashed, used as set element / map key, converted in other modes, in any order and repeatedly),
    # the optimized form is the one a fresh object gives and reads back to the denoted value.
    from pytezos.michelson.types.base import MichelsonType
    contract_t = MichelsonType.match({'prim': 'contract', 'args': [{'prim': 'unit'}]})
    HIST_OPS = ['lt', 'gt', 'sorted', 'eq', 'eq_fresh', 'hash', 'set', 'dict', 'sort_key', 'readable', 'optimized',
                'legacy_optimized', 'pyobj', 'repr', 'min']

    OP_CODE = {'lt': 'v < o', 'gt': 'o < v', 'sorted': 'sorted([o, v])', 'min': 'min(v, o)', 'eq': 'v == o',
               'eq_fresh': 'v == T.from_value(x)', 'hash': 'hash(v)', 'set': '{v, o}', 'dict': '{v: 1, o: 2}',
               'sort_key': "getattr(v, '_sort_key', lambda: None)()", 'readable': "v.to_micheline_value(mode='readable')",
               'optimized': "v.to_micheline_value(mode='optimized')", 'legacy_optimized': "v.to_micheline_value(mode='legacy_optimized')",
               'pyobj': 'v.to_python_object()', 'repr': 'repr(v)'}
    TYPE_EXPR = {'contract': {'prim': 'contract', 'args': [{'prim': 'unit'}]}}

    def run_history(T, value, other, ops):
        """Fresh object, the operations (exceptions ignored: only their side effects matter), then the observation."""
        ok, v = lib.call(T.from_value, value)
        if not ok:
            return None
        o = T.from_value(other)
        env = {'v': v, 'o': o, 'T': T, 'x': value}
        for op in ops:
            lib.call(eval, OP_CODE[op], env)
        ok1, m = lib.call(v.to_micheline_value, mode='optimized')
        ok0, m0 = lib.call(T.from_value(value).to_micheline_value, mode='optimized')
        ok2, w = lib.call(T.from_micheline_value, m) if ok1 else (False, None)
        ok3, rd = lib.call(v.to_micheline_value, mode='readable')
        return v, (ok1, m), (ok0, m0), (ok2, w), (ok3, rd)

    def history_case(tname, T, value, denoted, other_values, raw=False):
        ops = [rng.choice(HIST_OPS) for _ in range(rng.choice([1, 1, 2, 3, 5]))]
        if rng.random() < 0.5:
            ops[0] = rng.choice(['lt', 'gt', 'sorted', 'sort_key', 'min'])   # ordering first: the shape a cache would break
        other = other_values[0]

        def verdict(ops_):
            r = run_history(T, value, other, ops_)
            if r is None:
                return None, None
            v, (ok1, m), (ok0, m0), (ok2, w), (ok3, rd) = r
            good = ok1 and ok0 and ok2 and m == m0 and ok3 and rd == {'string': v.value}
            if good and raw:
                good = E.base58_decode(w.value.encode()) == E.base58_decode(value.encode())
            elif good:
                good = w.value == denoted
            return good, r

        good, r = verdict(ops)
        if r is None:
            return
        v, (ok1, m), (ok0, m0), (ok2, w), _ = r
        ctx.case(('history', tname, value, tuple(ops)), kind=f'history:{tname}:{len(ops)}',
                 sample={'type': tname, 'value': value, 'history': ops, 'optimized': m if ok1 else repr(m)})
        if not good:
            for op in ops:   # shrink to a single operation when one is enough
                g1, r1 = verdict([op])
                if g1 is False:
                    ops, r = [op], r1
                    v, (ok1, m), (ok0, m0), (ok2, w), _ = r
                    break
            texpr = TYPE_EXPR.get(tname, {'prim': tname})
            report(f'a {tname} value that was compared / hashed / converted before does not survive the optimized form',
                   {'type': tname, 'value': value, 'history': ops, 'other': other, 'optimized_after_history': m if ok1 else repr(m),
                    'optimized_fresh': m0 if ok0 else repr(m0), 'read_back': w.value if ok2 else repr(w), 'expected': denoted or 'same raw bytes',
                    'repro': f"from pytezos.michelson.types.base import MichelsonType as M; T=M.match({texpr!r}); x={value!r}; v=T.from_value(x); "
                             f"o=T.from_value({other!r}); " + '; '.join(OP_CODE[op] for op in ops)
                             + "; print(T.from_micheline_value(v.to_micheline_value(mode='optimized')).value)"})
        elif ok1 and tname in ('address', 'contract', 'tx_rollup_l2_address') and sel.random() < 0.3:
            # (A) the bytes written after the history are the model's
            a, pct, ep = denoted.partition('%')
            tp, h = parse_text(table, a)
            tcases.append((f'((0%N, nil, nil), (2%nat, {cnat(ADDR.index(tp))}, false, {chex(h)}, {chex(ep.encode() if pct else b"default")}))',
                           out_bytes(True, bytes.fromhex(m['bytes']))))
            tmeta.append(('forge_contract after history', value))

    n_hist = ctx.n(3, 25)
    for kind in ADDR:
        T_list = [('tx_rollup_l2_address', D.TXRAddress)] if kind == 'txr1' else [('address', D.AddressType), ('contract', contract_t)]
        for h in digests(rng, 20, n_hist):
            a = b58(kind, h)
            a2 = b58(kind, rb(rng, 20))
            for tname, T in T_list:
                for ep in [None] + rng.sample([e for e in ENTRYPOINTS if e != ''], 2):
                    value = a if ep is None else f'{a}%{ep}'
                    denoted = a if ep in (None, 'default') else value
                    others = [a, f'{a}%zz', a2, f'{a2}%{ep or "x"}']
                    rng.shuffle(others)
                    history_case(tname, T, value, denoted, others)
    for kind in ADDR[:4]:
        for h in digests(rng, 20, n_hist):
            history_case('key_hash', D.KeyHashType, b58(kind, h), b58(kind, h), [b58(k2, rb(rng, 20)) for k2 in ADDR[:4]])
    for kind, n in KEYS:
        for p in digests(rng, n, n_hist):
            history_case('key', D.KeyType, b58(kind, p), b58(kind, p), [b58(k2, rb(rng, n2)) for k2, n2 in KEYS])
    for kind, n in SIGS:
        for p in digests(rng, n, max(2, n_hist // 2)):
            history_case('signature', D.SignatureType, b58(kind, p), None, [b58(k2, rb(rng, n2)) for k2, n2 in SIGS] + [b58('sig' if n == 64 else 'BLsig', p)], raw=True)
    for p in digests(rng, 4, n_hist):
        history_case('chain_id', D.ChainIdType, b58('Net', p), b58('Net', p), [b58('Net', rb(rng, 4)), b58('Net', bytes(4))])

    # containers: constructors of set / map compare their elements before anything is written
    def container_case(prim, elem_prim, strings):
        elem_t = MichelsonType.match({'prim': elem_prim})
        ok, objs = lib.call(lambda: sorted(elem_t.from_micheline_value({'string': x}) for x in strings))
        if not ok:
            return
        ordered = []
        for o in objs:
            if o.value not in ordered:
                ordered.append(o.value)
        if prim == 'set':
            t_ = MichelsonType.match({'prim': 'set', 'args': [{'prim': elem_prim}]})
            lit = [{'string': x} for x in ordered]
            names = lambda r: [x['string'] for x in r]  # noqa: E731
        else:
            t_ = MichelsonType.match({'prim': prim, 'args': [{'prim': elem_prim}, {'prim': 'nat'}]})
            lit = [{'prim': 'Elt', 'args': [{'string': x}, {'int': str(i)}]} for i, x in enumerate(ordered)]
            names = lambda r: [x['args'][0]['string'] for x in r]  # noqa: E731
        ok1, val = lib.call(t_.from_micheline_value, lit)
        if not ok1:
            return   # the ordering of the elements is C03's business
        ok2, opt = lib.call(val.to_micheline_value, mode='optimized')
        ok3, back = lib.call(t_.from_micheline_value, opt) if ok2 else (False, None)
        ok4, rd = lib.call(back.to_micheline_value, mode='readable') if ok3 else (False, None)
        ctx.case(('container', prim, elem_prim, tuple(ordered)), kind=f'history:{prim} {elem_prim}')
        if not (ok2 and ok3 and ok4) or names(rd) != ordered:
            report(f'the elements of a `{prim} {elem_prim}` do not survive the optimized form',
                   {'type': f'{prim} {elem_prim}', 'elements': ordered, 'optimized': opt if ok2 else repr(opt),
                    'read_back': names(rd) if ok4 else repr(rd if ok3 else back),
                    'repro': f"t=MichelsonType.match(<{prim} {elem_prim} ...>); t.from_micheline_value(t.from_micheline_value(<readable {ordered}>).to_micheline_value(mode='optimized'))"})

    for _ in range(ctx.n(6, 60)):
        kind = rng.choice([k for k in ADDR if k != 'txr1'])
        a, a2 = b58(kind, rng.choice(digests(rng, 20, 4))), b58(rng.choice(['tz1', 'KT1', 'sr1', 'tz4']), rb(rng, 20))
        strings = [a, f'{a}%{rng.choice(["foo", "a", "x" * 31, "a%b"])}', f'{a}%bar', a2, f'{a2}%foo']
        rng.shuffle(strings)
        container_case(rng.choice(['set', 'map']), 'address', strings[:rng.randrange(2, 6)])
    for _ in range(ctx.n(3, 30)):
        container_case(rng.choice(['set', 'map']), 'key_hash', [b58(rng.choice(ADDR[:4]), rng.choice(digests(rng, 20, 6))) for _ in range(3)])
        kk, kn = rng.choice(KEYS)
        container_case(rng.choice(['set', 'map']), 'key', [b58(kk, rb(rng, kn)), b58(*[(k, rb(rng, n)) for k, n in [rng.choice(KEYS)]][0])])

    # ---------------------------------------------------------------- malformed stream + blind_unpack
    blobs = [b'']
    for n in list(range(0, 25)) + [32, 33, 34, 35, 48, 49, 50, 63, 64, 65, 95, 96, 97]:
        for _ in range(ctx.n(1, 12)):
            blobs.append(rb(rng, n))
            if n:
                blobs.append(bytes([rng.randrange(0, 5)]) + rb(rng, n - 1))
            if n > 1:
                blobs.append(bytes([rng.randrange(0, 5), rng.randrange(0, 5)]) + rb(rng, n - 2))
                blobs.append(bytes([rng.randrange(0, 5)]) + rb(rng, n - 2) + b'\x00')
    base = [m[1] for m in tmeta_all if m[0] == 'unforge_address'][:ctx.n(40, 300)]
    for hx_ in base:
        d = bytearray.fromhex(hx_)
        k = rng.random()
        if k < 0.3:
            d[0] = rng.randrange(0, 6)
        elif k < 0.5 and len(d) > 1:
            d[1] = rng.randrange(0, 6)
        elif k < 0.7:
            d[-1] = rng.choice([0, 1, 255])
        elif k < 0.85:
            d = d[:-1]
        else:
            d = d + bytes([rng.choice([0, 0x61])])
        blobs.append(bytes(d))

    # byte strings that are at once a well-formed optimized form (any 4 bytes = chain id, any 64/96 bytes = signature)
    # AND a PACKed Micheline expression (0x05 + forged literal): the cascade must still say chain id / signature
    def packed_of_length(n):
        out = []
        if n >= 7:
            k = n - 6
            out.append(b'\x05' + F.forge_micheline({'bytes': rb(rng, k).hex()}))
            out.append(b'\x05' + F.forge_micheline({'string': ''.join(rng.choice('abcXYZ019 ') for _ in range(k))}))
            if k % 2 == 0:
                out.append(b'\x05' + F.forge_micheline([{'prim': 'Unit'}] * (k // 2)))
        if n >= 3:
            k = n - 2   # zarith integer of exactly k bytes: 6 bits + 7 bits per further byte, top group non-zero
            bits = 6 + 7 * (k - 1)
            val = rng.getrandbits(bits) | (1 << (bits - 1)) if k > 1 else rng.getrandbits(6)
            for sign in (1, -1):
                b_ = b'\x05' + F.forge_micheline({'int': str(sign * val)})
                if len(b_) == n:
                    out.append(b_)
        if n == 3:
            out.append(b'\x05\x03\x0b')
        if n == 4:
            out += [bytes.fromhex('05008001'), bytes.fromhex('0500ff7f'), bytes.fromhex('0500c001'), b'\x05' + rb(rng, 3)]
        return [x for x in out if len(x) == n]

    ambiguous = []
    for n in (3, 4, 5, 21, 22, 33, 34, 49, 64, 96):
        for _ in range(ctx.n(2, 10)):
            ambiguous += packed_of_length(n)
    blobs += ambiguous
    from pytezos.michelson.micheline import micheline_value_to_python_object
    from pytezos.michelson.types import BytesType

    def dedicated(d):
        # what the dedicated readers say, in the order of the property's kinds
        for fn in (F.unforge_chain_id, F.unforge_address, F.unforge_public_key, F.unforge_signature):
            ok, r = lib.call(fn, d)
            if ok:
                return fn.__name__, r
        return None, None

    def classify(res):
        """blind_unpack's answer -> model [blind] rendering."""
        if isinstance(res, str):
            try:
                tp, p = parse_text(table, res)
            except Exception:  # noqa: BLE001
                return '(Ok (500%nat, nil, nil))'
            if tp == 'Net':
                return out_val(100, p)
            if tp in ADDR:
                return out_val(200 + ADDR.index(tp), p)
            if tp in [k for k, _ in KEYS]:
                return out_val(300 + [k for k, _ in KEYS].index(tp), p)
            if tp in [k for k, _ in SIGS]:
                return out_val(400 + [k for k, _ in SIGS].index(tp), p)
        return '(Ok (500%nat, nil, nil))'

    ALL_OPS = ((1, F.unforge_address, 'unforge_address'), (3, F.unforge_contract, 'unforge_contract'),
               (5, F.unforge_public_key, 'unforge_public_key'), (6, F.unforge_signature, 'unforge_signature'),
               (7, F.unforge_chain_id, 'unforge_chain_id'))

    def ops_for(d):
        # quick tier: the readers whose length window contains len(d), plus one other
        if ctx.thorough:
            return ALL_OPS
        n = len(d)
        rel = [o for o in ALL_OPS if (o[0] in (1, 3) and 19 <= n <= 24) or (o[0] == 5 and n in (32, 33, 34, 35, 48, 49, 50))
               or (o[0] == 6 and n in (63, 64, 65, 95, 96, 97)) or (o[0] == 7 and 3 <= n <= 5)]
        extra = rng.choice(ALL_OPS)
        return rel + ([extra] if extra not in rel else [])

    for d in blobs:
        for op, fn, name in ops_for(d):
            if op == 3 and d[22:]:
                try:
                    d[22:].decode()
                except UnicodeDecodeError:
                    continue   # the model keeps entrypoints as bytes; non-UTF-8 tails are outside it
            ok, r = lib.call(fn, d)
            ctx.case((name, d), nontrivial=len(d) > 0, kind=f'{name}:malformed:{"ok" if ok else "reject"}')
            if not ok:
                exp = 'Reject'
            elif op in (1, 3):
                exp = addr_out(True, r, op == 3)
            elif op == 5:
                tp, p = parse_text(table, r)
                exp = out_val([k for k, _ in KEYS].index(tp), p)
            elif op == 6:
                tp, p = parse_text(table, r)
                exp = out_val([k for k, _ in SIGS].index(tp), p)
            else:
                exp = out_bytes(True, parse_text(table, r)[1])
            typed(op, 0, False, d, b'', exp, (name, d.hex()))
            # (B) whatever is accepted must be the optimized form of what is returned
            if ok and op == 1:
                tz_only = len(d) == 21
                ok2, again = lib.call(F.forge_address, r, tz_only)
                if not ok2 or again != d:
                    report('unforge_address accepts bytes that are not the optimized form of the address it returns',
                           {'bytes': d.hex(), 'returned': r, 'forged_again': again.hex() if ok2 else repr(again),
                            'repro': f'pytezos.michelson.forge.unforge_address(bytes.fromhex({d.hex()!r}))'})
        ok, r = lib.call(blind_unpack, d)
        ctx.case(('blind_unpack', d), nontrivial=len(d) > 0, kind=f'blind_unpack:{type(r).__name__}{":packed" if d[:1] == bytes([5]) else ""}')
        if ok:
            typed(8, 0, False, d, b'', classify(r), ('blind_unpack', d.hex()))
        # (B) a byte string that a dedicated reader accepts is that value for every untyped reader
        who, want = dedicated(d)
        if who is not None:
            readers = [('blind_unpack', (ok, r)),
                       ('micheline_value_to_python_object', lib.call(micheline_value_to_python_object, {'bytes': d.hex()})),
                       ('BytesType.to_python_object(try_unpack=True)',
                        lib.call(lambda: BytesType.from_micheline_value({'bytes': d.hex()}).to_python_object(try_unpack=True)))]
            for rname, (rok, rval) in readers:
                if not rok or rval != want:
                    report(f'{rname} mistakes a well-formed optimized form ({who[8:]}) for something else',
                           {'bytes': d.hex(), 'expected': want, 'returned': repr(rval), 'reader': rname,
                            'repro': f"from pytezos.michelson.micheline import blind_unpack; blind_unpack(bytes.fromhex({d.hex()!r}))"})
                    break
    # blind_unpack on the valid forms: the category must be the right one (B)
    for (name, hx_) in [m[:2] for m in tmeta_all if m[0] in ('unforge_address', 'unforge_public_key', 'unforge_signature', 'unforge_chain_id')][:ctx.n(150, 1500)]:
        d = bytes.fromhex(hx_)
        ok, r = lib.call(blind_unpack, d)
        want, _ = lib.call({'unforge_address': F.unforge_address, 'unforge_public_key': F.unforge_public_key,
                            'unforge_signature': F.unforge_signature, 'unforge_chain_id': F.unforge_chain_id}[name], d)
        ok2, val = lib.call({'unforge_address': F.unforge_address, 'unforge_public_key': F.unforge_public_key,
                             'unforge_signature': F.unforge_signature, 'unforge_chain_id': F.unforge_chain_id}[name], d)
        if ok2 and (not ok or r != val):
            report(f'blind_unpack mistakes a valid optimized form ({name[8:]}) for something else',
                   {'bytes': hx_, 'expected': val, 'blind_unpack': repr(r), 'repro': f'pytezos.michelson.micheline.blind_unpack(bytes.fromhex({hx_!r}))'})

    # ---------------------------------------------------------------- the module functions are functions
    # (a sample of the earlier calls is repeated in another order: a cache keyed on too little would show)
    FN = {'forge_address': lambda a, b: F.forge_address(a, b), 'unforge_address': lambda hx_: F.unforge_address(bytes.fromhex(hx_)),
          'unforge_contract': lambda hx_: F.unforge_contract(bytes.fromhex(hx_)), 'unforge_public_key': lambda hx_: F.unforge_public_key(bytes.fromhex(hx_)),
          'forge_public_key': lambda a: F.forge_public_key(a)}
    calls = [m for m in tmeta_all if m[0] in FN][:ctx.n(300, 3000)]
    first = [lib.call(FN[m[0]], *m[1:]) for m in calls]
    order = list(range(len(calls)))
    rng.shuffle(order)
    for i in order:
        again = lib.call(FN[calls[i][0]], *calls[i][1:])
        if again[0] != first[i][0] or (again[0] and again[1] != first[i][1]):
            report(f'{calls[i][0]} gives different answers for the same argument depending on the calls made before',
                   {'call': list(calls[i]), 'first': repr(first[i][1]), 'later': repr(again[1])})
            break
    ctx.extra['calls_repeated_in_other_order'] = len(calls)

    # ---------------------------------------------------------------- comparison inside coqc
    ctx.extra['cases_typed'] = len(tcases)
    ctx.extra['cases_text'] = len(xcases)
    hist = {}
    for m in xmeta:
        hist[m[0]] = hist.get(m[0], 0) + 1
    ctx.extra['text_level_calls'] = hist
    IN_TY = '(N * bytes * bytes) * (nat * nat * bool * bytes * bytes)'
    allc = tcases + xcases
    bad = ctx.coq_mismatches('dom', IMPORTS, 'both', 'out_eqb', IN_TY, 'out', allc, shard=ctx.n(650, 2000), prelude=rows_def + PRELUDE)
    rows_ok = 0 not in bad
    ans = 'case 0: domain_rows_ok repo_table && table_ok repo_table = ' + str(rows_ok).lower()
    ctx.extra['repo_table_domain_rows_ok'] = rows_ok
    bad = [i for i in bad if i != 0]
    bad_t = [i for i in bad if i < len(tcases)]
    bad_x = [i - len(tcases) for i in bad if i >= len(tcases)]
    ctx.extra['disagreements'] = {'typed': len(bad_t), 'text': len(bad_x)}
    if reported == 0 and (bad_t or bad_x or not rows_ok):
        rep = {'correspondence': 'C10/pytezos.michelson.forge + types.domain + blind_unpack vs Codec.Domain',
               'disagreements': ctx.extra['disagreements'], 'repo_table_has_the_rows_forge_py_assumes': rows_ok,
               'coq_answer_for_repo_table': ans[-300:]}
        if bad_t:
            i = bad_t[0]
            rep['typed_case'] = {'call': list(tmeta[i]), 'case': tcases[i][0], 'implementation': tcases[i][1],
                                 'model': ctx.coq_eval(IMPORTS, f'both {tcases[i][0]}', prelude=rows_def + PRELUDE)}
            rep['typed_all'] = [list(tmeta[j])[:2] for j in bad_t[:30]]
        if bad_x:
            i = bad_x[0]
            rep['text_case'] = {'call': list(xmeta[i]), 'implementation': xcases[i][1],
                                'model': ctx.coq_eval(IMPORTS, f'both {xcases[i][0]}', prelude=rows_def + PRELUDE)}
        report('implementation no longer corresponds to the model the theorems are about', rep, found=False)
