"""Simulated Tezos node behind pytezos' real RPC query classes (used by C23, C24, C25).

`SimNode` subclasses pytezos.rpc.node.RpcNode and answers the handful of RPC paths that
OperationGroup.fill / autofill / run / sign / inject and ExecutionContext.get_counter /
get_counter_offset use.  Everything above the HTTP layer (ShellQuery path building, the
OperationGroup code, the ExecutionContext counter cache) is the real code of /repo.

Node state: per-account counter, mempool (list of pending operation JSON), a script of
outcomes for run_operation and injection (so that failures can be simulated).
"""
from __future__ import annotations

import re
from typing import Any, Callable, Dict, List, Optional

from pytezos.context.impl import ExecutionContext
from pytezos.crypto.encoding import base58_encode
from pytezos.crypto.key import blake2b_32
from pytezos.rpc import ShellQuery
from pytezos.rpc.errors import RpcError
from pytezos.rpc.node import RpcNode

CHAIN_ID = 'NetXdQprcVkpaWU'
PROTOCOL = 'PsRiotumaAMotcRoDWW1bysEhQy2n1M5fy8JgRp8jjRfHGmfeA7'  # any protocol hash; never interpreted
DEFAULT_CONSTANTS = {'hard_gas_limit_per_operation': '1040000', 'hard_storage_limit_per_operation': '60000'}


def block_hash(i: int) -> str:
    return base58_encode(blake2b_32(b'block%d' % i).digest(), b'B').decode()


class SimNode(RpcNode):
    def __init__(self, constants: Optional[Dict[str, str]] = None, sandboxed: bool = False):
        super().__init__('http://sim')
        self.constants = dict(constants or DEFAULT_CONSTANTS)
        self.sandboxed = sandboxed
        self.counters: Dict[str, int] = {}
        self.mempool_applied: List[dict] = []      # operations as the node reports them
        self.mempool_unprocessed: List[Any] = []
        self.level = 1000
        self.log: List[tuple] = []
        # hooks
        self.metadata_for: Callable[[int, dict], dict] = lambda i, c: {
            'operation_result': {'status': 'applied', 'consumed_milligas': '100000'}}
        self.inject_ok: Callable[[bytes], bool] = lambda raw: True
        self.injected: List[bytes] = []
        self.on_inject: Optional[Callable[[bytes], None]] = None

    # ---- RpcNode interface -------------------------------------------------------------
    def get(self, path, params=None, timeout=None):
        self.log.append(('GET', path))
        if path == '/version' or path == 'version':
            return {'network_version': {'chain_name': 'TEZOS_SANDBOXED' if self.sandboxed else 'TEZOS_MAINNET'}}
        if path.endswith('/chain_id'):
            return CHAIN_ID
        m = re.fullmatch(r'/?chains/main/blocks/([^/]+)/hash', path)
        if m:
            ref = m.group(1)
            off = int(ref.split('~')[1]) if '~' in ref else 0
            return block_hash(self.level - off)
        m = re.fullmatch(r'/?chains/main/blocks/([^/]+)/header', path)
        if m:
            return {'protocol': PROTOCOL, 'hash': block_hash(self.level), 'level': self.level, 'chain_id': CHAIN_ID}
        if path.endswith('/context/constants'):
            return dict(self.constants)
        m = re.fullmatch(r'/?chains/main/blocks/[^/]+/context/contracts/([^/]+)', path)
        if m:
            return {'balance': '1000000000000', 'counter': str(self.counters.get(m.group(1), 0))}
        if path.endswith('/mempool/pending_operations'):
            return {'applied': list(self.mempool_applied), 'unprocessed': list(self.mempool_unprocessed),
                    'refused': [], 'branch_refused': [], 'branch_delayed': []}
        raise AssertionError(f'SimNode: unexpected GET {path}')

    def post(self, path, params=None, json=None, timeout=None):
        self.log.append(('POST', path))
        if path.endswith('/helpers/scripts/run_operation'):
            contents = []
            for i, c in enumerate(json['operation']['contents']):
                c = dict(c)
                c['metadata'] = self.metadata_for(i, c)
                contents.append(c)
            return {'contents': contents, 'signature': json['operation']['signature']}
        if path.endswith('injection/operation'):
            raw = bytes.fromhex(json)
            if not self.inject_ok(raw):
                raise RpcError('injection refused by the simulated node')
            self.injected.append(raw)
            if self.on_inject:
                self.on_inject(raw)
            return base58_encode(blake2b_32(raw).digest(), b'o').decode()
        raise AssertionError(f'SimNode: unexpected POST {path}')

    def request(self, method, path, **kwargs):  # nothing may reach the network
        raise AssertionError(f'SimNode: raw request {method} {path}')


def make_client(key, node: SimNode):
    """A PyTezosClient wired to the simulated node (real ShellQuery, real ExecutionContext)."""
    from pytezos.client import PyTezosClient

    ctx = ExecutionContext(shell=ShellQuery(node), key=key)
    return PyTezosClient(context=ctx)


BLS_ORDER = 0x73eda753299d7d483339d80809a1d80553bda402fffe5bfeffffffff00000001


def make_key(rng, curve: bytes):
    """Deterministic key of the given curve (b'ed', b'sp', b'p2', b'BL') from the harness PRNG."""
    from pytezos.crypto.key import Key

    while True:
        raw = bytes(rng.getrandbits(8) for _ in range(32))
        if curve == b'BL':
            v = int.from_bytes(raw, 'little') % BLS_ORDER
            if v == 0:
                continue
            raw = v.to_bytes(32, 'little')
        elif curve in (b'sp', b'p2'):
            if not 0 < int.from_bytes(raw, 'big') < 2 ** 255:
                continue
        return Key.from_secret_exponent(raw, curve=curve)
