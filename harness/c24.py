"""C24 — automatically chosen fees meet the node's default minimal fee.

Correspondence (A): the real OperationGroup.fill()/autofill() (pytezos, against the simulated node of
c25_node.py that returns run_operation metadata) vs Client/Fees.v `fill` / `autofill`, compared inside coqc
on: per-content (fee, counter, gas_limit, storage_limit), forged sizes, the node minimum and the verdict.
Oracle (B): fee total >= ceil((100000 + 1000*len(signed operation) + 100*total gas)/1000), computed here
from the bytes pytezos would inject.  Failures inside the known-finding classes are reported as
KNOWN-FINDING, anything else is a VIOLATION.
"""
from __future__ import annotations

import json

import c06_gen as G
import lib
from c25_node import SimNode, make_client, make_key
from lib import cN, cbool, clist

PROP = 'C24'
IMPORTS = 'From PV Require Import Client.Fees.'

KINDS = {'reveal': 'KReveal', 'transaction': 'KTransaction', 'origination': 'KOrigination', 'delegation': 'KDelegation',
         'register_global_constant': 'KRegisterGlobalConstant', 'transfer_ticket': 'KTransferTicket',
         'smart_rollup_add_messages': 'KSrAddMessages', 'smart_rollup_execute_outbox_message': 'KSrExecuteOutbox'}
CURVES = {b'ed': 'Ed', b'sp': 'Sp', b'p2': 'P2', b'BL': 'BL'}
SIGLEN = {b'ed': 64, b'sp': 64, b'p2': 64, b'BL': 96}


def spec_min_fee(size: int, gas: int) -> int:
    nanotez = 100_000 + 1000 * size + 100 * gas
    return -(-nanotez // 1000)


def rand_sim(rng, kind):
    """operation_result (+ internal results) of one content, all applied."""
    def one():
        r = {'status': 'applied'}
        k = rng.random()
        if k < 0.85:
            r['consumed_milligas'] = str(rng.choice([0, 1, 999, 1000, 1001, 99_999, 100_000, 100_001, 168_300, 1_040_000_000,
                                                     rng.randrange(0, 3_000_000), rng.randrange(0, 1_040_000_000)]))
        if rng.random() < 0.4:
            r['paid_storage_size_diff'] = str(rng.choice([0, 1, 67, 257, 5000, rng.randrange(0, 60000)]))
        if rng.random() < 0.25:
            r['allocated_destination_contract'] = rng.random() < 0.8
        if kind == 'origination' and rng.random() < 0.7:
            r['originated_contracts'] = ['KT1' + 'x' * 33]
        return r
    md = {'operation_result': one()}
    if kind in ('transaction', 'smart_rollup_execute_outbox_message') and rng.random() < 0.35:
        md['internal_operation_results'] = [{'kind': 'transaction', 'result': one()} for _ in range(rng.randrange(1, 4))]
    return md


def sim_to_coq(md) -> str:
    rs = [md['operation_result']] + [x['result'] for x in md.get('internal_operation_results', [])]
    out = []
    for r in rs:
        alloc = bool(r.get('allocated_destination_contract') or r.get('originated_contracts'))
        out.append(f"(mks {cN(int(r.get('consumed_milligas', '0')))} {cN(int(r.get('paid_storage_size_diff', '0')))} {cbool(alloc)})")
    return clist(out)


def content_to_coq(unfilled: dict, final: dict, size: int) -> str:
    """mcontent of the *unfilled* content: preset fields as given, rest from the final forged size."""
    z = sum(G.zlen(int(final[k])) for k in ('fee', 'counter', 'gas_limit', 'storage_limit'))
    rest = size - z
    kt = str(final.get('destination', '')).startswith('KT')
    return (f"(mkc {KINDS[final['kind']]} {cbool(kt)} {cN(int(unfilled['fee']))} {cN(int(unfilled['counter']))} "
            f"{cN(int(unfilled['gas_limit']))} {cN(int(unfilled['storage_limit']))} {cN(rest)})")


def gen_case(rng, keys, thorough):
    curve = rng.choice([b'ed', b'ed', b'sp', b'p2', b'BL'])
    key = rng.choice(keys[curve])
    n = rng.choice([1, 1, 1, 2, 2, 3, 4, 5, 8, rng.randrange(1, 9)])
    if rng.random() < 0.07:   # long batches: per-content roundings add up (any batch size is in the property)
        n = rng.choice([12, 16, 20, 33, 50])
    mode = rng.choice(['fill', 'autofill', 'autofill'])
    k = rng.random()
    hard_gas = 1_040_000 if k < 0.7 else rng.choice([1_040_000 // 2, 800_000, 3040, 100_000, 1_039_999, 1_040_001, 2_000_000, 5_200_000])
    hard_storage = rng.choice([60000, 60000, 60000, 257, 1000, 120000])
    node_counter = rng.choice([0, 1, 126, 127, 128, 16382, 16383, 16384, 2 ** 21 - 2, 2 ** 21 - 1, 2 ** 28 - 1, 2 ** 35 - 1,
                               2 ** 63 - 1, rng.randrange(0, 10 ** 7), rng.getrandbits(40)])
    pending = rng.choice([0, 0, 0, 1, 2, 5, 127])
    contents = []
    preset = False
    for _ in range(n):
        kind = rng.choice(list(KINDS)) if n <= 8 else rng.choice(['transaction', 'transaction', 'delegation', 'reveal'])
        c = G.rand_content(rng, kind, unset=True)
        if n > 8 and kind == 'transaction':
            c.pop('parameters', None)
        if kind == 'transaction' and rng.random() < 0.5:
            c['amount'] = str(rng.choice([0, 1, 127, 128, 10 ** 6, 2 ** 63 - 1]))
        if rng.random() < 0.06:  # limits preset by the user: outside the property, inside the correspondence
            c[rng.choice(['gas_limit', 'storage_limit'])] = str(rng.choice([1, 500, 2000, 200000]))
            preset = True
        contents.append(c)
    return dict(curve=curve, key=key, n=n, mode=mode, hard_gas=hard_gas, hard_storage=hard_storage,
                node_counter=node_counter, pending=pending, contents=contents, preset=preset)


def run_impl(case, rng):
    from pytezos.operation.forge import forge_operation
    from pytezos.operation.group import OperationGroup

    key = case['key']
    node = SimNode(constants={'hard_gas_limit_per_operation': str(case['hard_gas']),
                              'hard_storage_limit_per_operation': str(case['hard_storage'])})
    pkh = key.public_key_hash()
    node.counters[pkh] = case['node_counter']
    if case['pending']:
        node.mempool_applied.append({'hash': 'o', 'contents': [{'kind': 'transaction', 'source': pkh}] * case['pending']})
        node.mempool_applied.append({'hash': 'o2', 'contents': [{'kind': 'transaction', 'source': G.b58('tz1', bytes(20))}]})
    sims = case.setdefault('sims', [rand_sim(rng, c['kind']) for c in case['contents']])
    node.metadata_for = lambda i, c: json.loads(json.dumps(sims[i]))
    client = make_client(key, node)
    opg = OperationGroup(context=client.context, contents=[dict(c) for c in case['contents']])
    ok, res = lib.call(getattr(opg, case['mode']), **case.get('args', {}))
    if not ok:
        return None, f'{type(res).__name__}: {res}'
    final = res.contents
    sizes = [len(forge_operation(c)) for c in final]
    forged = bytes.fromhex(res.forge())
    sig_note = 'signed'
    if case['curve'] == b'BL' and not case.get('sign_bls'):
        signed_len = len(forged) + 96
        sig_note = 'tz4: 96 signature bytes assumed (not signed in this case)'
    else:
        oks, s = lib.call(lambda: res.sign().binary_payload())
        if oks:
            signed_len = len(s)
        else:
            signed_len = len(forged) + SIGLEN[case['curve']]
            sig_note = f'sign() failed ({type(s).__name__}); {SIGLEN[case["curve"]]} signature bytes assumed'
    fee = sum(int(c['fee']) for c in final)
    gas = sum(int(c['gas_limit']) for c in final)
    need = spec_min_fee(signed_len, gas)
    return dict(final=final, sizes=sizes, signed_len=signed_len, fee=fee, gas=gas, need=need, covers=fee >= need,
                sig_note=sig_note, forged=forged.hex()), None


def coq_case(case, out):
    cv = CURVES[case['curve']]
    cs = clist(content_to_coq(u, f, s) for u, f, s in zip(case['contents'], out['final'], out['sizes']))
    ctr = case['node_counter'] + 1
    if case['mode'] == 'fill':
        inp = f"(false, {cv}, {cN(case['hard_gas'])}, {cN(case['hard_storage'])}, {cN(ctr)}, 0%N, {cs}, nil)"
    else:
        sims = clist(sim_to_coq(m) for m in case['sims'])
        inp = f"(true, {cv}, {cN(case['hard_gas'])}, {cN(case['hard_storage'])}, {cN(ctr)}, {cN(case['pending'])}, {cs}, {sims})"
    obs = clist('(' + ', '.join(cN(int(c[k])) for k in ('fee', 'counter', 'gas_limit', 'storage_limit')) + ')' for c in out['final'])
    rep = f"({obs}, {clist(cN(s) for s in out['sizes'])}, {cN(out['need'])}, {cbool(out['covers'])})"
    return inp, rep


PRELUDE = '''
Definition run_case (x : bool * curve * N * N * N * N * list mcontent * list (list sim_result)) :=
  let '(auto, cv, hg, hs, ctr, off, cs, sims) := x in
  report cv (if auto then autofill cv hg hs ctr off cs sims else fill cv hg hs ctr cs).
'''


def classify(ctx, case, out):
    """known-finding class of a failing case, or None."""
    if case['curve'] == b'BL':
        return 'tz4-signature'
    if case['mode'] == 'fill' and case['n'] >= 2:
        return 'fill-batch'
    if case['mode'] == 'fill' and case['hard_gas'] > 1_040_000:
        return 'fill-node-limit'
    return None


def tables(ctx):
    """constants and the default-limit tables, compared exhaustively with the model"""
    import pytezos.operation as O
    import pytezos.operation.fees as F

    bad = []
    consts = [F.MINIMAL_FEES, F.MINIMAL_MUTEZ_PER_BYTE, int(F.MINIMAL_MUTEZ_PER_GAS_UNIT * 1000), F.DEFAULT_CONSTANTS['hard_gas_limit_per_operation'],
              F.DEFAULT_CONSTANTS['hard_storage_limit_per_operation'], F.DEFAULT_TRANSACTION_GAS_LIMIT, F.DEFAULT_TRANSACTION_STORAGE_LIMIT,
              O.DEFAULT_GAS_RESERVE, O.DEFAULT_BURN_RESERVE]
    ctx.table('fees.py constants + DEFAULT_GAS_RESERVE/DEFAULT_BURN_RESERVE')
    cases = [('tt', clist(cN(int(x)) for x in consts))]
    b = ctx.coq_mismatches('consts', IMPORTS, 'fun _ : unit => [MINIMAL_FEES; MINIMAL_MUTEZ_PER_BYTE; MINIMAL_NANOTEZ_PER_GAS_UNIT; '
                           'DEFAULT_HARD_GAS; DEFAULT_HARD_STORAGE; DEFAULT_TRANSACTION_GAS_LIMIT; DEFAULT_TRANSACTION_STORAGE_LIMIT; '
                           'DEFAULT_GAS_RESERVE; DEFAULT_BURN_RESERVE]', 'nlist_eqb', 'unit', 'list N', cases)
    if b:
        bad.append(('constants', consts))
    # default_gas_limit / default_storage_limit: kinds x curves x destination kind x constants
    ctx.table('default_gas_limit / default_storage_limit (8 kinds x 4 source curves x KT/non-KT x 3 constant sets)')
    cases, meta = [], []
    for kind, ck in KINDS.items():
        for tz, cv in (('tz1', 'Ed'), ('tz2', 'Sp'), ('tz3', 'P2'), ('tz4', 'BL')):
            for dest in ('KT1BEqzn5Wx8uJrZNvuS9DVHmLvG9td3fDLi', 'tz1gjaF81ZRRvdzjobyfVNsAeSC6PScjfQwN', 'sr1', None):
                for consts2 in (None, {'hard_gas_limit_per_operation': '777', 'hard_storage_limit_per_operation': '55'},
                                {'hard_gas_limit_per_operation': 2000000, 'hard_storage_limit_per_operation': 70000}):
                    content = {'kind': kind, 'source': tz + 'x'}
                    if dest is not None:
                        content['destination'] = dest
                    ok1, g = lib.call(F.default_gas_limit, content, consts2)
                    ok2, s = lib.call(F.default_storage_limit, content, consts2)
                    hg = int((consts2 or F.DEFAULT_CONSTANTS)['hard_gas_limit_per_operation'])
                    hs = int((consts2 or F.DEFAULT_CONSTANTS)['hard_storage_limit_per_operation'])
                    kt = bool(dest and dest.startswith('KT'))
                    cases.append((f'({cv}, {cN(hg)}, {cN(hs)}, mkc {ck} {cbool(kt)} 0 0 0 0 0)',
                                  clist([cN(g if ok1 else 10 ** 30), cN(s if ok2 else 10 ** 30)])))
                    meta.append((kind, tz, dest, consts2, g, s))
    b = ctx.coq_mismatches('limits', IMPORTS, "fun x : curve * N * N * mcontent => let '(cv, hg, hs, c) := x in "
                           '[default_gas_limit cv hg c; default_storage_limit hs c]', 'nlist_eqb', 'curve * N * N * mcontent', 'list N', cases)
    for i in b[:2]:
        bad.append(('default limits', meta[i]))
    return bad


def run(ctx: lib.Ctx) -> None:
    rng = ctx.rng
    ctx.rule = ('batches of 1..8 manager contents of the 8 kinds (fields unset, as the content builders leave them), source key of '
                'each curve, fill()/autofill() against a simulated node: node constants (default, smaller, larger), account counter at '
                'zarith length boundaries, pending mempool operations, per-content run_operation metadata with internal results and '
                'milligas at rounding boundaries; non-trivial = batch of >= 2 contents or a consumption that is not a multiple of 10 '
                'gas units; distinct = distinct (mode, curve, kinds, constants, counter, consumptions)')
    # findings: attach matchers
    keys = {cv: [make_key(rng, cv) for _ in range(2)] for cv in CURVES}
    import concurrent.futures
    pool = concurrent.futures.ThreadPoolExecutor(max_workers=3)
    fut_tables = pool.submit(tables, ctx)   # coqc runs concurrently with the implementation runs below

    cases = []
    for doc in ctx_corpus(ctx):
        cases.append(doc)
    ncases = ctx.n(700, 12000)
    bls_signed = 0
    while len(cases) < ncases:
        c = gen_case(rng, keys, ctx.thorough)
        if c['curve'] == b'BL' and bls_signed < ctx.n(6, 40):
            c['sign_bls'] = True
            bls_signed += 1
        cases.append(c)
    # the witnesses of the findings file are replayed first (they must still fail: they document the class)
    witness_cases = finding_witnesses(keys) + kind_sweep(keys, rng) + option_cases(keys, rng) + boundary_cases(keys, rng) + residue_cases(keys)[::3]

    coq_cases, meta = [], []
    reported = 0
    for case in witness_cases + cases:
        out, err = run_impl(case, rng)
        key = (case['mode'], case['curve'], tuple(c['kind'] for c in case['contents']), case['hard_gas'], case['node_counter'],
               json.dumps(case.get('sims'), sort_keys=True))
        if out is None:
            ctx.case(key, nontrivial=False, kind='impl-raised')
            if reported < 3:
                reported += 1
                ctx.violation(f'{case["mode"]}() raised on a well-formed batch: {err}', replay_doc(case, None), found=True)
            continue
        nontriv = case['n'] >= 2 or out['gas'] % 10 != 0
        ctx.case(key, nontrivial=nontriv, kind=f"{case['mode']}:{CURVES[case['curve']]}:n{min(case['n'], 4)}{'+' if case['n'] > 4 else ''}:{'ok' if out['covers'] else 'under'}",
                 sample={'mode': case['mode'], 'curve': CURVES[case['curve']], 'kinds': [c['kind'] for c in case['contents']],
                         'fee': out['fee'], 'gas': out['gas'], 'signed_bytes': out['signed_len'], 'node_minimum': out['need']})
        if not case.get('oracle_only'):
            coq_cases.append(coq_case(case, out))
            meta.append((case, out))
        # ---- (B) the property on the implementation's output
        if not out['covers'] and not case['preset']:
            cls = classify(ctx, case, out)
            f = ctx.finding(cls) if cls else None
            if f is not None:
                ctx.known_hit(f)
            elif reported < 3:
                reported += 1
                ctx.violation(f"chosen fee {out['fee']} mutez is below the node minimum {out['need']} mutez "
                              f"({out['signed_len']} bytes, gas {out['gas']}) for {case['mode']}() of {case['n']} content(s), {CURVES[case['curve']]} key",
                              replay_doc(case, out), found=True)
        if case.get('witness') and out['covers']:
            # a listed witness no longer fails: the finding entry is stale (not an alarm about the property)
            ctx.extra.setdefault('stale_findings', []).append(case['witness'])

    fut_abs = pool.submit(check_abstraction, ctx, meta)
    bad = ctx.coq_mismatches('fees', IMPORTS, 'run_case', 'report_eqb',
                             'bool * curve * N * N * N * N * list mcontent * list (list sim_result)',
                             'list (N * N * N * N) * list N * N * bool', coq_cases, prelude=PRELUDE, shard=250)
    ctx.extra['cases_underpaid'] = sum(1 for _, o in meta if not o['covers'])
    bad_abs = fut_abs.result()
    bad_tables = fut_tables.result()
    pool.shutdown()

    if reported == 0 and bad_abs and not bad:
        ctx.violation('the abstraction content -> (kind, KT flag, rest) used by the fee model disagrees with the operation codec', bad_abs, found=False)
    if reported == 0 and (bad or bad_tables):
        # correspondence broke: search for a failing input among the disagreeing cases first
        found = False
        for i in bad:
            case, out = meta[i]
            if not out['covers'] and not case['preset'] and classify(ctx, case, out) is None:
                found = True
        rep = {'correspondence': 'C24/OperationGroup.fill+autofill+fees.py vs Client.Fees.fill/autofill', 'disagreements': len(bad),
               'tables': [repr(t)[:400] for t in bad_tables]}
        if bad:
            case, out = meta[bad[0]]
            rep.update(replay_doc(case, out))
            rep['model'] = ctx.coq_eval(IMPORTS, f'run_case {coq_cases[bad[0]][0]}', prelude=PRELUDE)
            rep['implementation'] = coq_cases[bad[0]][1]
            # targeted search: the same case without known-finding features
            hit = search_failing(ctx, case, rng, keys)
            if hit is not None:
                c2, o2 = hit
                ctx.violation(f"chosen fee {o2['fee']} mutez is below the node minimum {o2['need']} mutez for {c2['mode']}() of {c2['n']} content(s)",
                              replay_doc(c2, o2), found=True)
                return
        ctx.violation('implementation no longer corresponds to the model the theorems are about', rep, found=found)


KIND_IDX = list(KINDS)


def plain_case(keys, n, milligas_list, curve=b'ed', mode='autofill', node_counter=0):
    return dict(curve=curve, key=keys[curve][0], n=n, mode=mode, hard_gas=1_040_000, hard_storage=60000, node_counter=node_counter, pending=0,
                contents=[dict(TRANSFER) for _ in range(n)], preset=False,
                sims=[{'operation_result': {'status': 'applied', 'consumed_milligas': str(m)}} for m in milligas_list])


def kind_sweep(keys, rng):
    """every manager kind x fill/autofill x every 64-byte-signature curve as a single content under default node constants, with the
    variants of fields that fill() completes itself (blank delegate = self registration, blank public key)"""
    out = []
    for kind in KINDS:
        variants = [G.rand_content(rng, kind, unset=True)]
        if kind == 'delegation':
            variants = [dict(variants[0], delegate=''), dict(variants[0], delegate=G.rand_pkh(rng)),
                        {k: v for k, v in variants[0].items() if k != 'delegate'}]
        if kind == 'origination':
            variants.append(dict(variants[0], delegate=G.rand_pkh(rng)))
        for c in variants:
            for mode in ('fill', 'autofill'):
                for cv in (b'ed', b'sp', b'p2'):
                    out.append(dict(curve=cv, key=keys[cv][0], n=1, mode=mode, hard_gas=1_040_000, hard_storage=60000,
                                    node_counter=rng.choice([0, 127, 16383, 10 ** 6]), pending=0, contents=[dict(c)], preset=False))
    return out


def option_cases(keys, rng):
    """autofill() with its optional arguments (gas_reserve, burn_reserve, ttl): the fee is still chosen by the client.  The model has
    the default reserves only, so these cases are judged by the oracle (B) alone."""
    out = []
    for gr in (0, 1, 7, 9, 10, 19, 50, 100, 1000):
        for r in range(10):
            for n in (1, 2) if r % 3 == 0 else (1,):
                c = plain_case(keys, n, [(160 + r) * 1000 + (r % 2)] * n, curve=rng.choice([b'ed', b'sp', b'p2']))
                c['args'] = {'gas_reserve': gr, 'burn_reserve': rng.choice([0, 1, 100, 500]), 'ttl': rng.choice([None, 5, 60, 120])}
                c['oracle_only'] = True
                out.append(c)
    for kind in ('origination', 'transaction', 'delegation', 'reveal'):
        for gr in (0, 7, 15):
            c = dict(curve=b'ed', key=keys[b'ed'][0], n=1, mode='autofill', hard_gas=1_040_000, hard_storage=60000, node_counter=127, pending=1,
                     contents=[G.rand_content(rng, kind, unset=True)], preset=False, args={'gas_reserve': gr, 'burn_reserve': 0}, oracle_only=True)
            out.append(c)
    return out


def boundary_cases(keys, rng):
    """Single-content and 2-batch autofill cases whose chosen fee lands on the zarith byte-length boundaries 2^14 and 2^21
    (found by bisection on the simulated consumption through the real autofill), swept over 31 consecutive gas values =
    every residue mod 10 on both sides of the boundary."""
    out = []
    for n in (1, 2):
        for target in (16384, 2097152):
            lo, hi = 0, 1 << 26                       # gas units of content 0
            while lo < hi:
                mid = (lo + hi) // 2
                o, _ = run_impl(plain_case(keys, n, [mid * 1000] + [100_000] * (n - 1)), rng)
                if o is None:
                    return out
                if o['fee'] >= target:
                    hi = mid
                else:
                    lo = mid + 1
            for g in range(max(0, lo - 15), lo + 16):
                out.append(plain_case(keys, n, [g * 1000] + [100_000] * (n - 1)))
    return out


def residue_cases(keys):
    """batches of 1..50 plain transfers whose per-content gas limits take every residue mod 10"""
    out = []
    for n in (1, 2, 3, 5, 8, 12, 16, 20, 30, 50):
        for r in range(10):
            out.append(plain_case(keys, n, [(160 + r) * 1000 + (1 if r % 3 == 0 else 0)] * n))
    return out


def check_abstraction(ctx, meta):
    """The harness maps a filled content to (kind, destination-is-KT, rest).  Cross-check that mapping against the operation
    codec of C06: Ops_proofs.fees_abstract (about which C24_size_is_forged_size is proved) computed by Coq on the same content."""
    import c06 as C6
    sample = []
    for case, out in meta:
        for f, sz in zip(out['final'], out['sizes']):
            if len(sample) < ctx.n(90, 600) and (len(sample) < 8 * len({x[0]['kind'] for x in sample}) + 8 or ctx.rng.random() < 0.1):
                sample.append((f, sz))
    cases = []
    for f, sz in sample:
        z = sum(G.zlen(int(f[k])) for k in ('fee', 'counter', 'gas_limit', 'storage_limit'))
        kt = str(f.get('destination', '')).startswith('KT')
        cases.append((C6.c_content(f), f'({cN(KIND_IDX.index(f["kind"]))}, {cbool(kt)}, {cN(sz - z)}, {cN(sz)})'))
    prelude = '''From PV Require Client.Fees.
Definition kidx (k : Fees.mkind) : N := match k with Fees.KReveal => 0 | Fees.KTransaction => 1 | Fees.KOrigination => 2 | Fees.KDelegation => 3
  | Fees.KRegisterGlobalConstant => 4 | Fees.KTransferTicket => 5 | Fees.KSrAddMessages => 6 | Fees.KSrExecuteOutbox => 7 end%N.
Definition abs_of (c : content) : N * bool * N * N := match c with
  | CManager h op => let a := fees_abstract h op in (kidx (Fees.mk a), Fees.to_kt a, Fees.rest a, Fees.size a)
  | _ => (99, false, 0, 0)%N end.
Definition abs_eqb (a b : N * bool * N * N) : bool := let '(a1, a2, a3, a4) := a in let '(b1, b2, b3, b4) := b in
  N.eqb a1 b1 && Bool.eqb a2 b2 && N.eqb a3 b3 && N.eqb a4 b4.'''
    bad = ctx.coq_mismatches('abstraction', 'From PV Require Import Codec.Zarith Codec.Ops Proofs.Ops_proofs.', 'abs_of', 'abs_eqb', 'content',
                             'N * bool * N * N', cases, prelude=prelude, shard=50)
    ctx.extra['abstraction_cases'] = len(cases)
    if bad:
        f, sz = sample[bad[0]]
        return {'correspondence': 'C24/harness abstraction vs Ops_proofs.fees_abstract', 'content': f, 'forged_size': sz}
    return None


def search_failing(ctx, case, rng, keys):
    """Around a disagreeing case: single content / autofill batches with a 64-byte-signature key, default node
    constants — the domain on which the theorems promise coverage."""
    for c in residue_cases(keys) + boundary_cases(keys, rng):
        out, err = run_impl(c, rng)
        if out is not None and not out['covers']:
            return c, out
    for attempt in range(60):
        c = gen_case(rng, keys, False)
        c['curve'] = rng.choice([b'ed', b'sp', b'p2'])
        c['key'] = rng.choice(keys[c['curve']])
        c['hard_gas'] = 1_040_000
        if attempt % 2 == 0:
            c['contents'] = [dict(x) for x in case['contents']]
            c['n'] = len(c['contents'])
            c['sims'] = case.get('sims')
            c['node_counter'] = case['node_counter']
            c['pending'] = case['pending']
        if c['mode'] == 'fill' and c['n'] >= 2:
            c['mode'] = 'autofill'
        if c.get('sims') is None or len(c['sims']) != len(c['contents']):
            c.pop('sims', None)
        c['preset'] = any(x['gas_limit'] != '0' or x['storage_limit'] != '0' for x in c['contents'])
        if c['preset']:
            continue
        out, err = run_impl(c, rng)
        if out is not None and not out['covers']:
            return c, out
    return None


def replay_doc(case, out):
    d = {'mode': case['mode'], 'curve': CURVES[case['curve']], 'secret_exponent': case['key'].secret_exponent.hex(),
         'contents': case['contents'], 'node_constants': {'hard_gas_limit_per_operation': case['hard_gas'],
                                                           'hard_storage_limit_per_operation': case['hard_storage']},
         'node_counter': case['node_counter'], 'pending_in_mempool': case['pending'], 'run_operation_metadata': case.get('sims'),
         'call_arguments': case.get('args', {}),
         'repro': "harness/c24.py run_impl(case): OperationGroup(context=make_client(key, SimNode(constants)).context, contents=contents)."
                  f"{case['mode']}(); compare sum(fee) with 100 + len(binary_payload) + ceil(sum(gas_limit)/10)"}
    if out:
        d['observed'] = {'contents': out['final'], 'fee_total': out['fee'], 'gas_total': out['gas'], 'signed_bytes': out['signed_len'],
                         'node_minimum': out['need'], 'signature': out['sig_note'], 'forged': out['forged']}
    return d


def ctx_corpus(ctx):
    import glob
    import os
    out = []
    for p in sorted(glob.glob(os.path.join(lib.VERIF, 'corpus', PROP, '*.json'))):
        doc = json.load(open(p))
        out.append(case_from_doc(doc))
        ctx.corpus_cases += 1
    return out


def case_from_doc(doc):
    from pytezos.crypto.key import Key
    curve = {v: k for k, v in CURVES.items()}[doc['curve']]
    key = Key.from_secret_exponent(bytes.fromhex(doc['secret_exponent']), curve=curve)
    c = dict(curve=curve, key=key, n=len(doc['contents']), mode=doc['mode'],
             hard_gas=int(doc['node_constants']['hard_gas_limit_per_operation']),
             hard_storage=int(doc['node_constants']['hard_storage_limit_per_operation']),
             node_counter=doc['node_counter'], pending=doc['pending_in_mempool'], contents=doc['contents'],
             preset=any(x.get('gas_limit', '0') != '0' or x.get('storage_limit', '0') != '0' for x in doc['contents']))
    if doc.get('run_operation_metadata'):
        c['sims'] = doc['run_operation_metadata']
    if doc.get('call_arguments'):
        c['args'] = doc['call_arguments']
        c['oracle_only'] = True
    return c


TRANSFER = {'kind': 'transaction', 'source': '', 'fee': '0', 'counter': '0', 'gas_limit': '0', 'storage_limit': '0', 'amount': '1',
            'destination': 'tz1gjaF81ZRRvdzjobyfVNsAeSC6PScjfQwN'}
CALL_KT = {**TRANSFER, 'destination': 'KT1BEqzn5Wx8uJrZNvuS9DVHmLvG9td3fDLi'}
SIM = {'operation_result': {'status': 'applied', 'consumed_milligas': '100000'}}


def finding_witnesses(keys):
    """The witnesses of findings/C24.json as cases (same shapes as the _refuted theorems)."""
    def mk(curve, mode, contents, hard_gas=1_040_000, name=''):
        return dict(curve=curve, key=keys[curve][0], n=len(contents), mode=mode, hard_gas=hard_gas, hard_storage=60000, node_counter=0,
                    pending=0, contents=[dict(c) for c in contents], preset=False, sims=[SIM] * len(contents), witness=name, sign_bls=True)
    return [mk(b'ed', 'fill', [TRANSFER, TRANSFER], name='fill-batch'),
            mk(b'BL', 'fill', [TRANSFER], name='tz4-signature'),
            mk(b'BL', 'autofill', [TRANSFER], name='tz4-signature'),
            mk(b'ed', 'fill', [CALL_KT], hard_gas=2_000_000, name='fill-node-limit')]


def replay(ctx, doc):
    case = case_from_doc(doc)
    out, err = run_impl(case, ctx.rng)
    print(json.dumps({'error': err, 'observed': out and {k: out[k] for k in ('fee', 'gas', 'signed_len', 'need', 'covers')}}, indent=1))
    return out is None or not out['covers']
