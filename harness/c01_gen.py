"""Type-directed generator of well-typed Michelson programs for C01/C02, plus the glue that runs a program
through the real pytezos interpreter and renders everything as Coq literals of Michelson/Instr.v.

Representation (plain tuples):
  type   ('int',) ('nat',) ('string',) ('bool',) ('unit',) ('operation',) ('pair',a,b) ('option',a) ('or',a,b) ('list',a)
  data   ('int',z) ('str',s) ('bool',b) ('unit',) ('pair',x,y) ('none',) ('some',x) ('left',x) ('right',x) ('list',[..])
  instr  ('SEQ',[i..]) | (NAME, args...)   e.g. ('DIP', 2, seq) ('PUSH', ty, data) ('IF', seq, seq) ('ADD',)
"""
from __future__ import annotations

import random
from typing import Any

import lib
from lib import cZ, chex, clist, cnat

# --------------------------------------------------------------------------------------
# rendering
# --------------------------------------------------------------------------------------
BASE = ['int', 'nat', 'string', 'bool', 'unit']
T_INT, T_NAT, T_STRING, T_BOOL, T_UNIT = (('int',), ('nat',), ('string',), ('bool',), ('unit',))
T_BYTES = ('bytes',)
T_MUTEZ, T_TIMESTAMP, T_ADDRESS, T_CHAIN_ID = (('mutez',), ('timestamp',), ('address',), ('chain_id',))
T_OP = ('operation',)


def ty_mich(t) -> str:
    if len(t) == 1:
        return t[0]
    return '(' + t[0] + ' ' + ' '.join(ty_mich(x) for x in t[1:]) + ')'


_TYC = {'int': 'TInt', 'nat': 'TNat', 'string': 'TString', 'bytes': 'TBytes', 'mutez': 'TMutez', 'timestamp': 'TTimestamp',
        'address': 'TAddress', 'chain_id': 'TChainId', 'set': 'TSet', 'map': 'TMap', 'lambda': 'TLambda', 'bool': 'TBool', 'unit': 'TUnit', 'operation': 'TOperation',
        'pair': 'TPair', 'option': 'TOption', 'or': 'TOr', 'list': 'TList'}


def ty_coq(t) -> str:
    if len(t) == 1:
        return _TYC[t[0]]
    return '(' + _TYC[t[0]] + ' ' + ' '.join(ty_coq(x) for x in t[1:]) + ')'


def ty_of_expr(e) -> Any:
    """Micheline type expression (as_micheline_expr) -> type tuple, annotations dropped; None if outside the fragment."""
    if not isinstance(e, dict) or 'prim' not in e:
        return None
    p, args = e['prim'], e.get('args', [])
    if p in _TYC and len(args) == {'pair': 2, 'or': 2, 'option': 1, 'list': 1, 'set': 1, 'map': 2, 'lambda': 2}.get(p, 0):
        sub = [ty_of_expr(a) for a in args]
        if any(s is None for s in sub):
            return None
        return (p, *sub)
    if p == 'pair' and len(args) > 2:  # right comb sugar
        return ty_of_expr({'prim': 'pair', 'args': [args[0], {'prim': 'pair', 'args': args[1:]}]})
    return None


def mich_str(s: str) -> str:
    return '"' + s + '"'


def data_mich(d, paren: bool = True) -> str:
    k = d[0]
    if k in ('int', 'mutez'):
        return str(d[1])
    if k == 'str':
        return mich_str(d[1])
    if k == 'bytes':
        return '0x' + d[1].hex()
    if k == 'bool':
        return 'True' if d[1] else 'False'
    if k == 'unit':
        return 'Unit'
    if k == 'none':
        return 'None'
    if k in ('list', 'set'):
        return '{ ' + ' ; '.join(data_mich(x, False) for x in d[1]) + ' }'
    if k == 'map':
        return '{ ' + ' ; '.join(f'Elt {data_mich(a)} {data_mich(b)}' for a, b in d[1]) + ' }'
    if k == 'pair':
        r = f'Pair {data_mich(d[1])} {data_mich(d[2])}'
    elif k == 'some':
        r = f'Some {data_mich(d[1])}'
    elif k == 'left':
        r = f'Left {data_mich(d[1])}'
    elif k == 'right':
        r = f'Right {data_mich(d[1])}'
    else:
        raise ValueError(d)
    return f'({r})' if paren else r


def data_coq(d) -> str:
    k = d[0]
    if k == 'int':
        return f'(DInt {cZ(d[1])})'
    if k == 'mutez':
        return f'(DMutez {cZ(d[1])})'
    if k == 'str':
        return f'(DStr {chex(d[1].encode("ascii"))})'
    if k == 'bytes':
        return f'(DBytes {chex(d[1])})'
    if k == 'bool':
        return f'(DBool {"true" if d[1] else "false"})'
    if k == 'unit':
        return 'DUnit'
    if k == 'pair':
        return f'(DPair {data_coq(d[1])} {data_coq(d[2])})'
    if k == 'none':
        return 'DNone'
    if k == 'some':
        return f'(DSome {data_coq(d[1])})'
    if k == 'left':
        return f'(DLeft {data_coq(d[1])})'
    if k == 'right':
        return f'(DRight {data_coq(d[1])})'
    if k == 'list':
        return f'(DList {clist(data_coq(x) for x in d[1])})'
    if k == 'set':
        return f'(DSet {clist(data_coq(x) for x in d[1])})'
    if k == 'map':
        return f'(DMap {clist(f"(DPair {data_coq(a)} {data_coq(b)})" for a, b in d[1])})'
    raise ValueError(d)


NULLARY = ['SWAP', 'PAIR', 'UNPAIR', 'CAR', 'CDR', 'SOME', 'UNIT', 'CONS', 'SIZE', 'ADD', 'SUB', 'MUL', 'NEG', 'ABS', 'ISNAT',
           'INT', 'EDIV', 'COMPARE', 'EQ', 'NEQ', 'LT', 'GT', 'LE', 'GE', 'AND', 'OR', 'XOR', 'NOT', 'CONCAT', 'FAILWITH',
           'LSL', 'LSR', 'SLICE',
           'MEM', 'GET', 'UPDATE', 'GET_AND_UPDATE', 'EXEC', 'APPLY',
           'SUB_MUTEZ', 'AMOUNT', 'BALANCE', 'SENDER', 'SOURCE', 'SELF_ADDRESS', 'NOW', 'LEVEL', 'CHAIN_ID']


def code_mich(i, rng: random.Random | None = None) -> str:
    """Michelson text. With rng: the equivalent spellings DROP/DROP 1, DUP/DUP 1, DIP c/DIP 1 c are chosen at random."""
    k = i[0]
    if k == 'SEQ':
        return '{ ' + ' ; '.join(code_mich(x, rng) for x in i[1]) + ' }'
    if k in NULLARY:
        return k
    if k in ('DROP', 'DUP'):
        if i[1] == 1 and (rng is None or rng.random() < 0.6):
            return k
        return f'{k} {i[1]}'
    if k in ('DIG', 'DUG'):
        return f'{k} {i[1]}'
    if k in ('PAIRN', 'UNPAIRN', 'GETN', 'UPDATEN'):
        return f'{k[:-1]} {i[1]}'
    if k == 'PUSH':
        return f'PUSH {ty_mich(i[1])} {data_mich(i[2])}'
    if k == 'DIP':
        if i[1] == 1 and (rng is None or rng.random() < 0.6):
            return f'DIP {code_mich(i[2], rng)}'
        return f'DIP {i[1]} {code_mich(i[2], rng)}'
    if k in ('IF', 'IF_NONE', 'IF_LEFT', 'IF_CONS'):
        return f'{k} {code_mich(i[1], rng)} {code_mich(i[2], rng)}'
    if k in ('LOOP', 'LOOP_LEFT', 'ITER', 'MAP'):
        return f'{k} {code_mich(i[1], rng)}'
    if k in ('LEFT', 'RIGHT', 'NONE', 'NIL', 'EMPTY_SET'):
        return f'{k} {ty_mich(i[1])}'
    if k == 'EMPTY_MAP':
        return f'{k} {ty_mich(i[1])} {ty_mich(i[2])}'
    if k == 'LAMBDA':
        return f'LAMBDA {ty_mich(i[1])} {ty_mich(i[2])} {code_mich(i[3], rng)}'
    raise ValueError(i)


def code_coq(i) -> str:
    k = i[0]
    if k == 'SEQ':
        out = 'I_NOOP'
        for x in reversed(i[1]):
            out = f'(I_SEQ {code_coq(x)} {out})'
        return out
    if k in NULLARY:
        return 'I_' + k
    if k in ('DROP', 'DUP', 'DIG', 'DUG', 'PAIRN', 'UNPAIRN', 'GETN', 'UPDATEN'):
        return f'(I_{k} {cnat(i[1])})'
    if k == 'PUSH':
        return f'(I_PUSH {ty_coq(i[1])} {data_coq(i[2])})'
    if k == 'DIP':
        return f'(I_DIP {cnat(i[1])} {code_coq(i[2])})'
    if k in ('IF', 'IF_NONE', 'IF_LEFT', 'IF_CONS'):
        return f'(I_{k} {code_coq(i[1])} {code_coq(i[2])})'
    if k in ('LOOP', 'LOOP_LEFT', 'ITER', 'MAP'):
        return f'(I_{k} {code_coq(i[1])})'
    if k in ('LEFT', 'RIGHT', 'NONE', 'NIL', 'EMPTY_SET'):
        return f'(I_{k} {ty_coq(i[1])})'
    if k == 'EMPTY_MAP':
        return f'(I_{k} {ty_coq(i[1])} {ty_coq(i[2])})'
    if k == 'LAMBDA':
        return f'(I_LAMBDA {ty_coq(i[1])} {ty_coq(i[2])} {code_coq(i[3])})'
    raise ValueError(i)


def code_size(i) -> int:
    if i[0] == 'SEQ':
        return sum(code_size(x) for x in i[1])
    return 1 + sum(code_size(x) for x in i[1:] if isinstance(x, tuple) and x and x[0] == 'SEQ')


def code_prims(i, acc: set | None = None) -> set:
    acc = set() if acc is None else acc
    if i[0] == 'SEQ':
        for x in i[1]:
            code_prims(x, acc)
    else:
        acc.add(i[0])
        for x in i[1:]:
            if isinstance(x, tuple) and x and x[0] == 'SEQ':
                code_prims(x, acc)
    return acc


# --------------------------------------------------------------------------------------
# random types and values
# --------------------------------------------------------------------------------------
def mich_key(t, d):
    """a Python sort key realising the Michelson order on comparable values of type t (independent of pytezos)"""
    k = t[0]
    if k in ('int', 'nat', 'mutez', 'timestamp'):
        return d[1]
    if k == 'string':
        return d[1].encode('ascii')
    if k == 'bytes':
        return d[1]
    if k == 'bool':
        return 1 if d[1] else 0
    if k == 'unit':
        return 0
    if k == 'pair':
        return (mich_key(t[1], d[1]), mich_key(t[2], d[2]))
    if k == 'option':
        return (0,) if d[0] == 'none' else (1, mich_key(t[1], d[1]))
    if k == 'or':
        return (0, mich_key(t[1], d[1])) if d[0] == 'left' else (1, mich_key(t[2], d[1]))
    raise ValueError(t)


def comparable(t) -> bool:
    if t[0] in ('list', 'set', 'map', 'lambda', 'operation', 'address', 'chain_id'):   # address/chain_id: outside the fragment's COMPARE
        return False
    return all(comparable(x) for x in t[1:])


def gen_type(rng: random.Random, depth: int = 2, comparable_only: bool = False):
    if depth <= 0 or rng.random() < 0.45:
        return (rng.choice(['int', 'int', 'nat', 'nat', 'string', 'bytes', 'bool', 'unit', 'mutez', 'timestamp']),)
    k = rng.choice(['pair', 'pair', 'option', 'or', 'list', 'set', 'map'] if not comparable_only else ['pair', 'pair', 'option', 'or'])
    if k == 'set':
        return ('set', gen_type(rng, depth - 1, True))
    if k == 'map':
        return ('map', gen_type(rng, depth - 1, True), gen_type(rng, depth - 1, comparable_only))
    if k in ('pair', 'or'):
        return (k, gen_type(rng, depth - 1, comparable_only), gen_type(rng, depth - 1, comparable_only))
    return (k, gen_type(rng, depth - 1, comparable_only))


SMALL_STRS = ['', 'a', 'b', 'ab', 'aa', 'B', 'abc', 'abd', 'Z', 'a b', 'x~', '0', '~', ' ']


def gen_int(rng: random.Random, signed: bool) -> int:
    r = rng.random()
    if r < 0.55:
        v = rng.choice([0, 0, 1, 1, 2, 3, 4, 5, 7, 10])
    elif r < 0.8:
        v = rng.randrange(0, 300)
    else:
        v = abs(lib.boundary_ints(rng, signed=False, big=rng.random() < 0.3))
    if signed and rng.random() < 0.4:
        v = -v
    return v


MUTEZ_MAX = 2 ** 63 - 1


def gen_mutez(rng: random.Random) -> int:
    r = rng.random()
    if r < 0.5:
        return rng.choice([0, 0, 1, 2, 3, 5, 10, 1000000])
    if r < 0.8:
        return rng.choice([MUTEZ_MAX, MUTEZ_MAX - 1, MUTEZ_MAX // 2, MUTEZ_MAX // 2 + 1, 2 ** 62, 2 ** 32, 3037000500, 3037000499])
    return rng.randrange(0, MUTEZ_MAX + 1)


def has_literal(t) -> bool:
    if t[0] in ('address', 'chain_id', 'operation', 'lambda'):
        return False
    return all(has_literal(x) for x in t[1:])


def gen_data(rng: random.Random, t, depth: int = 3):
    k = t[0]
    if k == 'int':
        return ('int', gen_int(rng, True))
    if k == 'nat':
        return ('int', gen_int(rng, False))
    if k == 'mutez':
        return ('mutez', gen_mutez(rng))
    if k == 'timestamp':
        return ('int', gen_int(rng, True))
    if k == 'string':
        if rng.random() < 0.7:
            return ('str', rng.choice(SMALL_STRS))
        return ('str', ''.join(rng.choice('abAB z09~!') for _ in range(rng.randrange(0, 9))))
    if k == 'bytes':
        if rng.random() < 0.6:
            return ('bytes', rng.choice([b'', b'\x00', b'\x01', b'\x00\x00', b'\xff', b'ab', b'\x7f\x80', b'abc']))
        return ('bytes', bytes(rng.choice([0, 1, 127, 128, 255, 97]) for _ in range(rng.randrange(0, 7))))
    if k == 'bool':
        return ('bool', rng.random() < 0.5)
    if k == 'unit':
        return ('unit',)
    if k == 'pair':
        return ('pair', gen_data(rng, t[1], depth - 1), gen_data(rng, t[2], depth - 1))
    if k == 'option':
        return ('none',) if rng.random() < 0.35 else ('some', gen_data(rng, t[1], depth - 1))
    if k == 'or':
        return ('left', gen_data(rng, t[1], depth - 1)) if rng.random() < 0.5 else ('right', gen_data(rng, t[2], depth - 1))
    if k == 'list':
        n = rng.choice([0, 0, 1, 1, 2, 2, 3, 4]) if depth > 0 else 0
        if t[1][0] == 'operation':
            n = 0
        return ('list', [gen_data(rng, t[1], depth - 1) for _ in range(n)])
    if k in ('set', 'map'):
        n = rng.choice([0, 1, 2, 2, 3, 4])
        keys = {}
        for _ in range(n):
            x = gen_data(rng, t[1], depth - 1)
            if keys and rng.random() < 0.5:
                x = near_data(rng, t[1], rng.choice(list(keys.values())))
            keys[repr(mich_key(t[1], x))] = x
        ks = sorted(keys.values(), key=lambda x: mich_key(t[1], x))
        if k == 'set':
            return ('set', ks)
        return ('map', [(x, gen_data(rng, t[2], depth - 1)) for x in ks])
    raise ValueError(t)


def near_data(rng: random.Random, t, d):
    """A value of type t that shares a prefix of its structure with d (so that COMPARE has to look deep)."""
    k = t[0]
    r = rng.random()
    if r < 0.3:
        return d
    if k == 'pair':
        if rng.random() < 0.6:
            return ('pair', d[1], near_data(rng, t[2], d[2]))
        return ('pair', near_data(rng, t[1], d[1]), d[2])
    if k == 'option' and d[0] == 'some' and rng.random() < 0.7:
        return ('some', near_data(rng, t[1], d[1]))
    if k == 'or' and rng.random() < 0.7:
        if d[0] == 'left':
            return ('left', near_data(rng, t[1], d[1]))
        return ('right', near_data(rng, t[2], d[1]))
    if k in ('int', 'nat', 'timestamp') and rng.random() < 0.6:
        return ('int', max(0, d[1] + rng.choice([-1, 1])) if k == 'nat' else d[1] + rng.choice([-1, 1]))
    if k == 'mutez' and rng.random() < 0.6:
        return ('mutez', min(MUTEZ_MAX, max(0, d[1] + rng.choice([-1, 1]))))
    if k == 'string' and rng.random() < 0.6:
        return ('str', d[1] + rng.choice(['', 'a', ' ', '~'])) if rng.random() < 0.5 else ('str', d[1][:-1])
    if k == 'bytes' and rng.random() < 0.6:
        return ('bytes', d[1] + rng.choice([b'', b'\x00', b'\xff'])) if rng.random() < 0.5 else ('bytes', d[1][:-1])
    return gen_data(rng, t)


def comb_ty(ts):
    return ts[0] if len(ts) == 1 else ('pair', ts[0], comb_ty(ts[1:]))


def spine_len(t) -> int:
    return 1 + spine_len(t[2]) if t[0] == 'pair' else 1


def ty_get_n(k, t):
    if k == 0:
        return t
    if t[0] != 'pair':
        return None
    return t[1] if k == 1 else ty_get_n(k - 2, t[2])


def ty_update_n(k, x, t):
    if k == 0:
        return x
    if t[0] != 'pair':
        return None
    if k == 1:
        return ('pair', x, t[2])
    r = ty_update_n(k - 2, x, t[2])
    return None if r is None else ('pair', t[1], r)


def ty_uncomb(n, t):
    if n == 1:
        return [t]
    if t[0] != 'pair':
        return None
    r = ty_uncomb(n - 1, t[2])
    return None if r is None else [t[1]] + r


# overloads on mutez / timestamp: (top, second) -> [(instruction, result type)]
MIXED_ARITH = {
    ('mutez', 'mutez'): [('ADD', T_MUTEZ), ('SUB_MUTEZ', ('option', T_MUTEZ)), ('SUB_MUTEZ', ('option', T_MUTEZ)),
                         ('EDIV', ('option', ('pair', T_NAT, T_MUTEZ)))],
    ('mutez', 'nat'): [('MUL', T_MUTEZ), ('EDIV', ('option', ('pair', T_MUTEZ, T_MUTEZ)))],
    ('nat', 'mutez'): [('MUL', T_MUTEZ)],
    ('timestamp', 'int'): [('ADD', T_TIMESTAMP), ('SUB', T_TIMESTAMP)],
    ('int', 'timestamp'): [('ADD', T_TIMESTAMP)],
    ('timestamp', 'timestamp'): [('SUB', T_INT)],
}


# --------------------------------------------------------------------------------------
# program generator
# --------------------------------------------------------------------------------------
FAIL = 'FAIL'


class Gen:
    """stack types are Python lists, top first. `strict`: never build a MAP whose body changes the element type."""

    def __init__(self, rng: random.Random, max_size: int, strict: bool = True, safe: bool = False):
        self.safe = safe      # never fail at run time: no FAILWITH, no shift above 256, no mutez ADD/MUL
        self.rng = rng
        self.budget = max_size
        self.strict = strict
        self.retyping_map_on_empty = False   # a retyping MAP is applied to a list known to be empty (known finding class)
        self.retyping_map = False

    # -- helpers
    def convert(self, src: list, dst: list) -> list:
        """instructions turning a stack of type src into one of type dst: keep the longest common suffix,
        drop the rest, push literals."""
        n = 0
        while n < len(src) and n < len(dst) and src[len(src) - 1 - n] == dst[len(dst) - 1 - n]:
            n += 1
        out = []
        ndrop = len(src) - n
        if ndrop == 1:
            out.append(('DROP', 1))
        elif ndrop > 1:
            if self.rng.random() < 0.5:
                out.append(('DROP', ndrop))
            else:
                out.extend([('DROP', 1)] * ndrop)
        for t in reversed(dst[:len(dst) - n]):
            out.append(self.push(t))
        self.budget -= len(out)
        return out

    def push(self, t):
        """one instruction (possibly a sequence) that puts a value of type t on the stack"""
        if has_literal(t):
            return ('PUSH', t, gen_data(self.rng, t))
        return ('SEQ', self.produce(t))

    def produce(self, t):
        rng = self.rng
        k = t[0]
        if has_literal(t):
            return [('PUSH', t, gen_data(rng, t))]
        if k == 'address':
            return [(rng.choice(['SENDER', 'SOURCE', 'SELF_ADDRESS']),)]
        if k == 'chain_id':
            return [('CHAIN_ID',)]
        if k == 'lambda':
            body, _ = self.body_to([t[1]], [t[2]], rng.randrange(0, 4))
            return [('LAMBDA', t[1], t[2], body)]
        if k == 'pair':
            return self.produce(t[2]) + self.produce(t[1]) + [('PAIR',)]
        if k == 'option':
            return [('NONE', t[1])] if rng.random() < 0.3 else self.produce(t[1]) + [('SOME',)]
        if k == 'or':
            if rng.random() < 0.5:
                return self.produce(t[1]) + [('LEFT', t[2])]
            return self.produce(t[2]) + [('RIGHT', t[1])]
        if k == 'list':
            out = [('NIL', t[1])]
            if t[1][0] != 'operation':
                for _ in range(rng.choice([0, 1, 2])):
                    out += self.produce(t[1]) + [('CONS',)]
            return out
        raise ValueError(t)

    def body_to(self, start: list, target: list, size: int, allow_fail: bool = True):
        """a sequence from `start` to exactly `target` (or failing)."""
        code, res = self.seq(start, size)
        if res == FAIL:
            if allow_fail:
                return ('SEQ', code), FAIL
            # make it non-failing: drop the trailing FAILWITH
            code = code[:-1]
            res = self._last_stack
        code = code + self.convert(res, target)
        return ('SEQ', code), target

    def seq(self, stack: list, size: int):
        """free generation: returns (instr list, resulting stack or FAIL)."""
        code = []
        stack = list(stack)
        n = 0
        while n < size and self.budget > 0:
            step = self.step(stack)
            if step is None:
                break
            ins, new = step
            code.extend(ins)
            n += len(ins)
            if new == FAIL:
                self._last_stack = stack
                return code, FAIL
            stack = new
        return code, stack

    # -- one step: returns ([instr...], new stack | FAIL)
    def step(self, s: list):
        rng = self.rng
        cands = []  # (weight, thunk)
        top = s[0] if s else None
        snd = s[1] if len(s) > 1 else None

        def add(w, f):
            cands.append((w, f))

        add(3 if len(s) < 4 else 1, lambda: self._push_any(s))
        add(0.8, lambda: self._env(s))
        add(0.4, lambda: ([('UNIT',)], [T_UNIT] + s))
        add(0.5, lambda: self._nil(s))
        add(0.4, lambda: self._none(s))
        add(0.5, lambda: self._empty_coll(s))
        add(0.5, lambda: self._lambda(s))
        if s:
            add(1.0 if len(s) > 3 else 0.4, lambda: ([('DROP', 1)], s[1:]))
            add(1.5, lambda: self._dup(s))
            add(0.6, lambda: ([('SOME',)], [('option', top)] + s[1:]))
            add(0.5, lambda: self._left(s))
            add(0.5, lambda: self._right(s))
            add(1.5, lambda: self._dip(s))
            add(1.0, lambda: self._dig(s))
            add(1.0, lambda: self._dug(s))
            if not self.safe:
                add(0.15, lambda: ([('FAILWITH',)], FAIL))
            add(0.7, lambda: self._loop(s))
            if comparable(top):
                add(1.2, lambda: self._push_compare(s))
        if len(s) >= 2:
            add(1.0, lambda: ([('SWAP',)], [snd, top] + s[2:]))
            add(1.0, lambda: ([('PAIR',)], [('pair', top, snd)] + s[2:]))
            add(1.0, lambda: self._pairn(s))
            if snd[0] == 'pair':
                add(2.5, lambda: self._updaten(s))
            add(0.4, lambda: self._dropn(s))
            if top == snd and comparable(top):
                add(2.5, lambda: self._compare(s))
            if snd[0] == 'list' and snd[1] == top:
                add(3.0, lambda: ([('CONS',)], s[1:]))
            if snd[0] == 'lambda' and snd[1] == top:
                add(8.0, lambda: ([('EXEC',)], [snd[2]] + s[2:]))
            if snd[0] == 'lambda' and snd[1][0] == 'pair' and snd[1][1] == top and has_literal(top):
                add(8.0, lambda: ([('APPLY',)], [('lambda', snd[1][2], snd[2])] + s[2:]))
            if snd[0] in ('set', 'map') and snd[1] == top:
                add(4.0, lambda: ([('MEM',)], [T_BOOL] + s[2:]))
                if snd[0] == 'map':
                    add(4.0, lambda: ([('GET',)], [('option', snd[2])] + s[2:]))
            if len(s) >= 3 and s[2][0] == 'set' and s[2][1] == top and snd == T_BOOL:
                add(8.0, lambda: ([('UPDATE',)], s[2:]))
            if len(s) >= 3 and s[2][0] == 'map' and s[2][1] == top and snd == ('option', s[2][2]):
                add(8.0, lambda: ([(self.rng.choice(['UPDATE', 'UPDATE', 'GET_AND_UPDATE']),)], None))
            if snd[0] in ('set', 'map') and comparable(snd[1]):
                add(2.5, lambda: self._coll_op(s))
            if top[0] in ('int', 'nat') and snd[0] in ('int', 'nat'):
                add(4.0, lambda: self._arith(s))
            if (top[0], snd[0]) in MIXED_ARITH:
                add(4.0, lambda: self._arith_mixed(s))
            if top == T_BOOL and snd == T_BOOL:
                add(3.0, lambda: ([(rng.choice(['AND', 'OR', 'XOR']),)], s[1:]))
            if top in (T_STRING, T_BYTES) and snd == top:
                add(3.0, lambda: ([('CONCAT',)], s[1:]))
            if top == T_NAT and snd == T_NAT:
                add(2.0, lambda: ([(rng.choice(['AND', 'OR', 'XOR']),)], s[1:]))
                add(1.5, lambda: self._shift(s))
                if len(s) >= 3 and s[2] in (T_STRING, T_BYTES):
                    add(5.0, lambda: ([('SLICE',)], [('option', s[2])] + s[3:]))
            if top == T_INT and snd == T_NAT:
                add(2.0, lambda: ([('AND',)], s[1:]))
            if top in (T_STRING, T_BYTES):
                add(1.5, lambda: self._slice(s))
        if top is not None:
            k = top[0]
            if k == 'pair':
                add(2.0, lambda: ([('UNPAIR',)], [top[1], top[2]] + s[1:]))
                add(1.5, lambda: self._unpairn(s))
                add(2.5, lambda: self._getn(s))
                add(1.0, lambda: ([('CAR',)], [top[1]] + s[1:]))
                add(1.0, lambda: ([('CDR',)], [top[2]] + s[1:]))
            if k == 'option':
                add(3.0, lambda: self._if(s, 'IF_NONE', s[1:], [top[1]] + s[1:]))
            if k == 'or':
                add(3.0, lambda: self._if(s, 'IF_LEFT', [top[1]] + s[1:], [top[2]] + s[1:]))
                add(1.0, lambda: self._loop_left(s))
            if k == 'list':
                add(2.0, lambda: self._if(s, 'IF_CONS', [top[1], top] + s[1:], s[1:]))
                add(2.5, lambda: self._iter(s))
                if top[1][0] != 'operation':
                    add(2.5, lambda: self._map(s))
                add(1.0, lambda: ([('SIZE',)], [T_NAT] + s[1:]))
                if top[1] in (T_STRING, T_BYTES):
                    add(2.5, lambda: ([('CONCAT',)], [top[1]] + s[1:]))
            if k in ('string', 'bytes'):
                add(1.0, lambda: ([('SIZE',)], [T_NAT] + s[1:]))
            if k == 'bool':
                add(3.0, lambda: self._if(s, 'IF', s[1:], s[1:]))
                add(1.0, lambda: ([('NOT',)], s))
            if k == 'int':
                add(1.5, lambda: ([(rng.choice(['EQ', 'NEQ', 'LT', 'GT', 'LE', 'GE']),)], [T_BOOL] + s[1:]))
                add(0.8, lambda: ([('ABS',)], [T_NAT] + s[1:]))
                add(0.8, lambda: ([('ISNAT',)], [('option', T_NAT)] + s[1:]))
                add(0.6, lambda: ([('NEG',)], s))
                add(0.6, lambda: ([('NOT',)], s))
            if k == 'nat':
                add(0.6, lambda: ([('NOT',)], [T_INT] + s[1:]))
                add(0.8, lambda: ([('INT',)], [T_INT] + s[1:]))
                add(0.6, lambda: ([('NEG',)], [T_INT] + s[1:]))
        total = sum(w for w, _ in cands)
        for _ in range(6):
            x = rng.random() * total
            for w, f in cands:
                x -= w
                if x <= 0:
                    break
            res = f()
            if res is None:
                continue
            ins, new = res
            if new is None:   # UPDATE / GET_AND_UPDATE on a map
                new = s[2:] if ins[0][0] == 'UPDATE' else [s[1]] + s[2:]
            self.budget -= sum(code_size(i) for i in ins)
            return ins, new
        return None

    def _push_any(self, s):
        t = gen_type(self.rng)
        return [('PUSH', t, gen_data(self.rng, t))], [t] + s

    def _env(self, s):
        op, t = self.rng.choice([('AMOUNT', T_MUTEZ), ('BALANCE', T_MUTEZ), ('SENDER', T_ADDRESS), ('SOURCE', T_ADDRESS),
                                 ('SELF_ADDRESS', T_ADDRESS), ('NOW', T_TIMESTAMP), ('LEVEL', T_NAT), ('CHAIN_ID', T_CHAIN_ID)])
        return [(op,)], [t] + s

    def _arith_mixed(self, s):
        ops = MIXED_ARITH[(s[0][0], s[1][0])]
        if self.safe:
            ops = [o for o in ops if not (o[1] == T_MUTEZ and o[0] in ('ADD', 'MUL'))]
            if not ops:
                return None
        op, t = self.rng.choice(ops)
        return [(op,)], [t] + s[2:]

    def _shift(self, s):
        # LSL/LSR fail (run-time error, not FAILWITH) when the shift exceeds 256: mostly push a small shift first
        op = self.rng.choice(['LSL', 'LSR'])
        if self.safe or self.rng.random() < 0.7:
            k = self.rng.choice([0, 1, 2, 7, 8, 63, 64, 255, 256] + ([] if self.safe else [257]))
            return [('DROP', 1), ('PUSH', T_NAT, ('int', k)), ('SWAP',), (op,)], s[1:]
        return [(op,)], s[1:]

    def _slice(self, s):
        o = self.rng.choice([0, 0, 1, 2, 3])
        ln = self.rng.choice([0, 1, 1, 2, 3])
        return [('PUSH', T_NAT, ('int', ln)), ('PUSH', T_NAT, ('int', o)), ('SLICE',)], [('option', s[0])] + s[1:]

    def _pairn(self, s):
        n = self.rng.randrange(2, len(s) + 1)
        return [('PAIRN', n)], [comb_ty(s[:n])] + s[n:]

    def _unpairn(self, s):
        n = self.rng.randrange(2, spine_len(s[0]) + 1)
        return [('UNPAIRN', n)], ty_uncomb(n, s[0]) + s[1:]

    def _getn(self, s):
        k = self.rng.randrange(0, 2 * spine_len(s[0]) - 1)
        return [('GETN', k)], [ty_get_n(k, s[0])] + s[1:]

    def _updaten(self, s):
        k = self.rng.randrange(0, 2 * spine_len(s[1]) - 1)
        return [('UPDATEN', k)], [ty_update_n(k, s[0], s[1])] + s[2:]

    def _lambda(self, s):
        """LAMBDA, often applied right away to the top of the stack (EXEC) or partially applied first (APPLY)"""
        rng = self.rng
        r = rng.random()
        if s and r < 0.45:
            a = s[0]
            code, res = self.seq([a], rng.randrange(0, 4))
            if res == FAIL:
                b = gen_type(rng, 1)
            else:
                b = res[0] if res else gen_type(rng, 1)
                code = code + self.convert(res, [b])
            return [('LAMBDA', a, b, ('SEQ', code)), ('SWAP',), ('EXEC',)], [b] + s[1:]
        if len(s) >= 2 and r < 0.75 and has_literal(s[0]):
            ta, tb = s[0], s[1]
            code, res = self.seq([('pair', ta, tb)], rng.randrange(0, 4))
            if res == FAIL:
                c = gen_type(rng, 1)
            else:
                c = res[0] if res else gen_type(rng, 1)
                code = code + self.convert(res, [c])
            lam = ('LAMBDA', ('pair', ta, tb), c, ('SEQ', code))
            if rng.random() < 0.6:
                return [lam, ('SWAP',), ('APPLY',), ('SWAP',), ('EXEC',)], [c] + s[2:]
            return [lam, ('SWAP',), ('APPLY',)], [('lambda', tb, c)] + s[1:]
        a, b = gen_type(rng, 1), gen_type(rng, 1)
        body, _ = self.body_to([a], [b], rng.randrange(0, 4))
        return [('LAMBDA', a, b, body)], [('lambda', a, b)] + s

    def _empty_coll(self, s):
        k = gen_type(self.rng, 1, True)
        if self.rng.random() < 0.5:
            return [('EMPTY_SET', k)], [('set', k)] + s
        v = gen_type(self.rng, 1)
        return [('EMPTY_MAP', k, v)], [('map', k, v)] + s

    def _coll_push_op(self, s):
        """collection on top: push a key (and a value) and query/update it"""
        c = s[0]
        kt = c[1]
        key = [('PUSH', kt, gen_data(self.rng, kt))]
        r = self.rng.random()
        if c[0] == 'set':
            if r < 0.4:
                return key + [('MEM',)], [T_BOOL] + s[1:]
            return [('PUSH', T_BOOL, ('bool', self.rng.random() < 0.6))] + key + [('UPDATE',)], s
        vt = c[2]
        if r < 0.2:
            return key + [('MEM',)], [T_BOOL] + s[1:]
        if r < 0.45:
            return key + [('GET',)], [('option', vt)] + s[1:]
        val = [self.push(('option', vt))]
        if r < 0.8:
            return val + key + [('UPDATE',)], s
        return val + key + [('GET_AND_UPDATE',)], [('option', vt)] + s

    def _coll_op(self, s):
        """key-typed value on top of a collection of that key type? otherwise fall back"""
        if s[1][1] != s[0]:
            return None
        return [('MEM',)], [T_BOOL] + s[2:]

    def _map_map(self, s):
        mt, rest = s[0], s[1:]
        k, v = mt[1], mt[2]
        code, res = self.seq([('pair', k, v)] + rest, self.rng.randrange(0, 4))
        if res == FAIL:
            code = code[:-1]
            res = self._last_stack
        # keep the value type (a type-changing body over an empty map is the known finding)
        code = code + self.convert(res, [v] + rest)
        return [('MAP', ('SEQ', code))], s

    def _nil(self, s):
        t = gen_type(self.rng, 1)
        return [('NIL', t)], [('list', t)] + s

    def _none(self, s):
        t = gen_type(self.rng, 1)
        return [('NONE', t)], [('option', t)] + s

    def _left(self, s):
        t = gen_type(self.rng, 1)
        return [('LEFT', t)], [('or', s[0], t)] + s[1:]

    def _right(self, s):
        t = gen_type(self.rng, 1)
        return [('RIGHT', t)], [('or', t, s[0])] + s[1:]

    def _dup(self, s):
        n = 1 if self.rng.random() < 0.5 else self.rng.randrange(1, len(s) + 1)
        return [('DUP', n)], [s[n - 1]] + s

    def _dig(self, s):
        n = self.rng.choice([0, len(s) - 1, self.rng.randrange(0, len(s))])
        return [('DIG', n)], [s[n]] + s[:n] + s[n + 1:]

    def _dug(self, s):
        n = self.rng.choice([0, len(s) - 1, self.rng.randrange(0, len(s))])
        r = s[1:]
        return [('DUG', n)], r[:n] + [s[0]] + r[n:]

    def _dropn(self, s):
        n = self.rng.choice([0, 2, len(s), self.rng.randrange(0, len(s) + 1)])
        return [('DROP', n)], s[n:]

    def _dip(self, s):
        n = self.rng.choice([0, 1, 1, 1, len(s), self.rng.randrange(0, len(s) + 1)])
        code, res = self.seq(s[n:], self.rng.randrange(1, 4))
        if res == FAIL:
            code = code[:-1]
            res = self._last_stack
        return [('DIP', n, ('SEQ', code))], s[:n] + res

    def _push_compare(self, s):
        t = s[0]
        ins = []
        if self.rng.random() < 0.5:
            ins.append(('PUSH', t, gen_data(self.rng, t)))
        else:
            ins.append(('DUP', 1))
        ins.append(('COMPARE',))
        out = [T_INT] + s[1:]
        if self.rng.random() < 0.5:
            ins.append((self.rng.choice(['EQ', 'NEQ', 'LT', 'GT', 'LE', 'GE']),))
            out = [T_BOOL] + s[1:]
        return ins, out

    def _compare(self, s):
        ins = [('COMPARE',)]
        out = [T_INT] + s[2:]
        if self.rng.random() < 0.5:
            ins.append((self.rng.choice(['EQ', 'NEQ', 'LT', 'GT', 'LE', 'GE']),))
            out = [T_BOOL] + s[2:]
        return ins, out

    def _arith(self, s):
        a, b = s[0][0], s[1][0]
        op = self.rng.choice(['ADD', 'SUB', 'MUL', 'EDIV', 'EDIV', 'ADD'])
        both_nat = a == 'nat' and b == 'nat'
        if op in ('ADD', 'MUL'):
            t = T_NAT if both_nat else T_INT
        elif op == 'SUB':
            t = T_INT
        else:
            t = ('option', ('pair', T_NAT if both_nat else T_INT, T_NAT))
        return [(op,)], [t] + s[2:]

    def _join(self, a, ra, b, rb):
        """make two branch bodies agree on their result type."""
        if ra == FAIL and rb == FAIL:
            return a, b, FAIL
        if ra == FAIL:
            return a, b, rb
        if rb == FAIL:
            return a, b, ra
        if self.rng.random() < 0.5:
            return a, b + self.convert(rb, ra), ra
        return a + self.convert(ra, rb), b, rb

    def _if(self, s, prim, sa, sb):
        a, ra = self.seq(sa, self.rng.randrange(0, 4))
        b, rb = self.seq(sb, self.rng.randrange(0, 4))
        a, b, res = self._join(a, ra, b, rb)
        return [(prim, ('SEQ', a), ('SEQ', b))], res

    def _iter(self, s):
        lt, rest = s[0], s[1:]
        a = lt[1] if lt[0] != 'map' else ('pair', lt[1], lt[2])
        # purposeful bodies when the types fit
        opts = []
        if rest and rest[0] in (T_INT, T_NAT) and a in (T_INT, T_NAT) and (rest[0] == T_INT or a == T_NAT):
            opts.append([('ADD',)])
            if rest[0] == T_INT:
                opts.append([('SWAP',), ('SUB',)])
        if rest and rest[0] == ('list', a):
            opts.append([('CONS',)])
        if rest and rest[0] in (T_STRING, T_BYTES) and a == rest[0]:
            opts.append([('SWAP',), ('CONCAT',)])
            opts.append([('CONCAT',)])
        if opts and self.rng.random() < 0.6:
            body = self.rng.choice(opts)
            self.budget -= len(body)
            return [('ITER', ('SEQ', body))], rest
        body, res = self.body_to([a] + rest, rest, self.rng.randrange(0, 4))
        return [('ITER', body)], rest

    def _map(self, s):
        lt, rest = s[0], s[1:]
        a = lt[1]
        code, res = self.seq([a] + rest, self.rng.randrange(0, 4))
        if res == FAIL:
            code = code[:-1]
            res = self._last_stack
        if not res:
            code = code + [self.push(a)]
            self.budget -= 1
            res = [a]
        b = res[0]
        if b[0] == 'operation' or (b != a and self.strict):
            # keep the element type: convert the whole result stack
            code = code + self.convert(res, [a] + rest)
            return [('MAP', ('SEQ', code))], [('list', a)] + rest
        if res[1:] != rest:
            conv = self.convert(res[1:], rest)
            code = code + [('DIP', 1, ('SEQ', conv))]
            self.budget -= 1
        m = ('MAP', ('SEQ', code))
        if b == a:
            return [m], [('list', a)] + rest
        # retyping MAP (non-strict mode only): guarded so that it only ever runs on a non-empty list
        self.retyping_map = True
        self.budget -= 3
        return [('IF_CONS', ('SEQ', [('CONS',), m]), ('SEQ', [('NIL', b)]))], [('list', b)] + rest

    def _counter_tail(self):
        """... nat(counter) : S  ->  bool : nat : S   counting down"""
        return [('PUSH', T_NAT, ('int', 1)), ('SWAP',), ('SUB',), ('ISNAT',),
                ('IF_NONE', ('SEQ', [('PUSH', T_NAT, ('int', 0)), ('PUSH', T_BOOL, ('bool', False))]),
                 ('SEQ', [('PUSH', T_BOOL, ('bool', True))]))]

    def _loop(self, s):
        r = self.rng.random()
        if r < 0.25:
            # body runs once (or fails)
            body, res = self.body_to(s, s, self.rng.randrange(0, 3))
            if res == FAIL:
                code = ('SEQ', body[1])
            else:
                code = ('SEQ', body[1] + [('PUSH', T_BOOL, ('bool', False))])
            self.budget -= 2
            return [('PUSH', T_BOOL, ('bool', self.rng.random() < 0.8)), ('LOOP', code)], s
        # counted loop: PUSH nat k; PUSH bool True; LOOP { DIP { body }; counter-- }
        k = self.rng.choice([0, 1, 2, 3])
        body, res = self.body_to(s, s, self.rng.randrange(0, 3), allow_fail=(not self.safe) and self.rng.random() < 0.2)
        if res == FAIL:
            # the body fails on its first run: it cannot sit under DIP (a DIP body may not fail) nor be followed by code
            inner = [('DROP', 1)] + body[1]
        else:
            inner = [('DIP', 1, body)] + self._counter_tail()
        self.budget -= 8
        return [('PUSH', T_NAT, ('int', k)), ('PUSH', T_BOOL, ('bool', True)), ('LOOP', ('SEQ', inner)), ('DROP', 1)], s

    def _loop_left(self, s):
        ot, rest = s[0], s[1:]
        a, b = ot[1], ot[2]
        # body: a : rest -> or a b : rest ; terminate by returning Right after at most one extra round
        body, res = self.body_to([a] + rest, rest, self.rng.randrange(0, 3))
        if res == FAIL:
            return [('LOOP_LEFT', body)], [b] + rest
        tail = self.produce(b) + [('RIGHT', a)]
        self.budget -= 2
        return [('LOOP_LEFT', ('SEQ', body[1] + tail))], [b] + rest


ADDRESSES = ['tz1grSQDByRpnVs7sPtaprNZRp531ZKz6Jmm', 'tz1burnburnburnburnburnburnburjAYjjX', 'KT1BEqzn5Wx8uJrZNvuS9DVHmLvG9td3fDLi',
             'tz2FCNBrERXtaTtNX6iimR1UJ5JSDxvdHM93', 'tz3WXYtyDUNL91qfiCJtVUX746QpNv5i5ve5', 'KT1VG2WtYdSWz5E7chTeAdDPZNy2MpP8pTfL']
CHAIN_IDS = ['NetXdQprcVkpaWU', 'NetXynUjJNZm7wi', 'NetXSgo1ZT2DRUG']
DEFAULT_ENV = {'amount': 0, 'balance': 0, 'sender': ADDRESSES[0], 'source': ADDRESSES[0], 'self': ADDRESSES[2], 'now': 0, 'level': 1,
               'chain_id': CHAIN_IDS[0]}


def gen_env(rng: random.Random) -> dict:
    return {'amount': gen_mutez(rng), 'balance': gen_mutez(rng), 'sender': rng.choice(ADDRESSES), 'source': rng.choice(ADDRESSES),
            'self': rng.choice(ADDRESSES), 'now': gen_int(rng, True) if rng.random() < 0.5 else rng.randrange(0, 2 ** 33),
            'level': gen_int(rng, False), 'chain_id': rng.choice(CHAIN_IDS)}


def env_coq(e: dict) -> str:
    return (f"(mkenv {cZ(e['amount'])} {cZ(e['balance'])} {chex(e['sender'].encode())} {chex(e['source'].encode())} "
            f"{chex(e['self'].encode())} {cZ(e['now'])} {cZ(e['level'])} {chex(e['chain_id'].encode())})")


def set_env(ctx, e: dict) -> None:
    ctx.amount, ctx.balance, ctx.sender, ctx.source = e['amount'], e['balance'], e['sender'], e['source']
    ctx.address, ctx.now, ctx.level, ctx.chain_id = e['self'], e['now'], e['level'], e['chain_id']


def gen_case(rng: random.Random, max_size: int, strict: bool = True):
    """-> dict(inputs=[(ty, data)...] top first, code=instr, result=static stack | FAIL, gen flags)"""
    n_in = rng.choice([0, 1, 1, 2, 2, 3, 4])
    inputs = []
    for _ in range(n_in):
        t = gen_type(rng, rng.choice([0, 1, 2, 2, 3]))
        inputs.append((t, gen_data(rng, t)))
    # a second value "near" the first one, to make COMPARE interesting
    if inputs and comparable(inputs[0][0]) and rng.random() < 0.35:
        t, d = inputs[0]
        inputs.insert(0, (t, near_data(rng, t, d)))
    g = Gen(rng, max_size, strict)
    code, res = g.seq([t for t, _ in inputs], max_size)
    return {'inputs': inputs, 'code': ('SEQ', code), 'result': res, 'retyping_map': g.retyping_map, 'env': gen_env(rng)}


def known_finding_cases(rng: random.Random, n: int):
    """programs in the class of finding C02/empty-map-retype: a MAP whose body changes the element type is applied
    to a list that is empty. The continuation inspects the class of the resulting list in different ways."""
    out = []
    conts = [
        [],                                                            # C02 only: the slot has the wrong type
        [('PUSH', None, None), ('CONS',)],                              # prepend checks the element class
        [('DROP', 1)],                                                  # harmless
        [('SIZE',)],
    ]
    for _ in range(n):
        a = gen_type(rng, 1)
        while True:
            b = gen_type(rng, 1)
            if b != a:
                break
        body = [('DROP', 1), ('PUSH', b, gen_data(rng, b))]
        cont = [list(x) for x in rng.choice(conts)]
        cont = [('PUSH', b, gen_data(rng, b)) if c[0] == 'PUSH' else tuple(c) for c in cont]
        if rng.random() < 0.3:
            kt = gen_type(rng, 1, True)
            inputs = [(('map', kt, a), ('map', []))] if rng.random() < 0.5 else []
            code = ([] if inputs else [('EMPTY_MAP', kt, a)]) + [('MAP', ('SEQ', body))] + rng.choice([[], [('SIZE',)], [('DROP', 1)]])
        elif rng.random() < 0.5:
            inputs = [(('list', a), ('list', []))]
            code = [('MAP', ('SEQ', body))] + cont
        else:
            inputs = []
            code = [('NIL', a), ('MAP', ('SEQ', body))] + cont
        out.append({'inputs': inputs, 'code': ('SEQ', code), 'result': None, 'retyping_map': True, 'known': 'empty-map-retype'})
    return out


# --------------------------------------------------------------------------------------
# running the implementation
# --------------------------------------------------------------------------------------
class Unrenderable(Exception):
    pass


def obj_ty(cls) -> Any:
    t = ty_of_expr(cls.as_micheline_expr())
    if t is None:
        raise Unrenderable(f'type outside the fragment: {cls.as_micheline_expr()}')
    return t


def obj_pval(v) -> str:
    """pytezos value object -> Coq [pval] literal, following the object structure and the classes it carries."""
    from pytezos.michelson.types.base import MichelsonType

    if not isinstance(v, MichelsonType):
        raise Unrenderable(f'not a Michelson value: {v!r}')
    p = v.prim
    if p == 'int':
        return f'(PInt {cZ(int(v.value))})'
    if p == 'nat':
        return f'(PNat {cZ(int(v.value))})'
    if p == 'mutez':
        return f'(PMutez {cZ(int(v.value))})'
    if p == 'timestamp':
        return f'(PTimestamp {cZ(int(v.value))})'
    if p in ('address', 'chain_id'):
        try:
            return f'({"PAddress" if p == "address" else "PChainId"} {chex(v.value.encode("ascii"))})'
        except Exception as e:  # noqa: BLE001
            raise Unrenderable(f'non-ASCII {p} {v.value!r}') from e
    if p == 'string':
        try:
            return f'(PStr {chex(v.value.encode("ascii"))})'
        except Exception as e:  # noqa: BLE001
            raise Unrenderable(f'non-ASCII string {v.value!r}') from e
    if p == 'bytes':
        if not isinstance(v.value, (bytes, bytearray)):
            raise Unrenderable(f'bytes holding {v.value!r}')
        return f'(PBytes {chex(bytes(v.value))})'
    if p == 'bool':
        if not isinstance(v.value, bool):
            raise Unrenderable(f'bool holding {v.value!r}')
        return f'(PBool {"true" if v.value else "false"})'
    if p == 'unit':
        return 'PUnit'
    if p == 'pair':
        if len(v.items) != 2:
            raise Unrenderable(f'pair with {len(v.items)} items')
        return f'(PPair {obj_pval(v.items[0])} {obj_pval(v.items[1])})'
    if p == 'option':
        if v.item is None:
            return f'(PNone {ty_coq(obj_ty(type(v).args[0]))})'
        return f'(PSome {obj_pval(v.item)})'
    if p == 'or':
        l, r = v.items
        if isinstance(l, MichelsonType) and not isinstance(r, MichelsonType):
            return f'(PLeft {obj_pval(l)} {ty_coq(obj_ty(type(v).args[1]))})'
        if isinstance(r, MichelsonType) and not isinstance(l, MichelsonType):
            return f'(PRight {ty_coq(obj_ty(type(v).args[0]))} {obj_pval(r)})'
        raise Unrenderable(f'malformed or value {v.items!r}')
    if p == 'lambda':
        try:
            body = seq_of(v.value.as_micheline_expr())
        except Outside as e:
            raise Unrenderable(f'lambda body outside the fragment: {e}') from e
        return f'(PLam {ty_coq(obj_ty(type(v).args[0]))} {ty_coq(obj_ty(type(v).args[1]))} {code_coq(body)})'
    if p == 'list':
        return f'(PList {ty_coq(obj_ty(type(v).args[0]))} {clist(obj_pval(x) for x in v.items)})'
    if p == 'set':
        return f'(PSet {ty_coq(obj_ty(type(v).args[0]))} {clist(obj_pval(x) for x in v.items)})'
    if p == 'map':
        ents = []
        for ent in v.items:
            if not (isinstance(ent, tuple) and len(ent) == 2):
                raise Unrenderable(f'map entry {ent!r}')
            ents.append(f'(PPair {obj_pval(ent[0])} {obj_pval(ent[1])})')
        return f'(PMap {ty_coq(obj_ty(type(v).args[0]))} {ty_coq(obj_ty(type(v).args[1]))} {clist(ents)})'
    raise Unrenderable(f'value outside the fragment: {p}')


_HOOKED = {}


def _hook_failwith():
    """record the operand FAILWITH is about to pop (the exception only carries its repr)."""
    from pytezos.michelson.instructions.control import FailwithInstruction

    if _HOOKED.get('cls') is FailwithInstruction and FailwithInstruction.__dict__.get('_verif_hook'):
        return _HOOKED['box']
    box: list = []
    orig = FailwithInstruction.__dict__['execute']
    func = orig.__func__ if isinstance(orig, classmethod) else orig

    def execute(cls, stack, stdout, context):
        try:
            box.append(stack.items[stack.protected])
        except Exception:  # noqa: BLE001
            box.append(None)
        return func(cls, stack, stdout, context)

    FailwithInstruction.execute = classmethod(execute)
    FailwithInstruction._verif_hook = True
    _HOOKED['cls'] = FailwithInstruction
    _HOOKED['box'] = box
    return box


def run_impl(case) -> dict:
    """Run the case through pytezos.michelson.repl.Interpreter. Observation:
       kind: 'done' | 'failwith' | 'error' | 'unrenderable';  stack: [(pval literal, type tuple or None, micheline value)...]"""
    from pytezos.michelson.repl import Interpreter

    box = _hook_failwith()
    it = Interpreter()
    set_env(it.context, case.get('env') or DEFAULT_ENV)
    if case['inputs']:
        # inputs are pushed bottom first so that inputs[0] ends on top
        pre = ' ; '.join(f'PUSH {ty_mich(t)} {data_mich(d)}' for t, d in reversed(case['inputs']))
        r0 = it.execute(pre)
        if r0.error is not None:
            return {'kind': 'error', 'why': f'input stack rejected: {r0.error!r}'[:300], 'input_rejected': True}
    del box[:]
    text = case.get('text') or code_mich(case['code'])
    res = it.execute(text)
    if res.error is None:
        try:
            stack = []
            for v in res.stack.items:
                te = type(v).as_micheline_expr()
                stack.append((obj_pval(v), ty_of_expr(te), te, v.to_micheline_value(mode='readable')))
            return {'kind': 'done', 'stack': stack, 'protected': res.stack.protected}
        except Unrenderable as e:
            return {'kind': 'unrenderable', 'why': str(e)}
    err = res.error
    args = getattr(err, 'args', ())
    if len(args) >= 2 and args[-2] == 'FAILWITH' and box and box[-1] is not None and args[-1] == repr(box[-1]):
        v = box[-1]
        try:
            return {'kind': 'failwith', 'value': obj_pval(v), 'micheline': v.to_micheline_value(mode='readable'),
                    'repr_ok': args[-1] == repr(v)}
        except Unrenderable as e:
            return {'kind': 'unrenderable', 'why': str(e)}
    return {'kind': 'error', 'why': repr(err)[:300]}


def obs_coq(o: dict) -> str:
    if o['kind'] == 'done':
        return '(ODone ' + clist(x[0] for x in o['stack']) + ')'
    if o['kind'] == 'failwith':
        return f'(OFailed {o["value"]})'
    return 'OError'


def case_coq(case) -> str:
    ins = clist(f'({ty_coq(t)}, {data_coq(d)})' for t, d in case['inputs'])
    return f'({env_coq(case.get("env") or DEFAULT_ENV)}, ({code_coq(case["code"])}, {ins}))'


def case_text(case) -> str:
    pre = ' ; '.join(f'PUSH {ty_mich(t)} {data_mich(d)}' for t, d in reversed(case['inputs']))
    return (pre + ' ;; ' if pre else '') + code_mich(case['code'])


def repro(case) -> str:
    pre = ' ; '.join(f'PUSH {ty_mich(t)} {data_mich(d)}' for t, d in reversed(case['inputs']))
    code = case.get('text') or code_mich(case['code'])
    a = f"i.execute({pre!r}); " if pre else ''
    e = case.get('env') or DEFAULT_ENV
    envs = (f"c=i.context; c.amount, c.balance, c.sender, c.source, c.address, c.now, c.level, c.chain_id = "
            f"{e['amount']}, {e['balance']}, {e['sender']!r}, {e['source']!r}, {e['self']!r}, {e['now']}, {e['level']}, {e['chain_id']!r}; ")
    return f"from pytezos.michelson.repl import Interpreter; i=Interpreter(); {envs}{a}r=i.execute({code!r}); print(r.error, r.stack)"


# --------------------------------------------------------------------------------------
# contract-shaped programs run through Interpreter.run_code (observe_at: storage returned by run_code)
# --------------------------------------------------------------------------------------
def data_micheline(d) -> Any:
    """data tuple -> Micheline JSON (canonical binary pairs)"""
    k = d[0]
    if k in ('int', 'mutez'):
        return {'int': str(d[1])}
    if k == 'str':
        return {'string': d[1]}
    if k == 'bytes':
        return {'bytes': d[1].hex()}
    if k == 'bool':
        return {'prim': 'True' if d[1] else 'False'}
    if k == 'unit':
        return {'prim': 'Unit'}
    if k == 'pair':
        return {'prim': 'Pair', 'args': [data_micheline(d[1]), data_micheline(d[2])]}
    if k == 'none':
        return {'prim': 'None'}
    if k in ('some', 'left', 'right'):
        return {'prim': k.capitalize(), 'args': [data_micheline(d[1])]}
    if k in ('list', 'set'):
        return [data_micheline(x) for x in d[1]]
    if k == 'map':
        return [{'prim': 'Elt', 'args': [data_micheline(a), data_micheline(b)]} for a, b in d[1]]
    raise ValueError(d)


def data_of_micheline(t, m):
    """Micheline JSON value of type t -> data tuple; raises Unrenderable when it is not a value of that type."""
    k = t[0]
    try:
        if k in ('int', 'nat', 'timestamp'):
            return ('int', int(m['int']))
        if k == 'mutez':
            return ('mutez', int(m['int']))
        if k == 'string':
            s = m['string']
            s.encode('ascii')
            return ('str', s)
        if k == 'bytes':
            return ('bytes', bytes.fromhex(m['bytes']))
        if k == 'bool':
            return ('bool', {'True': True, 'False': False}[m['prim']])
        if k == 'unit':
            if m['prim'] != 'Unit':
                raise KeyError
            return ('unit',)
        if k == 'pair':
            args = m['args'] if isinstance(m, dict) else m
            if isinstance(m, dict) and m['prim'] != 'Pair':
                raise KeyError
            if len(args) > 2:
                return ('pair', data_of_micheline(t[1], args[0]), data_of_micheline(t[2], {'prim': 'Pair', 'args': args[1:]}))
            return ('pair', data_of_micheline(t[1], args[0]), data_of_micheline(t[2], args[1]))
        if k == 'option':
            if m['prim'] == 'None':
                return ('none',)
            if m['prim'] == 'Some':
                return ('some', data_of_micheline(t[1], m['args'][0]))
            raise KeyError
        if k == 'or':
            if m['prim'] == 'Left':
                return ('left', data_of_micheline(t[1], m['args'][0]))
            if m['prim'] == 'Right':
                return ('right', data_of_micheline(t[2], m['args'][0]))
            raise KeyError
        if k in ('list', 'set'):
            if not isinstance(m, list):
                raise KeyError
            return (k, [data_of_micheline(t[1], x) for x in m])
        if k == 'map':
            if not isinstance(m, list) or any(x.get('prim') != 'Elt' for x in m):
                raise KeyError
            return ('map', [(data_of_micheline(t[1], x['args'][0]), data_of_micheline(t[2], x['args'][1])) for x in m])
    except Unrenderable:
        raise
    except Exception as e:  # noqa: BLE001
        raise Unrenderable(f'{m!r} is not a value of type {ty_mich(t)}') from e
    raise Unrenderable(f'type {t}')


def gen_contract(rng: random.Random, max_size: int):
    """parameter P, storage S, code { UNPAIR ; body : [P;S] -> [S] ; NIL operation ; PAIR }"""
    p = gen_type(rng, rng.choice([0, 1, 2]))
    s = gen_type(rng, rng.choice([0, 1, 2, 2]))
    g = Gen(rng, max_size, strict=True)
    body, res = g.body_to([p, s], [s], max_size, allow_fail=rng.random() < 0.15)
    code = [('UNPAIR',)] + body[1]
    if res != FAIL:
        code += [('NIL', T_OP), ('PAIR',)]
    pv, sv = gen_data(rng, p), gen_data(rng, s)
    return {'inputs': [(('pair', p, s), ('pair', pv, sv))], 'code': ('SEQ', code), 'result': None, 'retyping_map': False,
            'contract': {'parameter': p, 'storage': s, 'pv': pv, 'sv': sv}, 'env': gen_env(rng)}


def run_contract(case) -> dict:
    """Interpreter.run_code on the contract; observation: ('storage', data literal) | ('failwith', ...) | ('error', ...)"""
    from pytezos.michelson.parse import michelson_to_micheline
    from pytezos.michelson.repl import Interpreter

    c = case['contract']
    box = _hook_failwith()
    del box[:]
    script = f"parameter {ty_mich(c['parameter'])} ; storage {ty_mich(c['storage'])} ; code {code_mich(case['code'])}"
    case['script'] = script
    e = case.get('env') or DEFAULT_ENV
    ops, storage, lazy, stdout, err = Interpreter.run_code(
        parameter=data_micheline(c['pv']), storage=data_micheline(c['sv']), script=michelson_to_micheline(script),
        output_mode='optimized', amount=e['amount'], balance=e['balance'], sender=e['sender'], source=e['source'],
        chain_id=e['chain_id'], now=e['now'], level=e['level'], address=e['self'])
    if err is None:
        try:
            return {'kind': 'done', 'storage': data_of_micheline(c['storage'], storage), 'micheline': storage, 'operations': ops}
        except Unrenderable as e:
            return {'kind': 'unrenderable', 'why': str(e), 'micheline': storage}
    args = getattr(err, 'args', ())
    if len(args) >= 2 and args[-2] == 'FAILWITH' and box and box[-1] is not None and args[-1] == repr(box[-1]):
        try:
            return {'kind': 'failwith', 'value': obj_pval(box[-1]), 'repr_ok': args[-1] == repr(box[-1])}
        except Unrenderable as e:
            return {'kind': 'unrenderable', 'why': str(e)}
    return {'kind': 'error', 'why': repr(err)[:300]}


def contract_obs_coq(o: dict) -> str:
    """as `outcome` of the reference semantics"""
    if o['kind'] == 'done':
        return f'(Done [VPair (VList []) (value_of_data {data_coq(o["storage"])})])'
    if o['kind'] == 'failwith':
        return f'(Failed (erase {o["value"]}))'
    return 'RtError'


def contract_repro(case) -> str:
    c = case['contract']
    return (f"from pytezos.michelson.repl import Interpreter; from pytezos.michelson.parse import michelson_to_micheline as m; "
            f"print(Interpreter.run_code(parameter={data_micheline(c['pv'])!r}, "
            f"storage={data_micheline(c['sv'])!r}, script=m({case.get('script')!r}), output_mode='optimized', "
            f"**{ {k if k != 'self' else 'address': v for k, v in (case.get('env') or DEFAULT_ENV).items()} !r})[:2])")


# --------------------------------------------------------------------------------------
# systematic per-instruction sweep (boundary operands for every overload, every depth of the stack shuffles)
# --------------------------------------------------------------------------------------
def instr_sweep(rng: random.Random, thorough: bool = False):
    out = []

    def add(inputs, code):
        out.append({'inputs': list(inputs), 'code': ('SEQ', list(code)), 'result': None, 'retyping_map': False})

    big = 2 ** 64 + 1
    ints = [0, 1, -1, 2, -2, 3, -3, 7, -7, 10, big, -big]
    nats = [0, 1, 2, 3, 7, 10, big]
    num = {'int': ints, 'nat': nats}
    for ta in ('int', 'nat'):
        for tb in ('int', 'nat'):
            pairs = [(a, b) for a in num[ta] for b in num[tb]]
            if not thorough:
                pairs = [p for p in pairs if p[1] == 0 or rng.random() < 0.25]
            for a, b in pairs:
                for op in ('ADD', 'SUB', 'MUL', 'EDIV'):
                    if op != 'EDIV' and not thorough and rng.random() < 0.6:
                        continue
                    add([((ta,), ('int', a)), ((tb,), ('int', b))], [(op,)])
    M = MUTEZ_MAX
    mutezs = [0, 1, 2, 3, 7, 1000000, 3037000499, 3037000500, M // 2, M // 2 + 1, M - 1, M]
    for a in mutezs:
        for b in mutezs:
            if thorough or a in (0, M) or b in (0, M) or rng.random() < 0.25:
                for op in ('ADD', 'SUB_MUTEZ', 'EDIV', 'COMPARE'):
                    add([(T_MUTEZ, ('mutez', a)), (T_MUTEZ, ('mutez', b))], [(op,)])
        for b in nats:
            if thorough or rng.random() < 0.5:
                add([(T_MUTEZ, ('mutez', a)), (T_NAT, ('int', b))], [(rng.choice(['MUL', 'EDIV']),)])
                add([(T_NAT, ('int', b)), (T_MUTEZ, ('mutez', a))], [('MUL',)])
    for a in ints:
        for b in ints:
            if thorough or rng.random() < 0.15:
                add([(T_TIMESTAMP, ('int', a)), (T_INT, ('int', b))], [(rng.choice(['ADD', 'SUB']),)])
                add([(T_INT, ('int', b)), (T_TIMESTAMP, ('int', a))], [('ADD',)])
                add([(T_TIMESTAMP, ('int', a)), (T_TIMESTAMP, ('int', b))], [(rng.choice(['SUB', 'COMPARE']),)])
    for op in ('AMOUNT', 'BALANCE', 'SENDER', 'SOURCE', 'SELF_ADDRESS', 'NOW', 'LEVEL', 'CHAIN_ID'):
        for _ in range(6 if thorough else 3):
            add([], [(op,)])
            out[-1]['env'] = gen_env(rng)
    for _ in range(10 if thorough else 4):
        add([], [('AMOUNT',), ('BALANCE',), ('ADD',)])
        out[-1]['env'] = gen_env(rng)
        add([], [('SENDER',), ('SOURCE',), ('PAIR',), ('SELF_ADDRESS',), ('SOME',), ('NOW',), ('LEVEL',), ('INT',), ('ADD',), ('CHAIN_ID',), ('PAIRN', 4)])
        out[-1]['env'] = gen_env(rng)
    for z in ints:
        for op in ('NEG', 'ABS', 'ISNAT', 'EQ', 'NEQ', 'LT', 'GT', 'LE', 'GE'):
            add([(T_INT, ('int', z))], [(op,)])
    for z in nats:
        for op in ('NEG', 'INT'):
            add([(T_NAT, ('int', z))], [(op,)])
    for a in nats:
        add([(T_NAT, ('int', a))], [('NOT',)])
        for b in nats:
            if thorough or rng.random() < 0.5:
                for op in ('AND', 'OR', 'XOR'):
                    add([(T_NAT, ('int', a)), (T_NAT, ('int', b))], [(op,)])
        for b in ints:
            if thorough or rng.random() < 0.4:
                add([(T_INT, ('int', b)), (T_NAT, ('int', a))], [('AND',)])
        for k in (0, 1, 8, 63, 64, 255, 256, 257, 300, big):
            if thorough or rng.random() < 0.5:
                add([(T_NAT, ('int', a)), (T_NAT, ('int', k))], [(rng.choice(['LSL', 'LSR']),)])
    for z in ints:
        add([(T_INT, ('int', z))], [('NOT',)])
    for txt, ty, mk in (('abc', T_STRING, lambda x: ('str', x)), ('', T_STRING, lambda x: ('str', x)),
                        (b'\x00\x01\x02', T_BYTES, lambda x: ('bytes', x)), (b'', T_BYTES, lambda x: ('bytes', x))):
        for o in range(0, len(txt) + 2):
            for ln in range(0, len(txt) + 2):
                add([(T_NAT, ('int', o)), (T_NAT, ('int', ln)), (ty, mk(txt))], [('SLICE',)])
        add([(T_NAT, ('int', big)), (T_NAT, ('int', 0)), (ty, mk(txt))], [('SLICE',)])
        add([(T_NAT, ('int', 0)), (T_NAT, ('int', big)), (ty, mk(txt))], [('SLICE',)])
    for b1 in [b'', b'\x00', b'ab', b'\xff\x00']:
        add([(T_BYTES, ('bytes', b1))], [('SIZE',)])
        for b2 in [b'', b'\x00', b'a', b'\xff']:
            add([(T_BYTES, ('bytes', b1)), (T_BYTES, ('bytes', b2))], [('CONCAT',)])
            add([(T_BYTES, ('bytes', b1)), (T_BYTES, ('bytes', b2))], [('COMPARE',)])
    for l in ([], [b'a'], [b'\x00', b'', b'\x01\x02']):
        add([(('list', T_BYTES), ('list', [('bytes', x) for x in l]))], [('CONCAT',)])
    for a in (True, False):
        add([(T_BOOL, ('bool', a))], [('NOT',)])
        for b in (True, False):
            for op in ('AND', 'OR', 'XOR'):
                add([(T_BOOL, ('bool', a)), (T_BOOL, ('bool', b))], [(op,)])
    # COMPARE on every comparable shape
    shapes = [T_INT, T_NAT, T_MUTEZ, T_TIMESTAMP, ('option', T_MUTEZ), T_STRING, T_BYTES, T_BOOL, T_UNIT, ('pair', T_BYTES, T_NAT), ('pair', T_INT, T_STRING), ('pair', ('pair', T_NAT, T_BOOL), T_INT),
              ('option', T_NAT), ('option', T_UNIT), ('option', ('option', T_UNIT)), ('or', T_INT, T_BOOL), ('or', T_UNIT, T_UNIT),
              ('pair', ('option', T_INT), ('or', T_STRING, T_NAT)), ('or', ('pair', T_UNIT, T_INT), ('option', T_STRING)),
              ('pair', T_UNIT, ('option', T_UNIT))]
    for t in shapes:
        for _ in range(8 if thorough else 4):
            x = gen_data(rng, t)
            y = near_data(rng, t, x) if rng.random() < 0.7 else gen_data(rng, t)
            add([(t, x), (t, y)], [('COMPARE',)])
            add([(t, y), (t, x)], [('COMPARE',), (rng.choice(['EQ', 'NEQ', 'LT', 'GT', 'LE', 'GE']),)])
    for s1 in ['', 'a', 'ab', 'b', 'aB', 'a b']:
        add([(T_STRING, ('str', s1))], [('SIZE',)])
        for s2 in ['', 'a', 'ab', 'B']:
            add([(T_STRING, ('str', s1)), (T_STRING, ('str', s2))], [('CONCAT',)])
            add([(T_STRING, ('str', s1)), (T_STRING, ('str', s2))], [('COMPARE',)])
    for l in ([], ['a'], ['a', '', 'bc'], ['x', 'y', 'z', 'w']):
        add([(('list', T_STRING), ('list', [('str', x) for x in l]))], [('CONCAT',)])
        add([(('list', T_STRING), ('list', [('str', x) for x in l]))], [('SIZE',)])
    # data constructors / destructors on composite operands
    for _ in range(30 if thorough else 12):
        a, b = gen_type(rng, 2), gen_type(rng, 2)
        va, vb = gen_data(rng, a), gen_data(rng, b)
        add([(a, va), (b, vb)], [('PAIR',)])
        add([(('pair', a, b), ('pair', va, vb))], [(rng.choice(['UNPAIR', 'CAR', 'CDR']),)])
        add([(a, va)], [(rng.choice(['LEFT', 'RIGHT']), b)])
        add([(a, va)], [('SOME',)])
        add([], [('NONE', a)])
        add([], [('NIL', a), ('PUSH', a, va), ('CONS',)])
        add([(a, va), (('list', a), gen_data(rng, ('list', a)))], [('CONS',)])
        add([(('option', a), gen_data(rng, ('option', a)))], [('IF_NONE', ('SEQ', [('PUSH', b, vb)]), ('SEQ', [('DROP', 1), ('PUSH', b, vb)]))])
        add([(('or', a, b), gen_data(rng, ('or', a, b)))], [('IF_LEFT', ('SEQ', [('SOME',), ('NONE', b), ('SWAP',)]), ('SEQ', [('SOME',), ('NONE', a)]))])
        add([(('list', a), gen_data(rng, ('list', a)))], [('IF_CONS', ('SEQ', [('PAIR',), ('SOME',)]), ('SEQ', [('NONE', ('pair', a, ('list', a)))]))])
        add([(('list', a), gen_data(rng, ('list', a)))], [('MAP', ('SEQ', [('DUP', 1), ('PAIR',), ('CAR',)]))])
        add([(('list', a), gen_data(rng, ('list', a)))], [('NIL', a), ('SWAP',), ('ITER', ('SEQ', [('CONS',)]))])
    # sets and maps with simple and composite keys
    key_types = [T_INT, T_STRING, T_MUTEZ, T_BYTES, ('pair', T_INT, T_STRING), ('option', T_NAT), ('or', T_INT, T_BOOL),
                 ('pair', ('pair', T_NAT, T_BOOL), T_INT), ('option', T_UNIT), ('pair', T_UNIT, ('or', T_STRING, T_NAT))]
    val_types = [T_INT, T_STRING, ('pair', T_NAT, T_BOOL), ('option', T_INT), ('list', T_INT)]
    for kt in key_types:
        for rep in range(3 if thorough else 1):
            st, sv = ('set', kt), gen_data(rng, ('set', kt))
            vt = rng.choice(val_types)
            mt = ('map', kt, vt)
            mv = gen_data(rng, mt)
            probes = [gen_data(rng, kt)] + [x for x in sv[1][:2]] + [x for x, _ in mv[1][:2]]
            probes += [near_data(rng, kt, x) for x in probes[:2]]
            for x in probes:
                add([(kt, x), (st, sv)], [('MEM',)])
                add([(kt, x), (T_BOOL, ('bool', True)), (st, sv)], [('UPDATE',)])
                add([(kt, x), (T_BOOL, ('bool', False)), (st, sv)], [('UPDATE',)])
                add([(kt, x), (mt, mv)], [('MEM',)])
                add([(kt, x), (mt, mv)], [('GET',)])
                nv = gen_data(rng, vt)
                add([(kt, x), (('option', vt), ('some', nv)), (mt, mv)], [('UPDATE',)])
                add([(kt, x), (('option', vt), ('none',)), (mt, mv)], [('UPDATE',)])
                add([(kt, x), (('option', vt), ('some', nv)), (mt, mv)], [('GET_AND_UPDATE',)])
                add([(kt, x), (('option', vt), ('none',)), (mt, mv)], [('GET_AND_UPDATE',)])
            add([(st, sv)], [('SIZE',)])
            add([(mt, mv)], [('SIZE',)])
            add([(st, sv)], [('NIL', kt), ('SWAP',), ('ITER', ('SEQ', [('CONS',)]))])
            add([(mt, mv)], [('NIL', ('pair', kt, vt)), ('SWAP',), ('ITER', ('SEQ', [('CONS',)]))])
            add([(mt, mv)], [('MAP', ('SEQ', [('CDR',)]))])
            if mv[1]:
                add([(mt, mv)], [('MAP', ('SEQ', [('UNPAIR',), ('SWAP',), ('PAIR',)])), ('DUP', 1), ('SIZE',)])
                add([(mt, mv)], [('MAP', ('SEQ', [('CAR',)]))])          # changes the value type (non-empty map)
                add([(mt, mv)], [('MAP', ('SEQ', [('CDR',), ('SOME',)]))])
            add([], [('EMPTY_SET', kt), ('PUSH', T_BOOL, ('bool', True)), ('PUSH', kt, gen_data(rng, kt)), ('UPDATE',)])
            add([], [('EMPTY_MAP', kt, vt), ('PUSH', ('option', vt), ('some', gen_data(rng, vt))), ('PUSH', kt, gen_data(rng, kt)), ('UPDATE',)])
    # compounds holding a lambda whose signature mentions `operation`: still duplicable and packable (FAILWITH carries the value)
    n0 = len(out)
    for (la, lb, lbody) in ((T_UNIT, T_OP, [('FAILWITH',)]), (('list', T_OP), T_UNIT, [('DROP', 1), ('UNIT',)]), (T_NAT, T_NAT, [])):
        lam = ('LAMBDA', la, lb, ('SEQ', lbody))
        lt = ('lambda', la, lb)
        for wrap in ([], [('PUSH', T_NAT, ('int', 1)), ('PAIR',)], [('SOME',)], [('LEFT', T_NAT)], [('NIL', lt), ('SWAP',), ('CONS',)],
                     [('SOME',), ('PUSH', T_STRING, ('str', 'a')), ('PAIR',), ('RIGHT', T_UNIT)]):
            add([], [lam] + wrap + [('DUP', 1)])
            add([], [lam] + wrap + [('FAILWITH',)])
            add([(T_INT, ('int', 3))], [('DIP', 1, ('SEQ', [lam] + wrap + [('DUP', 1), ('DROP', 1)]))])
    for c in out[n0:]:
        c['must'] = True
    # boundary operands of every instruction that has a bound: always run (also in the quick tier)
    n0 = len(out)
    for op in ('LSL', 'LSR'):
        for a in (0, 1, 5, 2 ** 64 + 1):
            for k in (0, 1, 255, 256, 257, 258):
                add([(T_NAT, ('int', a)), (T_NAT, ('int', k))], [(op,)])
    for a, b in ((MUTEZ_MAX, 0), (MUTEZ_MAX, 1), (MUTEZ_MAX - 1, 1), (MUTEZ_MAX // 2 + 1, MUTEZ_MAX // 2), (MUTEZ_MAX // 2 + 1, MUTEZ_MAX // 2 + 1),
                 (0, 0), (0, 1), (1, 0), (1, 2), (2, 1)):
        for op in ('ADD', 'SUB_MUTEZ', 'EDIV'):
            add([(T_MUTEZ, ('mutez', a)), (T_MUTEZ, ('mutez', b))], [(op,)])
    for a, k in ((MUTEZ_MAX, 1), (MUTEZ_MAX, 2), (MUTEZ_MAX // 2 + 1, 2), (MUTEZ_MAX // 2, 2), (3037000500, 3037000500), (1, 0), (0, 0), (7, 2)):
        add([(T_MUTEZ, ('mutez', a)), (T_NAT, ('int', k))], [('MUL',)])
        add([(T_NAT, ('int', k)), (T_MUTEZ, ('mutez', min(a, MUTEZ_MAX)))], [('MUL',)])
        add([(T_MUTEZ, ('mutez', a)), (T_NAT, ('int', k))], [('EDIV',)])
    add([], [('PUSH', T_MUTEZ, ('mutez', MUTEZ_MAX))])
    for txt, ty, mk in (('abc', T_STRING, lambda x: ('str', x)), (b'\x00\x01\x02', T_BYTES, lambda x: ('bytes', x)),
                        ('', T_STRING, lambda x: ('str', x)), (b'', T_BYTES, lambda x: ('bytes', x))):
        n = len(txt)
        for o in sorted({0, max(n - 1, 0), n, n + 1}):
            for ln in sorted({0, 1, max(n - o, 0), max(n - o, 0) + 1}):
                add([(T_NAT, ('int', o)), (T_NAT, ('int', ln)), (ty, mk(txt))], [('SLICE',)])
    for ta in ('int', 'nat'):
        for tb in ('int', 'nat'):
            for a, b in ((0, 0), (1, 0), (7, 0), (0, 1), (7, 1), (7, 2), (-7, 2), (7, -2), (-7, -2), (-1, 1), (1, -1)):
                if (ta == 'nat' and a < 0) or (tb == 'nat' and b < 0):
                    continue
                add([((ta,), ('int', a)), ((tb,), ('int', b))], [('EDIV',)])
    for z in (-1, 0, 1):
        for op in ('ISNAT', 'ABS', 'NEG', 'EQ', 'NEQ', 'LT', 'GT', 'LE', 'GE', 'NOT'):
            add([(T_INT, ('int', z))], [(op,)])
    for a, b in ((0, 0), (0, 1), (1, 0)):
        add([(T_NAT, ('int', a)), (T_NAT, ('int', b))], [('SUB',), ('ISNAT',)])
    for n in (0, 1, 2):
        add([(('list', T_INT), ('list', [('int', i) for i in range(n)]))], [('IF_CONS', ('SEQ', [('DROP', 2), ('PUSH', T_NAT, ('int', 1))]), ('SEQ', [('PUSH', T_NAT, ('int', 0))]))])
        add([(('list', T_INT), ('list', [('int', i) for i in range(n)]))], [('SIZE',)])
    for c in out[n0:]:
        c['must'] = True
    # COMPARE: the deciding component comes AFTER components that are equal and None / Some None / Left on both sides
    O_INT, OO_UNIT = ('option', T_INT), ('option', ('option', T_UNIT))
    cmp_shapes = [
        (('pair', O_INT, T_INT), lambda h, x: ('pair', h, ('int', x)), [('none',), ('some', ('int', 3))]),
        (('pair', T_NAT, ('pair', O_INT, T_STRING)), lambda h, x: ('pair', ('int', 1), ('pair', h, ('str', 'ab'[:x]))), [('none',), ('some', ('int', 0))]),
        (('pair', OO_UNIT, T_NAT), lambda h, x: ('pair', h, ('int', x)), [('none',), ('some', ('none',)), ('some', ('some', ('unit',)))]),
        (('pair', ('pair', O_INT, O_INT), T_INT), lambda h, x: ('pair', ('pair', h, h), ('int', x)), [('none',), ('some', ('int', -1))]),
        (('pair', ('or', O_INT, T_UNIT), T_INT), lambda h, x: ('pair', ('left', h), ('int', x)), [('none',), ('some', ('int', 5))]),
        (('option', ('pair', O_INT, T_INT)), lambda h, x: ('some', ('pair', h, ('int', x))), [('none',), ('some', ('int', 2))]),
    ]
    for t, mk, heads in cmp_shapes:
        for h in heads:
            for (x, y) in ((0, 1), (1, 0), (1, 1), (0, 2)):
                a, b = mk(h, x), mk(h, y)
                add([(t, a), (t, b)], [('COMPARE',)])
                out[-1]['must'] = True
                add([(t, a), (t, b)], [('COMPARE',), (rng.choice(['EQ', 'GT', 'LT', 'GE', 'LE', 'NEQ']),)])
                add([(t, a), (t, b)], [('COMPARE',), ('GT',), ('IF', ('SEQ', [('PUSH', T_STRING, ('str', 'gt'))]), ('SEQ', [('PUSH', T_STRING, ('str', 'le'))]))])
                if x != y:
                    lo, hi = (a, b) if x < y else (b, a)
                    add([(t, hi), (('set', t), ('set', [lo]))], [('MEM',)])
                    add([(t, hi), (T_BOOL, ('bool', True)), (('set', t), ('set', [lo]))], [('UPDATE',)])
                    add([(t, lo), (T_BOOL, ('bool', True)), (('set', t), ('set', [hi]))], [('UPDATE',)])
                    add([(t, lo), (('map', t, T_NAT), ('map', [(lo, ('int', 1)), (hi, ('int', 2))]))], [('GET',)])
                    add([(t, hi), (('option', T_NAT), ('some', ('int', 7))), (('map', t, T_NAT), ('map', [(lo, ('int', 1))]))], [('UPDATE',)])
    # branching on values whose Python objects are falsy ("" / 0x / {} / False / empty set, map): each branch leaves a
    # differently typed trace of the payload it received, so that taking the wrong branch shows in values AND in types
    falsy = [(T_STRING, ('str', ''), [('SIZE',)]), (T_BYTES, ('bytes', b''), [('SIZE',)]), (('list', T_INT), ('list', []), [('SIZE',)]),
             (('set', T_INT), ('set', []), [('SIZE',)]), (('map', T_INT, T_INT), ('map', []), [('SIZE',)]),
             (T_BOOL, ('bool', False), [('IF', ('SEQ', [('PUSH', T_NAT, ('int', 1))]), ('SEQ', [('PUSH', T_NAT, ('int', 0))]))]),
             (T_STRING, ('str', 'x'), [('SIZE',)]), (T_INT, ('int', 0), [('ABS',)]), (T_NAT, ('int', 0), [('INT',), ('ABS',)]),
             (('or', T_STRING, T_NAT), ('left', ('str', '')), [('IF_LEFT', ('SEQ', [('SIZE',)]), ('SEQ', []))]),
             (('option', T_STRING), ('none',), [('IF_NONE', ('SEQ', [('PUSH', T_NAT, ('int', 9))]), ('SEQ', [('SIZE',)]))])]
    for at, av, to_nat in falsy:
        ot = ('or', at, T_NAT)
        add([(ot, ('left', av))], [('IF_LEFT', ('SEQ', to_nat), ('SEQ', []))])
        out[-1]['must'] = True
        add([(ot, ('right', ('int', 0)))], [('IF_LEFT', ('SEQ', to_nat), ('SEQ', []))])
        ot2 = ('or', T_NAT, at)
        add([(ot2, ('right', av))], [('IF_LEFT', ('SEQ', []), ('SEQ', to_nat))])
        out[-1]['must'] = True
        add([(ot2, ('left', ('int', 0)))], [('IF_LEFT', ('SEQ', []), ('SEQ', to_nat))])
        add([(ot, ('left', av))], [('LOOP_LEFT', ('SEQ', to_nat + [('RIGHT', at)]))])
        out[-1]['must'] = True
        add([(('option', at), ('some', av))], [('IF_NONE', ('SEQ', [('PUSH', T_NAT, ('int', 7))]), ('SEQ', to_nat))])
        add([(('list', at), ('list', [av]))], [('IF_CONS', ('SEQ', [('DIP', 1, ('SEQ', [('DROP', 1)]))] + to_nat), ('SEQ', [('PUSH', T_NAT, ('int', 7))]))])
        add([(('list', at), ('list', [av, av]))], [('MAP', ('SEQ', to_nat))])
        add([(('pair', at, T_BOOL), ('pair', av, ('bool', False)))], [('UNPAIR',), ('SWAP',), ('IF', ('SEQ', [('DROP', 1), ('PUSH', T_NAT, ('int', 5))]), ('SEQ', to_nat))])
    # lambdas: LAMBDA / EXEC / APPLY with captured values of every literal shape
    for _ in range(40 if thorough else 14):
        ta = gen_type(rng, 2)
        while not has_literal(ta):
            ta = gen_type(rng, 2)
        tb = gen_type(rng, 1)
        while not has_literal(tb):
            tb = gen_type(rng, 1)
        va, vb = gen_data(rng, ta), gen_data(rng, tb)
        lam = ('LAMBDA', ('pair', ta, tb), ('pair', tb, ta), ('SEQ', [('UNPAIR',), ('SWAP',), ('PAIR',)]))
        add([(ta, va)], [lam, ('SWAP',), ('APPLY',)])
        add([(ta, va), (tb, vb)], [lam, ('SWAP',), ('APPLY',), ('SWAP',), ('EXEC',)])
        add([(ta, va)], [('LAMBDA', ta, ('option', ta), ('SEQ', [('SOME',)])), ('SWAP',), ('EXEC',)])
        add([(ta, va)], [('LAMBDA', ta, tb, ('SEQ', [('FAILWITH',)])), ('SWAP',), ('EXEC',)])
        add([(ta, va), (tb, vb)], [('LAMBDA', ta, ta, ('SEQ', [])), ('DUP', 1), ('DIP', 1, ('SEQ', [('SWAP',), ('EXEC',)])), ('PAIR',)])
    # right combs of every width; leaves and the last component may themselves be pairs
    leaf_types = [T_INT, T_STRING, ('pair', T_NAT, T_BOOL), ('option', T_INT), T_UNIT]
    for width in range(2, 6):
        for rep in range(2 if thorough else 1):
            ts = [rng.choice(leaf_types) for _ in range(width)]
            t = comb_ty(ts)
            v = gen_data(rng, t)
            add([(x, gen_data(rng, x)) for x in ts], [('PAIRN', width)])
            for n in range(2, spine_len(t) + 1):
                add([(t, v)], [('UNPAIRN', n)])
            for k in range(0, 2 * spine_len(t) - 1):
                add([(t, v)], [('GETN', k)])
                xt = rng.choice(leaf_types)
                add([(xt, gen_data(rng, xt)), (t, v)], [('UPDATEN', k)])
                pt = ('pair', T_NAT, ('pair', T_STRING, T_INT))       # a pair-typed new element, at odd and even positions
                add([(pt, gen_data(rng, pt)), (t, v)], [('UPDATEN', k)])
    # stack shuffles at every depth, also under a protected prefix (inside DIP k)
    base = [(T_INT, ('int', 1)), (T_STRING, ('str', 'b')), (T_NAT, ('int', 3)), (T_BOOL, ('bool', True)), (T_BYTES, ('bytes', b'\x05'))]
    for n in range(0, 6):
        for op in ('DROP', 'DIG', 'DUG', 'DUP'):
            if (op == 'DUP' and n == 0) or (op in ('DIG', 'DUG') and n == 5):
                continue
            add(base, [(op, n)])
            for k in range(1, 6 - n):
                if op in ('DIG', 'DUG') and n >= 5 - k:
                    continue
                if op == 'DUP' and n > 5 - k:
                    continue
                add(base, [('DIP', k, ('SEQ', [(op, n)]))])
        add(base, [('DIP', n, ('SEQ', [('PUSH', T_STRING, ('str', 'x'))]))])
        add(base, [('DIP', n, ('SEQ', [('DIP', 5 - n, ('SEQ', [('UNIT',)])), ('UNIT',)]))])
    for c in out:
        c['stream'] = 'instr-sweep'
    return out


# --------------------------------------------------------------------------------------
# REPL sessions: several cells on one Interpreter; failing cells (also deep inside DIP / loops) must leave the
# session stack and its `protected` counter untouched
# --------------------------------------------------------------------------------------
def failing_cell(rng: random.Random, stack: list):
    """a well-typed cell that fails at run time whatever the stack contents are"""
    t = gen_type(rng, 1)
    failer = [('PUSH', T_BOOL, ('bool', True)), ('IF', ('SEQ', [('PUSH', t, gen_data(rng, t)), ('FAILWITH',)]), ('SEQ', []))]
    if rng.random() < 0.3:   # a run-time error instead of FAILWITH: shift by 300
        failer = [('PUSH', T_NAT, ('int', 300)), ('PUSH', T_NAT, ('int', 1)), ('LSL',), ('DROP', 1)]
    if rng.random() < 0.4:
        failer = [('PUSH', T_INT, ('int', 7))] + failer + [('DROP', 1)]
    n = rng.randrange(0, len(stack) + 1)
    inner = [('DIP', n, ('SEQ', failer))] if (n > 0 or rng.random() < 0.5) else failer
    if n >= 2 and rng.random() < 0.4:
        m = rng.randrange(1, n)
        inner = [('DIP', m, ('SEQ', [('DIP', n - m, ('SEQ', failer))]))]
    r = rng.random()
    if r < 0.4:
        return inner
    if r < 0.55:
        return [('PUSH', ('list', T_INT), ('list', [('int', 1), ('int', 2)])), ('ITER', ('SEQ', [('DROP', 1)] + inner))]
    if r < 0.7:
        return [('PUSH', ('list', T_INT), ('list', [('int', 1)])), ('MAP', ('SEQ', [('DIP', 1, ('SEQ', inner))])), ('DROP', 1)]
    if r < 0.85:
        return [('PUSH', T_BOOL, ('bool', True)), ('LOOP', ('SEQ', inner + [('PUSH', T_BOOL, ('bool', False))]))]
    return [('UNIT',), ('DIP', 1, ('SEQ', inner)), ('DROP', 1)]


def gen_session(rng: random.Random, max_size: int):
    n_in = rng.choice([1, 2, 3, 4, 5])
    inputs = []
    for _ in range(n_in):
        t = gen_type(rng, rng.choice([0, 1, 2]))
        inputs.append((t, gen_data(rng, t)))
    stack = [t for t, _ in inputs]
    cells = []
    kinds = []
    for _ in range(rng.choice([2, 3, 3, 4, 5])):
        if rng.random() < 0.45:
            cells.append(('SEQ', failing_cell(rng, stack)))
            kinds.append('fail')
        else:
            g = Gen(rng, max_size, strict=True, safe=True)
            code, res = g.seq(stack, rng.choice([1, 2, 4, max_size]))
            cells.append(('SEQ', code))
            kinds.append('ok')
            stack = res
    return {'inputs': inputs, 'cells': cells, 'kinds': kinds, 'env': gen_env(rng), 'code': ('SEQ', [c for cell in cells for c in cell[1]])}


def run_session(case) -> list:
    """-> per cell: (observation dict, stack-after as [pval literal...], protected counter)"""
    from pytezos.michelson.repl import Interpreter

    box = _hook_failwith()
    it = Interpreter()
    set_env(it.context, case.get('env') or DEFAULT_ENV)
    pre = ' ; '.join(f'PUSH {ty_mich(t)} {data_mich(d)}' for t, d in reversed(case['inputs']))
    r0 = it.execute(pre)
    if r0.error is not None:
        return [({'kind': 'error', 'why': f'input stack rejected: {r0.error!r}'[:300]}, [], 0)]
    out = []
    for cell in case['cells']:
        del box[:]
        res = it.execute(code_mich(cell))
        try:
            if res.error is None:
                o = {'kind': 'done', 'stack': [(obj_pval(v), None, None, None) for v in res.stack.items]}
            else:
                args = getattr(res.error, 'args', ())
                if len(args) >= 2 and args[-2] == 'FAILWITH' and box and box[-1] is not None and args[-1] == repr(box[-1]):
                    o = {'kind': 'failwith', 'value': obj_pval(box[-1]), 'repr_ok': args[-1] == repr(box[-1])}
                else:
                    o = {'kind': 'error', 'why': repr(res.error)[:300]}
            after = [obj_pval(v) for v in it.stack.items]
        except Unrenderable as e:
            o, after = {'kind': 'unrenderable', 'why': str(e)}, []
        out.append((o, after, int(it.stack.protected)))
    return out


def session_coq(case) -> str:
    ins = clist(f'({ty_coq(t)}, {data_coq(d)})' for t, d in case['inputs'])
    return f'({env_coq(case.get("env") or DEFAULT_ENV)}, ({clist(code_coq(c) for c in case["cells"])}, {ins}))'


def session_obs_coq(obs: list) -> str:
    return clist(f'({obs_coq(o)}, ({clist(after)}, {cnat(p) if p < 4000 else "4999%nat"}))' for o, after, p in obs)


def session_text(case) -> str:
    pre = ' ; '.join(f'PUSH {ty_mich(t)} {data_mich(d)}' for t, d in reversed(case['inputs']))
    return pre + ' ;; ' + ' ;; '.join(code_mich(c) for c in case['cells'])


def session_repro(case) -> str:
    pre = ' ; '.join(f'PUSH {ty_mich(t)} {data_mich(d)}' for t, d in reversed(case['inputs']))
    cells = [code_mich(c) for c in case['cells']]
    e = case.get('env') or DEFAULT_ENV
    envs = (f"c=i.context; c.amount, c.balance, c.sender, c.source, c.address, c.now, c.level, c.chain_id = "
            f"{e['amount']}, {e['balance']}, {e['sender']!r}, {e['source']!r}, {e['self']!r}, {e['now']}, {e['level']}, {e['chain_id']!r}; ")
    return (f"from pytezos.michelson.repl import Interpreter; i=Interpreter(); {envs}i.execute({pre!r})\n"
            f"for cell in {cells!r}:\n    r=i.execute(cell); print(r.error, i.stack.items, i.stack.protected)")


# --------------------------------------------------------------------------------------
# Micheline code -> instruction tuples (lambda values, Octez scripts)
# --------------------------------------------------------------------------------------
class Outside(Exception):
    pass


def ty_of(e):
    t = ty_of_expr(e)
    if t is None:
        raise Outside(f'type {e}')
    return t


def instr_of(m):
    if isinstance(m, list):
        return ('SEQ', [instr_of(x) for x in m])
    p, args = m.get('prim'), m.get('args', [])
    if p in NULLARY and not args:
        return (p,)
    if p in ('DROP', 'DUP') and len(args) <= 1:
        return (p, int(args[0]['int']) if args else 1)
    if p in ('DIG', 'DUG') and len(args) == 1:
        return (p, int(args[0]['int']))
    if p in ('PAIR', 'UNPAIR', 'GET', 'UPDATE') and len(args) == 1 and 'int' in args[0]:
        return (p + 'N', int(args[0]['int']))
    if p == 'PUSH' and len(args) == 2:
        t = ty_of(args[0])
        try:
            return ('PUSH', t, data_of_micheline(t, args[1]))
        except Unrenderable as e:
            raise Outside(str(e)) from e
    if p == 'DIP':
        if len(args) == 1:
            return ('DIP', 1, seq_of(args[0]))
        return ('DIP', int(args[0]['int']), seq_of(args[1]))
    if p in ('IF', 'IF_NONE', 'IF_LEFT', 'IF_CONS') and len(args) == 2:
        return (p, seq_of(args[0]), seq_of(args[1]))
    if p in ('LOOP', 'LOOP_LEFT', 'ITER', 'MAP') and len(args) == 1:
        return (p, seq_of(args[0]))
    if p in ('LEFT', 'RIGHT', 'NONE', 'NIL', 'EMPTY_SET') and len(args) == 1:
        return (p, ty_of(args[0]))
    if p == 'EMPTY_MAP' and len(args) == 2:
        return (p, ty_of(args[0]), ty_of(args[1]))
    if p == 'LAMBDA' and len(args) == 3:
        return (p, ty_of(args[0]), ty_of(args[1]), seq_of(args[2]))
    raise Outside(f'instruction {p}/{len(args)}')


def seq_of(m):
    i = instr_of(m)
    return i if i[0] == 'SEQ' else ('SEQ', [i])


