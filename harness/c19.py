"""C19 — macro expansions have their specified Michelson meaning.

(A) correspondence with Michelson/Macros.v, evaluated by vm_compute inside coqc:
    * `expand_macro(name, annots, args)` (real code) = `expand name annots args` syntactically, exhaustively over
      every name the macro regexes accept up to a length bound (9 quick / 13 thorough), with and without
      annotations, with right and wrong argument counts, plus one-letter mutations of accepted names;
    * the real Interpreter run on `PUSH…; MACRO args` = `expand_run` (model expansion evaluated by the reference
      evaluator) on stacks of matching shape (and a few that are too short / of the wrong kind).
(B) the property's own oracle: an independent Python transcription of the *meaning* of each macro family
    (denotational: PAIR tree builder, path access/update, comparison, …) applied to the same stack must agree
    with what the real Interpreter produced."""
import itertools
import re

import lib
from lib import chex, clist, copt, cstr, cZ

PROP = 'C19'
IMPORTS = 'From PV Require Import Codec.Micheline Michelson.Macros.'
OPS = ['EQ', 'NEQ', 'LT', 'GT', 'LE', 'GE']
OPF = {'EQ': lambda z: z == 0, 'NEQ': lambda z: z != 0, 'LT': lambda z: z < 0, 'GT': lambda z: z > 0,
       'LE': lambda z: z <= 0, 'GE': lambda z: z >= 0}
TAGS = ['COMPARE', 'EQ', 'NEQ', 'LT', 'GT', 'LE', 'GE', 'IF', 'IF_NONE', 'IF_LEFT', 'DIP', 'DUP', 'SWAP', 'PAIR',
        'UNPAIR', 'CAR', 'CDR', 'DROP', 'UNIT', 'FAILWITH', 'RENAME', 'UPDATE', 'GET', 'DIG', 'DUG']


# ------------------------------------------------------------------------------------------------
# names
# ------------------------------------------------------------------------------------------------
def fixed_names():
    out = ['FAIL', 'ASSERT', 'ASSERT_NONE', 'ASSERT_SOME', 'ASSERT_LEFT', 'ASSERT_RIGHT', 'IF_SOME', 'IF_RIGHT']
    for op in OPS:
        out += ['CMP' + op, 'IF' + op, 'IFCMP' + op, 'ASSERT_' + op, 'ASSERT_CMP' + op]
    return out


def family_names(maxlen):
    """Every name of the open-ended families with len(name) <= maxlen (fixed names come separately)."""
    for n in range(2, maxlen - 1):
        yield 'D' + 'I' * n + 'P'
        yield 'D' + 'U' * n + 'P'
    for k in range(3, maxlen - 1):
        for mid in itertools.product('PAI', repeat=k):
            yield 'P' + ''.join(mid) + 'R'
    for k in range(3, maxlen - 3):
        for mid in itertools.product('PAI', repeat=k):
            yield 'UNP' + ''.join(mid) + 'R'
    for k in range(2, maxlen - 1):
        for mid in itertools.product('AD', repeat=k):
            yield 'C' + ''.join(mid) + 'R'
    for k in range(1, maxlen - 5):
        for mid in itertools.product('AD', repeat=k):
            yield 'SET_C' + ''.join(mid) + 'R'
            yield 'MAP_C' + ''.join(mid) + 'R'


def parse_tree(s):
    """Independent recursive-descent parser of a PAIR-tree name body: returns (tree, rest) or None.
    tree = 'L' | (l, r); a left leaf is spelled A, a right leaf I."""
    def sub(s, left):
        if not s:
            return None
        if s[0] == 'P':
            a = sub(s[1:], True)
            if a is None:
                return None
            b = sub(a[1], False)
            if b is None:
                return None
            return (a[0], b[0]), b[1]
        if s[0] == ('A' if left else 'I'):
            return 'L', s[1:]
        return None
    return sub(s, True)


def wf_tree(name):
    """name = P…R is a well-formed PAIR tree macro -> the tree, else None."""
    r = parse_tree(name)
    if r is None or r[1] != 'R' or r[0] == 'L':
        return None
    return r[0]


def tree_shapes(n):
    """all PAIR trees with n leaves"""
    if n == 1:
        return ['L']
    out = []
    for k in range(1, n):
        for a in tree_shapes(k):
            for b in tree_shapes(n - k):
                out.append((a, b))
    return out


def tree_letters(t, left=True):
    return ('A' if left else 'I') if t == 'L' else 'P' + tree_letters(t[0], True) + tree_letters(t[1], False)


def wf_tree_names(max_leaves):
    """names of all well-formed PAIR tree macros with 3..max_leaves leaves (PAIR itself is a primitive)"""
    return [tree_letters(t) + 'R' for n in range(3, max_leaves + 1) for t in tree_shapes(n)]


def distinct_stack(name):
    """stack of matching shape with pairwise distinct int leaves (mis-nesting / mis-ordering becomes visible)"""
    INT = ('int',)
    m = re.fullmatch(r'(UN)?(P[PAI]{3,}R)', name)
    t = wf_tree(m.group(2)) if m else None
    if t is None:
        return None
    if not m.group(1):
        return [(INT, ('I', 10 + i)) for i in range(n_leaves(t) + 2)]
    cnt = [10]

    def mk(tr):
        if tr == 'L':
            cnt[0] += 1
            return INT, ('I', cnt[0])
        (ta, va), (tb, vb) = mk(tr[0]), mk(tr[1])
        return ('pair', ta, tb), ('P', va, vb)
    return [mk(t), (INT, ('I', 1)), (INT, ('I', 2))]


def n_leaves(t):
    return 1 if t == 'L' else n_leaves(t[0]) + n_leaves(t[1])


# ------------------------------------------------------------------------------------------------
# values / types (Python side), rendering
# ------------------------------------------------------------------------------------------------
# value: ('I', z) ('B', b) ('U',) ('P', a, b) ('N',) ('S', v) ('L', v) ('R', v)
# type : ('int',) ('bool',) ('unit',) ('pair', a, b) ('option', a) ('or', a, b)

def gen_type(rng, depth=2):
    k = rng.random()
    if depth <= 0 or k < 0.45:
        return (rng.choice(['int', 'int', 'bool', 'unit']),)
    if k < 0.7:
        return ('pair', gen_type(rng, depth - 1), gen_type(rng, depth - 1))
    if k < 0.85:
        return ('option', gen_type(rng, depth - 1))
    return ('or', gen_type(rng, depth - 1), gen_type(rng, depth - 1))


def gen_value(rng, t):
    k = t[0]
    if k == 'int':
        return ('I', rng.choice([0, 1, -1, 2, -7, 5, 10 ** 20, rng.randrange(-50, 50)]))
    if k == 'bool':
        return ('B', rng.random() < 0.5)
    if k == 'unit':
        return ('U',)
    if k == 'pair':
        return ('P', gen_value(rng, t[1]), gen_value(rng, t[2]))
    if k == 'option':
        return ('N',) if rng.random() < 0.35 else ('S', gen_value(rng, t[1]))
    if rng.random() < 0.5:
        return ('L', gen_value(rng, t[1]))
    return ('R', gen_value(rng, t[2]))


def near_value(rng, t, v):
    """a value of the same type, often equal or differing late (for comparisons)"""
    r = rng.random()
    if r < 0.3:
        return v
    if t[0] == 'pair' and r < 0.7:
        return ('P', v[1], near_value(rng, t[2], v[2]))
    return gen_value(rng, t)


def ty_text(t):
    return t[0] if len(t) == 1 else '(' + t[0] + ' ' + ' '.join(ty_text(x) for x in t[1:]) + ')'


def val_text(v):
    k = v[0]
    if k == 'I':
        return str(v[1])
    if k == 'B':
        return 'True' if v[1] else 'False'
    if k == 'U':
        return 'Unit'
    if k == 'P':
        return f'(Pair {val_text(v[1])} {val_text(v[2])})'
    if k == 'N':
        return 'None'
    return '(' + {'S': 'Some', 'L': 'Left', 'R': 'Right'}[k] + ' ' + val_text(v[1]) + ')'


def cval(v):
    k = v[0]
    if k == 'I':
        return f'(VInt {cZ(v[1])})'
    if k == 'B':
        return f'(VBool {"true" if v[1] else "false"})'
    if k == 'U':
        return 'VUnit'
    if k == 'P':
        return f'(VPair {cval(v[1])} {cval(v[2])})'
    if k == 'N':
        return 'VNone'
    return '(' + {'S': 'VSome', 'L': 'VLeft', 'R': 'VRight'}[k] + ' ' + cval(v[1]) + ')'


def cres(r):
    if r is None:
        return 'None'
    if r[0] == 'ok':
        return '(Some (ROk ' + clist(cval(v) for v in r[1]) + '))'
    if r[0] == 'fail':
        return f'(Some (RFailed {cval(r[1])}))'
    return '(Some RErr)'


def from_py(x):
    """pytezos stack item -> value"""
    from pytezos.michelson.types import BoolType, IntType, NatType, OptionType, OrType, PairType, UnitType
    if isinstance(x, PairType):
        return ('P', from_py(x.items[0]), from_py(x.items[1]))
    if isinstance(x, OptionType):
        return ('N',) if x.item is None else ('S', from_py(x.item))
    if isinstance(x, OrType):
        return ('L', from_py(x.items[0])) if x.is_left() else ('R', from_py(x.items[1]))
    if isinstance(x, BoolType):
        return ('B', bool(x.value))
    if isinstance(x, UnitType):
        return ('U',)
    if isinstance(x, (IntType, NatType)):
        return ('I', int(x.value))
    raise lib.InternalError(f'unexpected stack item {type(x).__name__}')


# ------------------------------------------------------------------------------------------------
# independent reference semantics (B)
# ------------------------------------------------------------------------------------------------
class Err(Exception):
    pass


class Failed(Exception):
    def __init__(self, v):
        self.v = v


def vcmp(a, b):
    if a[0] == 'I' and b[0] == 'I':
        return (a[1] > b[1]) - (a[1] < b[1])
    if a[0] == 'B' and b[0] == 'B':
        return (a[1] > b[1]) - (a[1] < b[1])
    if a[0] == 'U' and b[0] == 'U':
        return 0
    if a[0] == 'P' and b[0] == 'P':
        c, d = vcmp(a[1], b[1]), vcmp(a[2], b[2])
        return c if c != 0 else d
    if a[0] in 'NS' and b[0] in 'NS':
        if a[0] == 'N' or b[0] == 'N':
            return (a[0] == 'S') - (b[0] == 'S')
        return vcmp(a[1], b[1])
    if a[0] in 'LR' and b[0] in 'LR':
        if a[0] != b[0]:
            return -1 if a[0] == 'L' else 1
        return vcmp(a[1], b[1])
    raise Err()


def arg_int(args):
    if len(args) != 1 or 'int' not in args[0]:
        raise Err()
    n = int(args[0]['int'])
    if n < 0:
        raise Err()
    return n


def pyeval(code, st):
    """Reference evaluator of the argument-code fragment (Micheline JSON, already macro-expanded)."""
    if isinstance(code, list):
        for c in code:
            st = pyeval(c, st)
        return st
    if not isinstance(code, dict) or 'prim' not in code:
        raise Err()
    p, args = code['prim'], code.get('args', [])

    def need(n):
        if len(st) < n:
            raise Err()
    if p == 'DROP' and not args:
        need(1)
        return st[1:]
    if p == 'DROP':
        n = arg_int(args)
        need(n)
        return st[n:]
    if p == 'DUP' and not args:
        need(1)
        return [st[0]] + st
    if p == 'DUP':
        n = arg_int(args)
        if n < 1:
            raise Err()
        need(n)
        return [st[n - 1]] + st
    if p == 'SWAP' and not args:
        need(2)
        return [st[1], st[0]] + st[2:]
    if p == 'PAIR' and not args:
        need(2)
        return [('P', st[0], st[1])] + st[2:]
    if p == 'UNPAIR' and not args:
        need(1)
        if st[0][0] != 'P':
            raise Err()
        return [st[0][1], st[0][2]] + st[1:]
    if p in ('CAR', 'CDR') and not args:
        need(1)
        if st[0][0] != 'P':
            raise Err()
        return [st[0][1 if p == 'CAR' else 2]] + st[1:]
    if p == 'UNIT' and not args:
        return [('U',)] + st
    if p == 'RENAME' and not args:
        return st
    if p == 'FAILWITH' and not args:
        need(1)
        raise Failed(st[0])
    if p == 'COMPARE' and not args:
        need(2)
        return [('I', vcmp(st[0], st[1]))] + st[2:]
    if p in OPF and not args:
        need(1)
        if st[0][0] != 'I':
            raise Err()
        return [('B', OPF[p](st[0][1]))] + st[1:]
    if p == 'DIP':
        if len(args) == 1:
            n, body = 1, args[0]
        elif len(args) == 2:
            n, body = arg_int(args[:1]), args[1]
        else:
            raise Err()
        need(n)
        return st[:n] + pyeval(body, st[n:])
    if p == 'IF' and len(args) == 2:
        need(1)
        if st[0][0] != 'B':
            raise Err()
        return pyeval(args[0] if st[0][1] else args[1], st[1:])
    if p == 'IF_NONE' and len(args) == 2:
        need(1)
        if st[0][0] == 'N':
            return pyeval(args[0], st[1:])
        if st[0][0] == 'S':
            return pyeval(args[1], [st[0][1]] + st[1:])
        raise Err()
    if p == 'IF_LEFT' and len(args) == 2:
        need(1)
        if st[0][0] in 'LR':
            return pyeval(args[0] if st[0][0] == 'L' else args[1], [st[0][1]] + st[1:])
        raise Err()
    raise Err()


def build_tree(t, st):
    if t == 'L':
        if not st:
            raise Err()
        return st[0], st[1:]
    a, st = build_tree(t[0], st)
    b, st = build_tree(t[1], st)
    return ('P', a, b), st


def split_tree(t, v):
    if t == 'L':
        return [v]
    if v[0] != 'P':
        raise Err()
    return split_tree(t[0], v[1]) + split_tree(t[1], v[2])


def get_path(path, v):
    for c in path:
        if v[0] != 'P':
            raise Err()
        v = v[1] if c == 'A' else v[2]
    return v


def set_path(path, v, x):
    if not path:
        return x
    if v[0] != 'P':
        raise Err()
    if path[0] == 'A':
        return ('P', set_path(path[1:], v[1], x), v[2])
    return ('P', v[1], set_path(path[1:], v[2], x))


def fail_unit():
    raise Failed(('U',))


def ref_meaning(name, args, st):
    """Meaning of macro `name` with code arguments `args` on stack `st` per the Michelson reference.
    Returns the new stack; raises Err / Failed. None if the name has no reference meaning."""
    def top(kinds):
        if not st or st[0][0] not in kinds:
            raise Err()
        return st[0]
    m = re.fullmatch(r'(CMP|IFCMP|IF|ASSERT_CMP|ASSERT_)(EQ|NEQ|LT|GT|LE|GE)', name)
    if m:
        fam, op = m.groups()
        rest = st
        if 'CMP' in fam:
            if len(st) < 2:
                raise Err()
            z, rest = vcmp(st[0], st[1]), st[2:]
        else:
            z, rest = top('I')[1], st[1:]
        b = OPF[op](z)
        if fam == 'CMP':
            return [('B', b)] + rest
        if fam.startswith('IF'):
            if len(args) != 2:
                return None
            return pyeval(args[0] if b else args[1], rest)
        return rest if b else fail_unit()
    if name == 'FAIL':
        fail_unit()
    if name == 'ASSERT':
        return st[1:] if top('B')[1] else fail_unit()
    if name == 'ASSERT_NONE':
        return st[1:] if top('NS')[0] == 'N' else fail_unit()
    if name == 'ASSERT_SOME':
        return [st[0][1]] + st[1:] if top('NS')[0] == 'S' else fail_unit()
    if name == 'ASSERT_LEFT':
        return [st[0][1]] + st[1:] if top('LR')[0] == 'L' else fail_unit()
    if name == 'ASSERT_RIGHT':
        return [st[0][1]] + st[1:] if top('LR')[0] == 'R' else fail_unit()
    if name == 'IF_SOME':
        if len(args) != 2:
            return None
        return pyeval(args[0], [st[0][1]] + st[1:]) if top('NS')[0] == 'S' else pyeval(args[1], st[1:])
    if name == 'IF_RIGHT':
        if len(args) != 2:
            return None
        return pyeval(args[0] if top('LR')[0] == 'R' else args[1], [st[0][1]] + st[1:])
    m = re.fullmatch(r'D(II+)P', name)
    if m:
        n = len(m.group(1))
        if len(args) != 1:
            return None
        if len(st) < n:
            raise Err()
        return st[:n] + pyeval(args[0], st[n:])
    m = re.fullmatch(r'D(UU+)P', name)
    if m:
        n = len(m.group(1))
        if len(st) < n:
            raise Err()
        return [st[n - 1]] + st
    m = re.fullmatch(r'(UN)?(P[PAI]{3,}R)', name)
    if m:
        t = wf_tree(m.group(2))
        if t is None:
            return None
        if m.group(1):
            if not st:
                raise Err()
            return split_tree(t, st[0]) + st[1:]
        v, rest = build_tree(t, st)
        return [v] + rest
    m = re.fullmatch(r'C([AD]{2,})R', name)
    if m:
        if not st:
            raise Err()
        return [get_path(m.group(1), st[0])] + st[1:]
    m = re.fullmatch(r'SET_C([AD]+)R', name)
    if m:
        if len(st) < 2:
            raise Err()
        get_path(m.group(1), st[0])
        return [set_path(m.group(1), st[0], st[1])] + st[2:]
    m = re.fullmatch(r'MAP_C([AD]+)R', name)
    if m:
        if len(args) != 1:
            return None
        # the reference defines MAP_C[AD]+R by its expansion (the code sees different stacks for CAR and CDR)
        P = lambda n: {'prim': n}   # noqa: E731

        def ref_map(path):
            if path == 'A':
                return [P('DUP'), P('CDR'), {'prim': 'DIP', 'args': [[P('CAR'), args[0]]]}, P('SWAP'), P('PAIR')]
            if path == 'D':
                return [P('DUP'), P('CDR'), args[0], P('SWAP'), P('CAR'), P('PAIR')]
            if path[0] == 'A':
                return [P('DUP'), {'prim': 'DIP', 'args': [[P('CAR'), ref_map(path[1:])]]}, P('CDR'), P('SWAP'), P('PAIR')]
            return [P('DUP'), {'prim': 'DIP', 'args': [[P('CDR'), ref_map(path[1:])]]}, P('CAR'), P('PAIR')]
        return pyeval(ref_map(m.group(1)), st)
    return None


def ref_outcome(name, args, st):
    try:
        r = ref_meaning(name, args, list(st))
    except Err:
        return ('err',)
    except Failed as f:
        return ('fail', f.v)
    except RecursionError:
        return ('err',)
    return None if r is None else ('ok', r)


# ------------------------------------------------------------------------------------------------
# running the implementation
# ------------------------------------------------------------------------------------------------
def impl_expand(name, annots, args):
    from pytezos.michelson.macros import expand_macro
    ok, val = lib.call(expand_macro, name, list(annots), [a for a in args])
    if not ok:
        return None
    return val if isinstance(val, list) else ['<not a list>', val]


def impl_run(name, annots, args_text, stack):
    """Interpreter on PUSH…; NAME annots args. stack = [(type, value)] top first."""
    from pytezos.michelson.micheline import MichelsonRuntimeError
    from pytezos.michelson.parse import MichelsonParserError
    from pytezos.michelson.repl import Interpreter
    pushes = [f'PUSH {ty_text(t)} {val_text(v)}' for t, v in reversed(stack)]
    macro = ' '.join([name] + list(annots) + list(args_text))
    code = ' ; '.join(pushes + [macro])
    itp = Interpreter()
    ok, res = lib.call(itp.execute, code)
    if not ok or isinstance(res.error, MichelsonParserError):
        return code, None      # rejected before execution (parser / macro expansion)
    if res.error is None:
        return code, ('ok', [from_py(x) for x in itp.stack.items])
    e = res.error
    while e.__cause__ is not None:
        e = e.__cause__
    if isinstance(e, MichelsonRuntimeError) and len(e.args) == 2 and e.args[0] == 'FAILWITH':
        tb = e.__traceback__
        while tb.tb_next is not None:
            tb = tb.tb_next
        a = tb.tb_frame.f_locals.get('a')
        if a is not None and tb.tb_frame.f_code.co_name == 'execute':
            return code, ('fail', from_py(a))
    return code, ('err',)


ARG_POOL = ['{}', '{ DROP }', '{ UNIT }', '{ DUP }', '{ SWAP }', '{ FAIL }', '{ DUP ; FAILWITH }', '{ DROP ; UNIT }',
            '{ DUP ; PAIR }', '{ UNIT ; SWAP ; PAIR }', '{ CAR }', '{ DIP { DROP } }', '{ UNIT ; DIP { UNIT } ; COMPARE ; EQ }',
            '{ IF_NONE { UNIT } { DROP ; UNIT } }', '{ PAPAIR }', '{ DROP 2 }', '{ DUUP }',
            # bodies that START with a DIP-family instruction and continue after it
            '{ DIP { DROP } ; UNIT }', '{ DIP { UNIT } ; DROP }', '{ DIP 2 { UNIT } ; UNIT ; SWAP }', '{ DIIP { UNIT } ; UNIT }',
            '{ DIP { DIP { UNIT } } ; DUP }', '{ DIP { UNIT ; SWAP } }']
DIP_FIRST = [a for a in ARG_POOL if a.startswith('{ DI')]


def arg_combos(rng, ar):
    """code-argument tuples every macro with code arguments is tried with: empty blocks in every position, bodies starting with
    a DIP-family instruction, and PRNG choices"""
    X = lambda: rng.choice(ARG_POOL[1:])   # noqa: E731
    if ar == 2:
        return [('{}', '{}'), ('{}', X()), (X(), '{}'), (X(), X()), (rng.choice(DIP_FIRST), X())]
    if ar == 1:
        return [('{}',), (rng.choice(DIP_FIRST),), (rng.choice(DIP_FIRST),), (X(),)]
    return [()]


def stack_for(rng, name, texts):
    """matching stack; with DIP-family code arguments enough extra items below, so that the (more permissive) nested-DIP
    protection of the real interpreter on too-short stacks is not what is being observed"""
    return matching_stack(rng, name, extra=rng.choice([4, 5]) if any('DI' in t for t in texts) else None)

ANNOT_POOL = ['%a', '%b', '%c', '%', '@x', '@y', ':t', '%@', '@%', '@%%', '%long_name']
_parsed = {}


def parse_arg(text):
    from pytezos.michelson.parse import michelson_to_micheline
    if text not in _parsed:
        _parsed[text] = michelson_to_micheline(text)
    return _parsed[text]


def arity(name):
    if re.fullmatch(r'(IF|IFCMP)(EQ|NEQ|LT|GT|LE|GE)|IF_SOME|IF_RIGHT', name):
        return 2
    if re.fullmatch(r'D(II+)P|MAP_C[AD]+R', name):
        return 1
    return 0


def annots_allowed(name):
    return not re.fullmatch(r'FAIL|ASSERT|ASSERT_NONE|ASSERT_(CMP)?(EQ|NEQ|LT|GT|LE|GE)|D(II+)P|IF_SOME|IF_RIGHT', name)


def matching_stack(rng, name, extra=None):
    """A stack (list of (type, value), top first) on which the macro is meaningful."""
    tail = [(t, gen_value(rng, t)) for t in (gen_type(rng, 1) for _ in range(rng.choice([0, 1, 2, 3]) if extra is None else extra))]

    def cmp2():
        t = gen_type(rng, 2)
        v = gen_value(rng, t)
        return [(t, v), (t, near_value(rng, t, v))]
    INT = ('int',)
    if re.fullmatch(r'(CMP|IFCMP|ASSERT_CMP)(EQ|NEQ|LT|GT|LE|GE)', name):
        return cmp2() + tail
    if re.fullmatch(r'(IF|ASSERT_)(EQ|NEQ|LT|GT|LE|GE)', name):
        return [(INT, ('I', rng.choice([-1, 0, 1, -5, 7])))] + tail
    if name == 'ASSERT':
        return [(('bool',), ('B', rng.random() < 0.6))] + tail
    if name in ('ASSERT_NONE', 'ASSERT_SOME', 'IF_SOME'):
        t = ('option', gen_type(rng, 1))
        return [(t, gen_value(rng, t))] + tail
    if name in ('ASSERT_LEFT', 'ASSERT_RIGHT', 'IF_RIGHT'):
        t = ('or', gen_type(rng, 1), gen_type(rng, 1))
        return [(t, gen_value(rng, t))] + tail
    m = re.fullmatch(r'D(II+|UU+)P', name)
    if m:
        n = len(m.group(1))
        return [(t, gen_value(rng, t)) for t in (gen_type(rng, 1) for _ in range(n))] + tail
    m = re.fullmatch(r'(UN)?(P[PAI]{3,}R)', name)
    if m:
        t = wf_tree(m.group(2))
        if t is None:   # ill-formed: a stack long enough for any reading of the name
            k = len(m.group(2))
            if m.group(1):
                ty = INT
                for _ in range(rng.randrange(1, 4)):
                    ty = ('pair', INT, ty) if rng.random() < 0.6 else ('pair', ty, INT)
                return [(ty, gen_value(rng, ty))] + tail
            return [(INT, ('I', i)) for i in range(k)] + tail
        if m.group(1):
            def ty_of(tr):
                return gen_type(rng, 1) if tr == 'L' else ('pair', ty_of(tr[0]), ty_of(tr[1]))
            ty = ty_of(t)
            return [(ty, gen_value(rng, ty))] + tail
        return [(x, gen_value(rng, x)) for x in (gen_type(rng, 1) for _ in range(n_leaves(t)))] + tail
    m = re.fullmatch(r'(C|SET_C|MAP_C)([AD]+)R', name)
    if m:
        def ty_path(p):
            if not p:
                return gen_type(rng, 1)
            other = gen_type(rng, 1)
            return ('pair', ty_path(p[1:]), other) if p[0] == 'A' else ('pair', other, ty_path(p[1:]))
        ty = ty_path(m.group(2))
        st = [(ty, gen_value(rng, ty))]
        if m.group(1) == 'SET_C':
            t2 = gen_type(rng, 1)
            st.append((t2, gen_value(rng, t2)))
        return st + tail
    return tail


def perturb(rng, st):
    """a stack of non-matching shape: too short, or the top replaced by a value of another kind"""
    if st and rng.random() < 0.6:
        return st[:rng.randrange(0, len(st))]
    t = rng.choice([('unit',), ('int',), ('bool',)])
    return [(t, gen_value(rng, t))] + st[1:]


# ------------------------------------------------------------------------------------------------
def run(ctx: lib.Ctx) -> None:
    from pytezos.michelson.macros import macros
    from pytezos.michelson.tags import prim_tags
    import time
    T = {}
    t0 = time.time()
    ctx.extra['phase_seconds'] = T
    rng = ctx.rng
    maxlen = ctx.n(9, 12)
    ctx.rule = (f'syntactic: every name accepted by the macro regexes with len <= {maxlen} (plus all fixed names and every well-formed PAIR/UNPAIR tree up to 6/8 leaves; thorough: ill-formed PAIR names of length 10 are a 30% sample, of length 11-12 a 3% sample), each with its '
                'canonical annotation-free call and with PRNG-drawn annotations / argument counts, plus one-letter mutations of '
                'accepted names; semantic: real Interpreter on PUSH…;MACRO for every well-formed accepted name (quick: PAIR-tree '
                'names all, path names sampled) on PRNG-drawn stacks of matching shape and on perturbed stacks. '
                'non-trivial = expansion has >= 2 instructions or the run executes >= 2 primitive steps; distinct = distinct (name, annots, args[, stack])')
    violations = 0

    # ---- tables -------------------------------------------------------------------------------
    cases = [(cstr(n), copt('x%02x' % prim_tags[n][0])) for n in TAGS]
    bad = ctx.coq_mismatches('tags', IMPORTS, 'fun n => assoc n tag_table', 'option_eqb byte_eqb', 'string', 'option Byte.byte', cases)
    ctx.table('macro-prim-tags (25 primitives used by expansions and evaluator)')
    if bad:
        ctx.violation('primitive tag table differs from the model', {'correspondence': 'C19/prim_tags vs Macros.tag_table',
                                                                      'names': [TAGS[i] for i in bad]}, found=False)
        return
    overlap = [p for p in prim_tags if any(r.findall(p) for r, _ in macros)]
    ctx.table('no primitive name is matched by a macro regex')
    ctx.extra['macro_regexes'] = [r.pattern for r, _ in macros]
    if overlap:
        ctx.violation('a primitive name is matched by a macro regex', {'names': overlap, 'correspondence': 'C19/macros table'}, found=False)

    T['tables'] = round(time.time() - t0, 1)
    # ---- corpus of past disagreements (run first) ------------------------------------------------
    import glob
    import json
    import os

    def tup(x):
        return tuple(tup(y) for y in x) if isinstance(x, list) else x
    for path in sorted(glob.glob(os.path.join(lib.VERIF, 'corpus', PROP, '*.json'))):
        doc = json.load(open(path))
        st = [(tup(t), tup(v)) for t, v in doc['stack']]
        code, got = impl_run(doc['name'], doc['annots'], doc['args'], st)
        want = ref_outcome(doc['name'], [parse_arg(t) for t in doc['args']], [v for _, v in st])
        ctx.corpus_cases += 1
        ctx.case(('corpus', code), kind='corpus', sample={'code': code, 'interpreter': repr(got)[:200]})
        if want is not None and got != want:
            ctx.violation(f"macro {doc['name']}: the interpreter result differs from the reference meaning (corpus case {os.path.basename(path)})",
                          {'name': doc['name'], 'code': code, 'interpreter': got, 'reference_meaning': want,
                           'repro': f'Interpreter().execute({code!r})'}, found=True)
            violations += 1

    # ---- (1) syntactic correspondence ----------------------------------------------------------
    names = fixed_names() + list(family_names(maxlen))
    if ctx.thorough:
        # names of length 10-12 matched by the PAIR regexes that are NOT trees (no reference meaning): a 30 % (length 10) / 3 %
        # (length 11-12) PRNG sample
        # instead of all, to stay inside the CPU budget; everything else (all families up to length 12, every well-formed
        # tree up to 8 leaves) stays exhaustive
        def keep(n):
            if len(n) < 10 or not re.fullmatch(r'(UN)?P[PAI]{3,}R', n):
                return True
            return wf_tree(n[2:] if n.startswith('UN') else n) is not None or rng.random() < (0.30 if len(n) == 10 else 0.03)
        before = len(names)
        names = [n for n in names if keep(n)]
        ctx.extra['illformed_pair_names_len_10_12_sampled_out'] = before - len(names)
    # well-formed PAIR / UNPAIR trees are few: go deeper than the length bound for them (every tree shape)
    max_leaves = ctx.n(6, 8)
    seen = set(names)
    deep = [n for w in wf_tree_names(max_leaves) for n in (w, 'UN' + w) if n not in seen]
    names += deep
    ctx.extra['wellformed_tree_shapes_up_to_leaves'] = max_leaves
    ctx.extra['wellformed_tree_names_beyond_length_bound'] = len(deep)
    ctx.extra['accepted_names_enumerated'] = len(names)
    illformed = [n for n in names if re.fullmatch(r'(UN)?P[PAI]{3,}R', n) and wf_tree(n[2:] if n.startswith('UN') else n) is None]
    ctx.extra['illformed_pair_tree_names_reported_not_alarmed'] = len(illformed)
    ctx.extra['illformed_examples'] = illformed[:5]
    # every enumerated name is matched by exactly one regex; nothing else of that family shape is
    notone = [n for n in names if sum(1 for r, _ in macros if r.findall(n)) != 1]
    if notone:
        ctx.violation('enumerated name not matched by exactly one macro regex', {'names': notone[:10], 'correspondence': 'C19/macro regexes'}, found=False)
        return

    def variants(name, light=False):
        ar = arity(name)
        canon = tuple(rng.choice(ARG_POOL) for _ in range(ar))
        yield (), canon
        if ar:
            for combo in arg_combos(rng, ar):
                yield (), combo
        full = (len(name) <= ctx.n(7, 9) or not re.fullmatch(r'(UN)?P[PAI]{3,}R', name) or wf_tree(name[2:] if name.startswith('UN') else name)) \
            and not (light and ctx.thorough)
        if full or rng.random() < ctx.n(10, 30) / 100:
            k = rng.choice([1, 1, 2, 3, 4, 6])
            yield tuple(rng.choice(ANNOT_POOL) for _ in range(k)), canon
        if full:
            yield tuple(rng.sample(['%a', '%b', '%c', '%d', '%e', '%f', '%g'], rng.randrange(1, 7))) + (('@v',) if rng.random() < 0.5 else ()), canon
            wrong = ar + rng.choice([-1, 1, 2]) if ar else rng.choice([1, 2])
            yield (), tuple(rng.choice(ARG_POOL) for _ in range(max(wrong, 0)))

    mutated = set()
    pool = [n for n in names if len(n) <= 9]
    for _ in range(ctx.n(350, 2500)):
        n = rng.choice(pool)
        i = rng.randrange(len(n) + 1)
        k = rng.random()
        c = rng.choice('PAIRDUCN_SETMFXQ')
        m = n[:i] + c + n[i:] if k < 0.35 else (n[:i] + n[i + 1:] if k < 0.65 else n[:i] + c + n[i + 1:])
        if m and m not in prim_tags:
            mutated.add(m)
    mutated = sorted(mutated)
    name_set = set(names)
    mutated_only = set(mutated) - name_set
    ctx.extra['mutated_names'] = len(mutated)

    cases, meta = [], []
    for name in names + mutated:
        for annots, texts in variants(name, light=name in mutated_only):
            args = [parse_arg(t) for t in texts]
            out = impl_expand(name, annots, args)
            if out is not None and out and out[0] == '<not a list>':
                ctx.violation('expand_macro returned a non-list', {'name': name, 'out': out[1]}, found=False)
                return
            try:
                lit = copt(clist(lib.cnode(x) for x in out)) if out is not None else 'None'
            except (KeyError, lib.InternalError):
                lit = 'None'   # something that is not Micheline at all
            cases.append((f'({cstr(name)}, {clist(chex(a.encode()) for a in annots)}, {clist(lib.cnode(a) for a in args)})', lit))
            meta.append((name, annots, args, out, texts))
            kind = 'rejected' if out is None else ('mutated-accepted' if name in mutated_only else
                                                    re.sub(r'(EQ|NEQ|LT|GT|LE|GE)$', 'op', re.sub(r'[PAI]{3,}R$', '..R', re.sub(r'[AD]+R$', 'x..R', re.sub(r'(II+|UU+)P$', 'xxP', name)))))
            ctx.case(('syn', name, annots, repr(args)), nontrivial=out is not None and len(out) + sum(isinstance(x, list) for x in out) >= 2,
                     kind='syn:' + kind, sample={'expand_macro': [name, list(annots), args], 'result': out})
    T['syntactic_impl'] = round(time.time() - t0, 1)
    bad = ctx.coq_mismatches('expand', IMPORTS, "fun '(n, a, g) => expand n a g", 'code_eqb',
                             'string * list bytes * list node', 'option (list node)', cases)
    T['syntactic_coq'] = round(time.time() - t0, 1)
    ctx.extra['syntactic_cases'] = len(cases)
    if bad:
        name, annots, args, out, _texts = meta[bad[0]]
        rep = {'correspondence': 'C19/expand_macro vs Michelson.Macros.expand', 'name': name, 'annots': list(annots), 'args': args,
               'implementation': out, 'model': ctx.coq_eval(IMPORTS, f"let '(n, a, g) := {cases[bad[0]][0]} in expand n a g"),
               'disagreements': len(bad), 'repro': f'pytezos.michelson.macros.expand_macro({name!r}, {list(annots)!r}, {args!r})'}
        # search for a failing input of the property itself: run THE disagreeing macro (and, for the tree families,
        # every well-formed tree macro up to 7 leaves) on the real interpreter on stacks of matching shape, first with
        # pairwise distinct values, and compare with the reference meaning
        found = None
        bad_names = []
        for i in bad:
            if meta[i][0] not in bad_names:
                bad_names.append(meta[i][0])
        first_annots = {}
        for m in meta:
            first_annots.setdefault(m[0], m[1])
        cands = [(n, first_annots[n]) for n in bad_names[:60]]
        if any(re.fullmatch(r'(UN)?P[PAI]{3,}R', n) for n in bad_names):
            cands += [(n, ()) for w in wf_tree_names(7) for n in (w, 'UN' + w)]
        def attempt(cname, ann, texts, st):
            code, got = impl_run(cname, ann, texts, st)
            want = ref_outcome(cname, [parse_arg(t) for t in texts], [v for _, v in st])
            if want is not None and got is not None and got != want:
                return {'failing_macro': cname, 'code': code, 'interpreter': got, 'reference_meaning': want,
                        'repro': f'Interpreter().execute({code!r})'}
            return None
        # (a) the disagreeing calls themselves, with their actual code arguments
        for i in bad[:80]:
            cname, cannots, _a, _o, texts = meta[i]
            if len(texts) != arity(cname):
                continue
            for k in range(4):
                st = (distinct_stack(cname) if k == 0 else None) or stack_for(rng, cname, texts)
                ann = [a for a in cannots if annots_allowed(cname)]
                if cname.startswith('MAP_C') and sum(a.startswith('%') for a in ann) > 1:
                    ann = []
                found = attempt(cname, ann, list(texts), st)
                if found:
                    break
            if found:
                break
        # (b) the disagreeing names (and the tree families) with other arguments
        for cname, cannots in ([] if found else cands):
            ar = arity(cname)
            for k, texts in enumerate(arg_combos(rng, ar) + [()] * 2 if ar else [(), (), ()]):
                if len(texts) != ar:
                    continue
                st = (distinct_stack(cname) if k == 0 else None) or stack_for(rng, cname, texts)
                ann = [a for a in cannots if annots_allowed(cname)] if k % 2 == 0 else []
                if cname.startswith('MAP_C'):
                    ann = ann[:1]
                found = attempt(cname, ann, list(texts), st)
                if found:
                    break
            if found:
                break
        if found:
            rep.update(found)
            ctx.violation(f"macro {found['failing_macro']}: the interpreter result differs from the reference meaning", rep, found=True)
        else:
            ctx.violation('expand_macro no longer corresponds to the model the theorems are about', rep, found=False)
        violations += 1

    # ---- (2) semantic correspondence + (B) -------------------------------------------------------
    sem_names = []
    for n in names:
        if re.fullmatch(r'(UN)?P[PAI]{3,}R', n):
            body = n[2:] if n.startswith('UN') else n
            if wf_tree(body) is not None:
                sem_names.append(n)
            elif len(n) <= 7 or rng.random() < ctx.n(10, 3) / 1000:
                sem_names.append(n)
        elif re.fullmatch(r'C[AD]+R', n):
            if len(n) <= ctx.n(6, 9) or rng.random() < ctx.n(5, 20) / 100:
                sem_names.append(n)
        else:
            sem_names.append(n)
    reps = ctx.n(2, 4)
    cases, meta = [], []
    for name in sem_names:
        ar = arity(name)
        plan = [tuple(rng.choice(ARG_POOL) for _ in range(ar)) for _ in range(reps)]
        if ar and (not name.startswith('MAP_C') or len(name) <= 9):
            plan = arg_combos(rng, ar) + plan[:1]
        for rep_i, texts in enumerate(plan):
            texts = list(texts)
            annots = ()
            if annots_allowed(name) and rng.random() < 0.5:
                annots = tuple(rng.choice(['%a', '%b', '@x', '%c']) for _ in range(rng.randrange(1, 4)))
                if name.startswith('MAP_C') and sum(a.startswith('%') for a in annots) > 1:
                    annots = annots[:1]
            st = stack_for(rng, name, texts)
            if rep_i == 0 and distinct_stack(name) is not None:
                st = distinct_stack(name)
            shape = 'match'
            if rep_i == len(plan) - 1 and rng.random() < 0.7:
                st = perturb(rng, st)
                shape = 'perturbed'
            args = [parse_arg(t) for t in texts]
            code, got = impl_run(name, annots, texts, st)
            vals = [v for _, v in st]
            want = ref_outcome(name, args, vals)
            cases.append((f'({cstr(name)}, {clist(chex(a.encode()) for a in annots)}, {clist(lib.cnode(a) for a in args)}, '
                          f'{clist(cval(v) for v in vals)})', cres(got)))
            meta.append((name, annots, texts, st, code, got, want, shape))
            ctx.case(('sem', code), nontrivial=True, kind=f'sem:{shape}:{got[0] if got else "rejected"}',
                     sample={'code': code, 'interpreter': repr(got)[:300]})
            # (B): on stacks of matching shape the interpreter must realise the reference meaning; on perturbed stacks
            # the reference says "ill-typed" and the interpreter is only required not to succeed with a different stack
            if want is not None and got != want and violations < 3:
                if shape == 'match' or (want[0] != 'err' and got[0] != 'err'):
                    ctx.violation(f'macro {name}: the interpreter result differs from the reference meaning of the macro',
                                  {'name': name, 'code': code, 'interpreter': got, 'reference_meaning': want, 'stack_shape': shape,
                                   'repro': f'Interpreter().execute({code!r})'}, found=True)
                    violations += 1
    T['semantic_impl'] = round(time.time() - t0, 1)
    ctx.extra['semantic_cases'] = len(cases)
    ctx.extra['semantic_names'] = len(sem_names)
    bad = ctx.coq_mismatches('run', IMPORTS, "fun '(n, a, g, s) => expand_run n a g s", 'ores_eqb',
                             'string * list bytes * list node * stack', 'option res', cases)
    T['semantic_coq'] = round(time.time() - t0, 1)
    # perturbed stacks on which the interpreter is more permissive than the reference evaluator (nested DIP
    # protection quirk) are outside "stacks of matching shape": reported, not alarmed on
    bad_match = [i for i in bad if meta[i][7] == 'match']
    ctx.extra['perturbed_stack_disagreements_reported'] = len(bad) - len(bad_match)
    if bad_match and violations == 0:
        name, annots, texts, st, code, got, want, shape = meta[bad_match[0]]
        ctx.violation('the interpreter no longer corresponds to the reference evaluation of the model expansion',
                      {'correspondence': 'C19/Interpreter.execute vs Michelson.Macros.expand_run', 'name': name, 'code': code,
                       'interpreter': got, 'model': ctx.coq_eval(IMPORTS, f"let '(n, a, g, s) := {cases[bad_match[0]][0]} in expand_run n a g s"),
                       'disagreements': len(bad_match), 'repro': f'Interpreter().execute({code!r})'}, found=False)
