"""C29 — chain-history search. Correspondence: find_state_changes / find_state_change_intervals /
find_state_change of pytezos.rpc.search (real code, `get` a Python closure over a piecewise-constant
history) vs Client/Search.v, evaluated inside coqc; oracle (B): the list of state changes computed
directly from the history."""
import os
import sys

import lib
from lib import cZ, clist, copt

PROP = 'C29'
IMPORTS = 'From PV Require Import Client.Search.'


class History:
    """value d below the first breakpoint, then the value of the last breakpoint <= x"""

    def __init__(self, default, segs):
        self.default = default
        self.segs = sorted(segs)
        self.probes = 0

    def value(self, x):
        v = self.default
        for s, w in self.segs:
            if s <= x:
                v = w
            else:
                break
        return v

    def get(self, x):
        self.probes += 1
        return self.value(x)


def no_return(h: History, last, head) -> bool:
    """the property's hypothesis on [last, head]: once a value is left it never comes back"""
    seen, prev = set(), object()
    for x in range(last, head + 1):
        v = h.value(x)
        if v != prev:
            if v in seen:
                return False
            seen.add(v)
            prev = v
    return True


def true_changes(h: History, last, head):
    return [(l, h.value(l)) for l in range(last + 1, head + 1) if h.value(l) != h.value(l - 1)]


def guard(f):
    """RecursionError (unbounded bisect recursion) -> None, like the model's out-of-fuel; anything else is reported"""
    old = sys.getrecursionlimit()
    sys.setrecursionlimit(300)   # bisect over ranges <= 400 levels nests < 12 deep; the process-wide limit may be huge
    try:
        return ('ok', f())
    except RecursionError:
        return ('ok', None)
    except Exception as e:  # noqa: BLE001
        return ('err', f'{type(e).__name__}: {e}'[:200])
    finally:
        sys.setrecursionlimit(old)


def run_impl(search, h: History, head, last, step, pred):
    eq = lambda a, b: a == b  # noqa: E731
    h.probes = 0
    ch = guard(lambda: [tuple(x) for x in search.find_state_changes(head, last, h.get, eq, step)])
    probes = h.probes
    iv = guard(lambda: [tuple(x) for x in search.find_state_change_intervals(head, last, h.get, eq, step)])
    sg = guard(lambda: tuple(search.find_state_change(head, last, h.get, eq, pred)))
    return {'changes': ch, 'intervals': iv, 'single': sg, 'probes': probes}


def run_impl2(search, h: History, head, last, step, pred, m, as_dict):
    """values carry a drifting field that the caller's `equals` ignores (equals coarser than ==)"""
    if as_dict:
        get = lambda x: {'v': h.value(x), 'seen_at': x % m}            # noqa: E731
        eq = lambda a, b: a['v'] == b['v']                               # noqa: E731
        unpack = lambda d: (d['v'], d['seen_at'])                        # noqa: E731
        predv = {'v': pred, 'seen_at': 0}
    else:
        get = lambda x: (h.value(x), x % m)                              # noqa: E731
        eq = lambda a, b: a[0] == b[0]                                   # noqa: E731
        unpack = lambda t: (t[0], t[1])                                  # noqa: E731
        predv = (pred, 0)
    ch = guard(lambda: [(l, unpack(v)) for l, v in search.find_state_changes(head, last, get, eq, step)])
    sg = guard(lambda: (lambda r: (r[0], unpack(r[1])))(search.find_state_change(head, last, get, eq, predv)))
    return {'changes': ch, 'single': sg}


def cobs2(o):
    bad = o['changes'][0] != 'ok' or o['single'][0] != 'ok'
    trip = lambda l, v: f'({cZ(l)}, ({cZ(v[0])}, {cZ(v[1])}))'           # noqa: E731
    ch = 'None' if o['changes'][0] != 'ok' or o['changes'][1] is None else copt(clist(trip(l, v) for l, v in o['changes'][1]))
    sg = 'None' if o['single'][0] != 'ok' or o['single'][1] is None else copt(trip(*o['single'][1]))
    if bad:
        ch = '(Some [((-1)%Z, ((-1)%Z, (-1)%Z))])'
    return f'{{| o2_changes := {ch}; o2_single := {sg} |}}'


def spec_check2(h: History, head, last, step, pred, m, o):
    """(B) with a coarse equals: the state changes are the levels where the compared field changes; the value reported is the whole value"""
    if last > head or step < 1 or not no_return(h, last, head):
        return None
    want = [(l, (h.value(l), l % m)) for l in range(last + 1, head + 1) if h.value(l) != h.value(l - 1)]
    st, got = o['changes']
    if st != 'ok':
        return f'find_state_changes raised {got}'
    if got is None:
        return 'find_state_changes did not terminate (RecursionError)'
    if got != want:
        return (f'with equals comparing only the first field, reported {got}; the changes w.r.t. equals are {want}'
                + (f'; spurious {[x for x in got if x not in want]}' if any(x not in want for x in got) else '')
                + (f'; missed {[x for x in want if x not in got]}' if any(x not in got for x in want) else ''))
    if last < head and h.value(last) == pred and h.value(head) != pred:
        first = next(l for l in range(last + 1, head + 1) if h.value(l) != pred)
        st, sg = o['single']
        if st != 'ok' or sg != (first, (h.value(first), first % m)):
            return f'find_state_change (coarse equals) returned {sg}, the first level whose compared field differs from {pred} is {first}'
    return None


def ccase(head, last, step, h: History, pred):
    segs = clist(f'({cZ(s)}, {cZ(v)})' for s, v in h.segs)
    return (f'{{| c_head := {cZ(head)}; c_last := {cZ(last)}; c_step := {cZ(step)}; c_default := {cZ(h.default)}; '
            f'c_segs := {segs}; c_pred := {cZ(pred)} |}}')


def cobs(o):
    bad = False
    if o['changes'][0] == 'ok':
        ch = copt(None if o['changes'][1] is None else clist(f'({cZ(l)}, {cZ(v)})' for l, v in o['changes'][1]))
    else:
        ch, bad = 'None', True
    if o['intervals'][0] == 'ok' and o['intervals'][1] is not None:
        iv = clist(f'({cZ(a)}, {cZ(b)}, {cZ(c)}, {cZ(d)})' for a, b, c, d in o['intervals'][1])
    else:
        iv, bad = 'nil', True
    if o['single'][0] == 'ok':
        sg = copt(None if o['single'][1] is None else f'({cZ(o["single"][1][0])}, {cZ(o["single"][1][1])})')
    else:
        sg, bad = 'None', True
    if bad:  # an exception the model does not have: force a mismatch
        iv = '[((-1)%Z, (-1)%Z, (-1)%Z, (-1)%Z)]'
    return f'{{| o_changes := {ch}; o_intervals := {iv}; o_single := {sg} |}}'


def spec_check(h: History, head, last, step, pred, o):
    """(B) the property on the implementation's output; only where its hypothesis holds. reason or None"""
    if last > head or step < 1 or not no_return(h, last, head):
        return None
    want = true_changes(h, last, head)
    st, got = o['changes']
    if st != 'ok':
        return f'find_state_changes raised {got}'
    if got is None:
        return 'find_state_changes did not terminate (RecursionError)'
    if got != want:
        missing = [x for x in want if x not in got]
        extra = [x for x in got if x not in want]
        if missing or extra:
            return f'reported {got}, the state changes are {want}' + (f'; missed {missing}' if missing else '') + (f'; spurious {extra}' if extra else '')
        return f'reported {got}: not in increasing level order / duplicated (changes are {want})'
    if last < head and h.value(last) == pred and h.value(head) != pred:
        first = next(l for l in range(last + 1, head + 1) if h.value(l) != pred)
        st, sg = o['single']
        if st != 'ok' or sg != (first, h.value(first)):
            return f'find_state_change returned {sg}, the first level after {last} whose value differs from {pred} is {(first, h.value(first))}'
    return None


def gen_history(rng, last, head, mode):
    """breakpoints biased to the places where a search can go wrong"""
    width = head - last
    k = rng.choice([0, 1, 1, 2, 2, 3, 4, 5, 6])
    pts = set()
    special = [last + 1, head, last + 2, head - 1, (last + head) // 2, (last + head) // 2 + 1]
    while len(pts) < k and width > 0 and len(pts) < width:
        r = rng.random()
        if r < 0.35:
            p = rng.choice(special)
        elif r < 0.55 and pts:
            p = rng.choice(sorted(pts)) + rng.choice([1, -1])   # adjacent changes
        else:
            p = rng.randint(last + 1, head)
        if last < p <= head:
            pts.add(p)
    pts = sorted(pts)
    if rng.random() < 0.2:   # breakpoints outside the searched range must not matter
        pts = [last - rng.randint(0, 5)] + pts + [head + rng.randint(1, 5)]
    if mode == 'monotone':
        vals = list(range(1, len(pts) + 1))
        if rng.random() < 0.5:
            rng.shuffle(vals)          # distinct, any order: still never returns
        default = 0
    else:                              # values may come back: outside the property's hypothesis, correspondence only
        default = rng.randint(0, 2)
        vals = [rng.randint(0, 2) for _ in pts]
    return History(default, list(zip(pts, vals)))


def steps_for(rng, width, n, every):
    if every:
        return list(range(1, 121))
    cand = {1, 2, 3, 60, max(1, width - 1), max(1, width), width + 1, width + 7, max(1, width // 2), max(1, width // 2 + 1), max(1, width // 3)}
    out = set(rng.sample(sorted(cand), min(len(cand), max(1, n // 2))))
    while len(out) < n:
        out.add(rng.randint(1, 120))
    return sorted(out)


def run(ctx: lib.Ctx) -> None:
    import pytezos.rpc.search as search

    ctx.rule = ('random piecewise-constant histories (0..6 change points biased to last+1, head, adjacent levels, the middle; optional breakpoints '
                'outside the range) over ranges of width 0..400, each searched with several sampling steps out of 1..120 incl. 1, width-1, width, '
                'width+1, width/2 (thorough: every step 1..120); boundary families (single change at every offset of a small range x every step); '
                'a second stream with returning values and degenerate ranges (head <= last) for the correspondence only; histories whose values are dicts / tuples with a '
                'drifting field (level % m) and an `equals` that compares only the relevant field (coarser than ==), oracle = changes w.r.t. equals. '
                'non-trivial = the history changes inside (last, head]; distinct = distinct (range, step, history)')
    cases, meta = [], []

    def add(h, head, last, step, pred, kind):
        o = run_impl(search, h, head, last, step, pred)
        nch = len(true_changes(h, last, head)) if head - last <= 2000 else 0
        ctx.case((head, last, step, h.default, tuple(h.segs), pred), nontrivial=nch > 0, kind=kind,
                 sample={'head': head, 'last': last, 'step': step, 'history': {'default': h.default, 'breakpoints': h.segs},
                         'reported': o['changes'][1], 'get_calls': o['probes']})
        ctx.dist[f'changes:{min(nch, 6)}'] += 1
        cases.append((ccase(head, last, step, h, pred), cobs(o)))
        meta.append((h, head, last, step, pred, o))

    # 0. witnesses of repaired defects
    for fx in ctx.known.get('fixed', []):
        w = fx['witness']
        add(History(w['default'], [tuple(x) for x in w['breakpoints']]), w['head'], w['last'], w['step'], w['default'], 'fixed-witness')
        ctx.corpus_cases += 1

    import glob
    import json
    for path in sorted(glob.glob(os.path.join(lib.VERIF, 'corpus', PROP, '*.json'))):
        for w in json.load(open(path)):
            add(History(w['default'], [tuple(x) for x in w['breakpoints']]), w['head'], w['last'], w['step'], w.get('pred', w['default']), 'corpus')
            ctx.corpus_cases += 1

    # 1. boundary family: one change at every offset of a small range, every step up to width+2; and two adjacent changes
    for width in ([1, 2, 3, 7, 12] if not ctx.thorough else [1, 2, 3, 4, 5, 7, 8, 12, 16, 25]):
        last = ctx.rng.choice([0, 1, 99, 1000])
        head = last + width
        for p in range(last + 1, head + 1):
            for step in range(1, width + 3):
                add(History(5, [(p, 6)]), head, last, step, 5, 'boundary:single')
                if p + 1 <= head and width <= 12:
                    add(History(5, [(p, 6), (p + 1, 7)]), head, last, step, 5, 'boundary:adjacent')
    # 2. random histories satisfying the hypothesis
    for _ in range(ctx.n(220, 350)):
        width = ctx.rng.choice([0, 1, 2, 3, 5, 10, 59, 60, 61, 119, 120, 121, 240, 399, 400]) if ctx.rng.random() < 0.5 else ctx.rng.randint(0, 400)
        last = ctx.rng.choice([0, 1, 7, 1000, 4_000_000])
        head = last + width
        h = gen_history(ctx.rng, last, head, 'monotone')
        for step in steps_for(ctx.rng, width, 10, ctx.thorough):
            pred = h.value(last) if ctx.rng.random() < 0.85 else ctx.rng.randint(0, 3)
            add(h, head, last, step, pred, 'random:no-return')
    # 3. correspondence-only stream: returning values, degenerate ranges
    for _ in range(ctx.n(60, 300)):
        width = ctx.rng.randint(1, 200)
        last = ctx.rng.choice([0, 50])
        head = last + width
        h = gen_history(ctx.rng, last, head, 'returning')
        for step in steps_for(ctx.rng, width, 4, False):
            add(h, head, last, step, ctx.rng.randint(0, 2), 'random:returning-values')
    for _ in range(ctx.n(12, 40)):
        last = ctx.rng.randint(0, 50)
        head = last - ctx.rng.randint(0, 4)
        add(gen_history(ctx.rng, head - 3, last + 3, 'returning'), head, last, ctx.rng.randint(1, 5), ctx.rng.randint(0, 2), 'degenerate:head<=last')

    # 4. `equals` coarser than ==: values are dicts / tuples with a drifting field the caller's equals ignores
    cases2, meta2 = [], []
    for _ in range(ctx.n(120, 600)):
        width = ctx.rng.choice([1, 2, 3, 5, 10, 60, 61, 120, 200]) if ctx.rng.random() < 0.5 else ctx.rng.randint(1, 300)
        last = ctx.rng.choice([0, 1, 7, 1000])
        head = last + width
        h = gen_history(ctx.rng, last, head, 'monotone')
        for step in steps_for(ctx.rng, width, 4, False):
            m = ctx.rng.choice([1, 2, 3, 7, 1000003])
            as_dict = ctx.rng.random() < 0.5
            pred = h.value(last) if ctx.rng.random() < 0.85 else ctx.rng.randint(0, 3)
            o = run_impl2(search, h, head, last, step, pred, m, as_dict)
            nch = len(true_changes(h, last, head))
            ctx.case(('coarse', head, last, step, h.default, tuple(h.segs), pred, m), nontrivial=nch > 0, kind='coarse-equals:' + ('dict' if as_dict else 'tuple'),
                     sample={'head': head, 'last': last, 'step': step, 'history': {'default': h.default, 'breakpoints': h.segs},
                             'ignored_field': f'level % {m}', 'reported': o['changes'][1]})
            cases2.append((f'({ccase(head, last, step, h, pred)}, {cZ(m)})', cobs2(o)))
            meta2.append((h, head, last, step, pred, m, as_dict, o))
    bad2 = ctx.coq_mismatches(f'search2{os.getpid()}', IMPORTS, 'run_case2', 'obs2_eqb', 'case * Z', 'observation2', cases2, shard=400)
    fails2 = []
    for idx, (h, head, last, step, pred, m, as_dict, o) in enumerate(meta2):
        why = spec_check2(h, head, last, step, pred, m, o)
        if why:
            fails2.append((head - last, len(h.segs), step, idx, why))
    fails2.sort()
    for *_k, idx, why in fails2[:2]:
        h, head, last, step, pred, m, as_dict, o = meta2[idx]
        val = "{'v': v, 'seen_at': x % m}" if as_dict else '(v, x % m)'
        cmp_ = "a['v'] == b['v']" if as_dict else 'a[0] == b[0]'
        ctx.violation(f'history search violated: {why}',
                      {'head': head, 'last': last, 'step': step, 'pred_value': pred, 'history': {'default': h.default, 'breakpoints': h.segs},
                       'value_shape': val, 'm': m, 'equals': cmp_, 'reported': o['changes'][1], 'single_change_search': o['single'][1],
                       'repro': (f"from pytezos.rpc.search import find_state_changes; bp={h.segs!r}; m={m}; "
                                 f"hv=lambda x: ([{h.default}] + [v for s, v in bp if s <= x])[-1]; "
                                 f"get=lambda x: (lambda v: {val})(hv(x)); "
                                 f"print(list(find_state_changes({head}, {last}, get, lambda a, b: {cmp_}, {step})))")})

    bad = ctx.coq_mismatches(f'search{os.getpid()}', IMPORTS, 'run_case', 'obs_eqb', 'case', 'observation', cases, shard=400)

    fails = []
    for idx, (h, head, last, step, pred, o) in enumerate(meta):
        why = spec_check(h, head, last, step, pred, o)
        if why:
            fails.append((head - last, len(h.segs), step, idx, why))
    fails.sort()
    for *_k, idx, why in fails[:3]:
        h, head, last, step, pred, o = meta[idx]
        prev = None
        if idx > 0:   # searches run one after another in one process: state kept between calls (a cache) shows up only after an earlier search
            ph, phead, plast, pstep, _pp, _po = meta[idx - 1]
            prev = {'head': phead, 'last': plast, 'step': pstep, 'history': {'default': ph.default, 'breakpoints': ph.segs}}
        ctx.violation(f'history search violated: {why}',
                      {'head': head, 'last': last, 'step': step, 'pred_value': pred, 'history': {'default': h.default, 'breakpoints': h.segs},
                       'reported': o['changes'][1], 'expected': true_changes(h, last, head), 'single_change_search': o['single'][1],
                       'preceding_search_in_same_process': prev,
                       'note': 'if the repro passes in a fresh process, run the preceding search first (state carried between calls)',
                       'repro': (f"from pytezos.rpc.search import find_state_changes; bp={h.segs!r}; "
                                 f"get=lambda x: ([{h.default}] + [v for s, v in bp if s <= x])[-1]; "
                                 f"print(list(find_state_changes({head}, {last}, get, lambda a, b: a == b, {step})))")})
    if not fails and not fails2 and (bad or bad2):
        if not bad:
            h, head, last, step, pred, m, as_dict, o = meta2[bad2[0]]
            ctx.violation('implementation no longer corresponds to the model the theorems are about',
                          {'correspondence': 'C29/find_state_changes, find_state_change with an `equals` coarser than == vs Client.Search.run_case2',
                           'head': head, 'last': last, 'step': step, 'pred_value': pred, 'm': m, 'history': {'default': h.default, 'breakpoints': h.segs},
                           'observed': o, 'model': ctx.coq_eval(IMPORTS, f'run_case2 ({ccase(head, last, step, h, pred)}, {cZ(m)})'),
                           'disagreements': len(bad2)}, found=False)
            return
        h, head, last, step, pred, o = meta[bad[0]]
        ctx.violation('implementation no longer corresponds to the model the theorems are about',
                      {'correspondence': 'C29/pytezos.rpc.search.{find_state_changes, find_state_change_intervals, find_state_change} vs Client.Search',
                       'head': head, 'last': last, 'step': step, 'pred_value': pred, 'history': {'default': h.default, 'breakpoints': h.segs},
                       'observed': {k: o[k] for k in ('changes', 'intervals', 'single')},
                       'model': ctx.coq_eval(IMPORTS, f'run_case ({ccase(head, last, step, h, pred)})'), 'disagreements': len(bad)}, found=False)
