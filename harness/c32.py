"""C32 — View definitions are accepted exactly when Tezos accepts them.

Correspondence (A): ViewSection.match of /repo on  view "name" unit unit code  vs Michelson/View.v `view_accepts`,
by vm_compute inside coqc. Oracle (B): the rejection rule of the property written independently in Python
(path-based: SELF anywhere; TRANSFER_TOKENS / CREATE_CONTRACT / SET_DELEGATE with no LAMBDA / LAMBDA_REC / PUSH
ancestor; name longer than 31 or with a character outside [a-zA-Z0-9_.%@]) compared with the implementation's verdict.
Only views whose parts parse with Micheline.match are in the domain (checked per case on the code alone).
"""
import glob
import itertools
import json
import os
import re

import lib
from lib import cbool
from c05 import chex, cnode

PROP = 'C32'
IMPORTS = 'From PV Require Import Codec.Micheline Codec.Prims Michelson.View.'
PRELUDE = 'Definition chk (x : bytes * node) : bool := view_accepts (fst x) (snd x).\n'

RESTRICTED = ('TRANSFER_TOKENS', 'CREATE_CONTRACT', 'SET_DELEGATE')
INTRO = ('LAMBDA', 'LAMBDA_REC', 'PUSH')
UNIT = {'prim': 'unit'}
LAM_TY = {'prim': 'lambda', 'args': [UNIT, UNIT]}


def spec_accepts(name: str, code) -> bool:
    """the property's rule, independent of /repo and of the Coq model"""
    if len(name) > 31 or any(not (('a' <= c <= 'z') or ('A' <= c <= 'Z') or ('0' <= c <= '9') or c in '_.%@') for c in name):
        return False

    def walk(n, below):
        if isinstance(n, list):
            return all(walk(x, below) for x in n)
        p = n.get('prim')
        if p is None:
            return True
        if p == 'SELF':
            return False
        if p in RESTRICTED and not below:
            return False
        return all(walk(x, below or p in INTRO) for x in n.get('args') or [])

    return walk(code, False)


def impl_accepts(name, code):
    from pytezos.michelson.sections.view import ViewSection
    ok, val = lib.call(ViewSection.match, {'prim': 'view', 'args': [{'string': name}, UNIT, UNIT, code]})
    return ok, val


def parses(code) -> bool:
    from pytezos.michelson.micheline import Micheline
    return lib.call(Micheline.match, code)[0]


# ---------------------------------------------------------------------------------------------- code generators

def contract(body):
    return {'prim': 'CREATE_CONTRACT', 'args': [[{'prim': 'parameter', 'args': [UNIT]}, {'prim': 'storage', 'args': [UNIT]}, {'prim': 'code', 'args': [body]}]]}


LEAVES = [lambda: {'prim': 'DROP'}, lambda: {'prim': 'UNIT'}, lambda: {'prim': 'SELF'}, lambda: {'prim': 'TRANSFER_TOKENS'},
          lambda: {'prim': 'SET_DELEGATE'}, lambda: {'prim': 'PUSH', 'args': [{'prim': 'nat'}, {'int': '1'}]},
          lambda: {'prim': 'SELF', 'annots': ['%ep']}, lambda: {'prim': 'TRANSFER_TOKENS', 'annots': ['@op']}]
# wrappers: body (a sequence) -> instruction
WRAP1 = [
    ('DIP', lambda b: {'prim': 'DIP', 'args': [b]}),
    ('DIPn', lambda b: {'prim': 'DIP', 'args': [{'int': '2'}, b]}),
    ('LOOP', lambda b: {'prim': 'LOOP', 'args': [b]}),
    ('ITER', lambda b: {'prim': 'ITER', 'args': [b]}),
    ('MAP', lambda b: {'prim': 'MAP', 'args': [b]}),
    ('SEQ', lambda b: b),
    ('CREATE_CONTRACT', contract),
    ('LAMBDA', lambda b: {'prim': 'LAMBDA', 'args': [UNIT, UNIT, b]}),
    ('LAMBDA_REC', lambda b: {'prim': 'LAMBDA_REC', 'args': [UNIT, UNIT, b]}),
    ('PUSH_lambda', lambda b: {'prim': 'PUSH', 'args': [LAM_TY, b]}),
    ('PUSH_list_lambda', lambda b: {'prim': 'PUSH', 'args': [{'prim': 'list', 'args': [LAM_TY]}, [b, [{'prim': 'DROP'}]]]}),
    ('PUSH_pair_lambda', lambda b: {'prim': 'PUSH', 'args': [{'prim': 'pair', 'args': [{'prim': 'nat'}, LAM_TY]}, {'prim': 'Pair', 'args': [{'int': '1'}, b]}]}),
    ('PUSH_option_lambda', lambda b: {'prim': 'PUSH', 'args': [{'prim': 'option', 'args': [LAM_TY]}, {'prim': 'Some', 'args': [b]}]}),
]
WRAP2 = [
    ('IF', lambda a, b: {'prim': 'IF', 'args': [a, b]}),
    ('IF_NONE', lambda a, b: {'prim': 'IF_NONE', 'args': [a, b]}),
    ('IF_LEFT', lambda a, b: {'prim': 'IF_LEFT', 'args': [a, b]}),
]


def gen_code(rng, budget, p_bad=0.25):
    """a sequence of instructions with about `budget` nodes"""
    items = []
    n = rng.choice([0, 1, 1, 2, 3]) if budget > 1 else rng.choice([0, 1])
    for _ in range(n):
        k = rng.random()
        if budget <= 2 or k < 0.35:
            if rng.random() < p_bad:
                items.append(rng.choice(LEAVES[2:5] + LEAVES[6:])())
            else:
                items.append(rng.choice(LEAVES[:2] + LEAVES[5:6])())
        elif k < 0.85:
            items.append(rng.choice(WRAP1)[1](gen_code(rng, (budget - 1) // max(1, n), p_bad)))
        else:
            items.append(rng.choice(WRAP2)[1](gen_code(rng, (budget - 1) // (2 * max(1, n)), p_bad), gen_code(rng, (budget - 1) // (2 * max(1, n)), p_bad)))
    return items


def enumerate_small(depth):
    """all chains  w1(w2(...(leaf)))  of wrappers up to `depth`, each of the three kinds of leaf: the restricted
    instructions and SELF at every depth, inside or outside every kind of lambda body"""
    leaves = [{'prim': 'SELF'}, {'prim': 'TRANSFER_TOKENS'}, {'prim': 'SET_DELEGATE'}, contract([{'prim': 'DROP'}]), {'prim': 'DROP'}]
    for d in range(depth + 1):
        for ws in itertools.product(WRAP1, repeat=d):
            for leaf in leaves:
                x = [leaf]
                for _, w in reversed(ws):
                    x = [w(x)]
                yield x


def tree_nodes(t):
    if isinstance(t, list):
        return 1 + sum(tree_nodes(x) for x in t)
    return 1 + sum(tree_nodes(x) for x in t.get('args') or [])


# ---------------------------------------------------------------------------------------------- names

ALLOWED = 'abcdefghijklmnopqrstuvwxyzABCDEFGHIJKLMNOPQRSTUVWXYZ0123456789_.%@'
FORBIDDEN = [' ', '!', '#', '-', '/', ':', 'é', '\n', '\t', '$', '&', '*', '+', ',', ';', '<', '=', '>', '?', '[', '\\', ']', '^', '`', '{', '|', '}', '~',
             '"', "'", '(', ')', 'ß', 'É', 'а', 'Ａ', '٠', '\x00', '\x7f', 'ª']


def gen_names(rng, per_len):
    out = ['', 'a', '%', '@', '.', '_', 'a' * 31, 'a' * 32, 'Z' * 31, '9' * 32, 'abc\n', '\nabc', 'abc ', ' abc', 'a' * 31 + '\n', 'a-b', 'é' * 16, 'é' * 31, 'é' * 32,
           'a' * 30 + 'é', 'a' * 31 + 'é']
    for c in FORBIDDEN:
        out += [c, 'ab' + c, c + 'ab', 'a' + c + 'b']
    for n in range(0, 41):
        for _ in range(per_len):
            s = ''.join(rng.choice(ALLOWED) for _ in range(n))
            out.append(s)
            if n and rng.random() < 0.5:
                i = rng.randrange(n)
                out.append(s[:i] + rng.choice(FORBIDDEN) + s[i + 1:])
    return out


def run(ctx: lib.Ctx) -> None:
    rng = ctx.rng
    ctx.rule = ('names: every length 0..40 over the allowed alphabet, with and without one forbidden character (40 of them incl. space ! # - / : e-acute, newline, '
                'non-ASCII letters and digits) at every position class, boundary lengths 31/32; code: every chain of up to 2 (quick) / 3 (thorough) wrappers out of '
                '{DIP, DIP n, LOOP, ITER, MAP, nested sequence, CREATE_CONTRACT script, LAMBDA, LAMBDA_REC, PUSH of a lambda / list of lambdas / pair with lambda / option lambda} '
                'around each of SELF, TRANSFER_TOKENS, SET_DELEGATE, CREATE_CONTRACT, DROP; random instruction trees up to 40 nodes with IF/IF_NONE/IF_LEFT branching; '
                'non-trivial = code with at least 3 nodes or a name decided by its characters/length; distinct = distinct (name, code)')
    violations = 0

    def violate(what, replay, found=True):
        nonlocal violations
        if violations < 3:
            ctx.violation(what, replay, found=found)
        violations += 1

    # ---- fixed-defect witnesses
    for f in ctx.known.get('fixed', []):
        w = f.get('witness', {})
        if 'name' in w:
            ok, val = impl_accepts(w['name'], w['code'])
            ctx.case(('fixed', json.dumps(w, sort_keys=True)), nontrivial=False, kind='fixed-witness')
            if ok != w['accept']:
                violate(f"fixed defect is back: {f['what']}", {'name': w['name'], 'code': w['code'], 'accepted': ok, 'expected_accept': w['accept'],
                        'repro': "ViewSection.match({'prim':'view','args':[{'string':name},{'prim':'unit'},{'prim':'unit'},code]})"})

    inputs = []   # (kind, name, code)
    for path in sorted(glob.glob(os.path.join(lib.VERIF, 'corpus', PROP, '*.json'))):
        doc = json.load(open(path))
        ctx.corpus_cases += 1
        inputs.append(('corpus', doc['name'], doc['code']))
    ok_code = [{'prim': 'DROP'}, {'prim': 'LAMBDA', 'args': [UNIT, UNIT, [{'prim': 'TRANSFER_TOKENS'}]]}]
    for name in gen_names(rng, ctx.n(3, 12)):
        code = ok_code if rng.random() < 0.8 else gen_code(rng, 6, p_bad=0.1)
        inputs.append(('name', name, code))
    for code in enumerate_small(ctx.n(2, 3)):
        inputs.append(('chain', rng.choice(['v', 'get_x', 'a.b%c@d', '']), code))
    for _ in range(ctx.n(500, 5000)):
        inputs.append(('random', 'v', gen_code(rng, rng.choice([3, 6, 10, 16, 25, 40]), p_bad=rng.choice([0.05, 0.15, 0.3]))))
    for _ in range(ctx.n(20, 200)):   # code that is a single instruction rather than a sequence
        inputs.append(('single', 'v', rng.choice(WRAP1)[1](gen_code(rng, 4)) if rng.random() < 0.7 else rng.choice(LEAVES)()))

    cases, meta, seen = [], [], set()
    for kind, name, code in inputs:
        key = json.dumps([name, code], sort_keys=True)
        if key in seen:
            continue
        seen.add(key)
        if not parses(code):
            ctx.case(key, nontrivial=False, kind=kind + ':unparseable-code')
            continue
        try:
            nb = name.encode('utf-8')
        except UnicodeEncodeError:
            continue
        ok, val = impl_accepts(name, code)
        want = spec_accepts(name, code)
        size = tree_nodes(code)
        ctx.case(key, nontrivial=size >= 3 or kind == 'name', kind=f'{kind}:{"accepted" if ok else "rejected"}',
                 sample={'name': name, 'code': code if size < 10 else f'<{size} nodes>', 'accepted': ok} if rng.random() < 0.01 else None)
        ctx.dist[f'nodes<={[s for s in (2, 5, 10, 20, 50, 1000) if size <= s][0]}'] += 1
        cases.append((f'({chex(nb)}, {cnode(lib.canon_micheline(code))})', cbool(ok)))
        meta.append((name, code, ok, val))
        if ok != want:
            why = ('accepts a view Tezos rejects' if ok else 'rejects a view Tezos accepts')
            violate(f'ViewSection.match {why}', {'name': name, 'code': code, 'accepted': ok, 'spec_accepts': want, 'error': None if ok else repr(val)[:300],
                    'repro': "ViewSection.match({'prim':'view','args':[{'string':name},{'prim':'unit'},{'prim':'unit'},code]})"})

    eval_error = None
    try:
        bad = ctx.coq_mismatches('view', IMPORTS, 'chk', 'Bool.eqb', 'bytes * node', 'bool', cases, prelude=PRELUDE, shard=max(150, min(600, -(-len(cases) // lib.n_jobs()))))
    except lib.InternalError as e:   # never crash on what a modified implementation produced
        bad, eval_error = [], str(e)[-1500:]
    ctx.extra['cases'] = len(cases)
    if violations == 0 and (bad or eval_error):
        rep = {'correspondence': 'C32/ViewSection.match vs Michelson.View.view_accepts', 'disagreements': len(bad), 'model_evaluation_error': eval_error}
        if bad:
            i = min(bad, key=lambda j: len(cases[j][0]))
            name, code, ok, val = meta[i]
            rep.update({'name': name, 'code': code, 'impl_accepts': ok, 'model': ctx.coq_eval(IMPORTS, f'chk {cases[i][0]}', prelude=PRELUDE)[:500]})
        violate('implementation no longer corresponds to the model the theorems are about', rep, found=False)
