"""C28 — multi-node rotation. Correspondence: RpcMultiNode.request (real code; the per-node
RpcNode.request replaced by a recording stub that succeeds or raises on demand) vs
Client/MultiNode.v `run`, exhaustively over outcome scripts for 1..4 nodes."""
import itertools
import os

import requests

import lib
from lib import clist, cnat

PROP = 'C28'
IMPORTS = 'From PV Require Import Client.MultiNode.'

SYM = {'S': 'Success', 'R': 'RpcErr', 'C': 'ConnErr', 'O': 'OtherErr',
       'T': 'RpcErr',     # wire level: the node answers a transient 5xx through all built-in retries -> RpcError
       't': 'Success'}    # wire level: two transient 5xx, then 200 (retried on the same node)
PAUSES = (0, 0, 1, 89, 91, 3600, 86400)
BAD = 4999  # nat literal that no model run produces: forces a mismatch


def make_exc(sym, rng, node_mod):
    if sym == 'R':
        return node_mod.RpcError({'id': 'node.test', 'kind': 'temporary'})
    if sym == 'C':
        return rng.choice([requests.exceptions.ConnectionError, requests.exceptions.ReadTimeout,
                           requests.exceptions.ConnectTimeout, requests.exceptions.ChunkedEncodingError])('transport')
    return rng.choice([ValueError, KeyError, RuntimeError, TypeError, OSError])('other')


class Client:
    """One RpcMultiNode over n stubbed nodes, driven call by call."""

    def __init__(self, n, node_mod, rng, pattern=None):
        self.n = n
        self.node_mod = node_mod
        self.rng = rng
        # pattern: which address each position uses, e.g. (0, 0, 1) = ['a', 'a', 'b'] (an address listed twice)
        self.pattern = tuple(pattern) if pattern else tuple(range(n))
        self.uris = [f'http://node{k}.test:8732' for k in self.pattern]
        self.mn = node_mod.RpcMultiNode(list(self.uris))
        self.contacted = []   # per call: list of node positions (by object identity) that received a request
        self.contacted_uris = []
        self.events = []

    def position(self, node_self):
        nodes = getattr(self.mn, 'nodes', None)
        if isinstance(nodes, (list, tuple)):
            for k, nd in enumerate(nodes):
                if nd is node_self:
                    return k
        uri = getattr(node_self, 'uri', [None])[0]
        return self.uris.index(uri) if uri in self.uris else BAD

    def call(self, sym, stub_state):
        hits, hit_uris = [], []
        token = object()
        exc = None if sym == 'S' else make_exc(sym, self.rng, self.node_mod)

        def behaviour(node_self, method, path, **kw):
            hits.append(self.position(node_self))
            hit_uris.append(getattr(node_self, 'uri', [None])[0])
            if exc is not None:
                raise exc
            return token

        stub_state['f'] = behaviour
        ok, val = lib.call(self.mn.request, 'GET', f'/chains/main/blocks/head/{len(self.events)}', timeout=3)
        if len(hits) == 1 and ((ok and val is token and sym == 'S') or (not ok and val is exc)):
            ev = ('Sent', hits[0], sym)
        elif not hits and not ok and isinstance(val, AssertionError):
            ev = ('AssertFailed',)
        else:
            ev = ('Other', hits, f'{type(val).__name__}: {val}'[:120] if not ok else 'returned ' + repr(val)[:80])
        self.contacted.append(list(hits))
        self.contacted_uris.append(list(hit_uris))
        self.events.append(ev)
        return ev

    def final(self):
        v = getattr(self.mn, '_next_i', None)
        return v if isinstance(v, int) and 0 <= v < BAD else BAD


def run_impl(n, script, rng, node_mod, pattern=None):
    """Returns (events, final _next_i, contacted positions, contacted uris, configured uris)."""
    stub_state = {}
    saved = node_mod.RpcNode.request

    def stub(node_self, method, path, **kw):
        return stub_state['f'](node_self, method, path, **kw)

    node_mod.RpcNode.request = stub
    try:
        c = Client(n, node_mod, rng, pattern)
        for s in script:
            c.call(s, stub_state)
        return c.events, c.final(), c.contacted, c.contacted_uris, c.uris
    finally:
        node_mod.RpcNode.request = saved


def run_interleaved(n1, s1, n2, s2, rng, node_mod):
    """Two clients used alternately (each must rotate on its own)."""
    stub_state = {}
    saved = node_mod.RpcNode.request

    def stub(node_self, method, path, **kw):
        return stub_state['f'](node_self, method, path, **kw)

    node_mod.RpcNode.request = stub
    try:
        a, b = Client(n1, node_mod, rng), Client(n2, node_mod, rng)
        ia = ib = 0
        while ia < len(s1) or ib < len(s2):
            if ib >= len(s2) or (ia < len(s1) and rng.random() < 0.5):
                a.call(s1[ia], stub_state)
                ia += 1
            else:
                b.call(s2[ib], stub_state)
                ib += 1
        return ((a.events, a.final(), a.contacted, a.contacted_uris, a.uris),
                (b.events, b.final(), b.contacted, b.contacted_uris, b.uris))
    finally:
        node_mod.RpcNode.request = saved


ENTRIES = ('request', 'get', 'post', 'put', 'delete')


class FakeClock:
    """Replaces the clocks the implementation could consult (time.monotonic/time/perf_counter and any copy of them
    imported into pytezos.rpc.node); advanced explicitly between requests."""
    NAMES = ('monotonic', 'time', 'perf_counter', 'monotonic_ns', 'time_ns', 'perf_counter_ns')

    def __init__(self, node_mod):
        import time as _time
        self.t = 1_000_000.0
        self.time_mod, self.node_mod = _time, node_mod
        self.orig = {k: getattr(_time, k) for k in self.NAMES}
        self.saved_globals = {}

    def fake(self, name):
        if name.endswith('_ns'):
            return lambda: int(self.t * 1e9)
        return lambda: self.t

    def __enter__(self):
        fakes = {k: self.fake(k) for k in self.NAMES}
        for k, f in fakes.items():
            setattr(self.time_mod, k, f)
        for gname, val in list(vars(self.node_mod).items()):
            for k, o in self.orig.items():
                if val is o:
                    self.saved_globals[gname] = val
                    setattr(self.node_mod, gname, fakes[k])
        return self

    def __exit__(self, *a):
        for k, o in self.orig.items():
            setattr(self.time_mod, k, o)
        for gname, val in self.saved_globals.items():
            setattr(self.node_mod, gname, val)


def run_wire(n, script, entries, rng, node_mod, pauses=None):
    """Drive a multi-node client through its public entry points (request/get/post/put/delete) with the HTTP
    layer itself (pytezos.rpc.node.requests / sleep) replaced: the target node is read off the URL that is
    actually requested.  Same observation tuple as run_impl."""
    import json as _json
    uris = [f'http://node{k}.test:8732' for k in range(n)]
    urls, verbs, state = [], [], {}
    resolved = []

    class FakeRequests:
        exceptions = requests.exceptions
        Response = requests.Response

        @staticmethod
        def request(**kw):
            urls.append(str(kw.get('url')))
            verbs.append(str(kw.get('method')))
            return state['f']()

    def response(status, body, ctype='application/json'):
        r = requests.Response()
        r.status_code = status
        r.headers['content-type'] = ctype
        r._content = body if isinstance(body, bytes) else _json.dumps(body).encode()
        return r

    def transient(i):
        if rng.random() < 0.5:
            return response(rng.choice([500, 502, 503]), [{'kind': 'temporary', 'id': 'node.prevalidation.busy', 'tok': i}])
        return response(500, b'Fatal error: exception Assert_failure("src/lib_shell/prevalidator.ml", 1918, 4)', 'text/plain')

    saved = (node_mod.requests, node_mod.sleep)
    node_mod.requests = FakeRequests
    node_mod.sleep = lambda d: None
    events, contacted, contacted_uris = [], [], []
    clock = FakeClock(node_mod)
    try:
        clock.__enter__()
        mn = node_mod.RpcMultiNode(list(uris))
        for i, (sym, entry) in enumerate(zip(script, entries)):
            if pauses:
                clock.t += pauses[i]
            del urls[:]
            del verbs[:]
            tok = {'tok': i}
            exc = None
            if sym in 'SRTt':
                if sym == 'S':
                    seq = [response(200, tok)]
                elif sym == 'R':
                    seq = [rng.choice([response(500, [{'kind': 'permanent', 'id': 'node.test', 'tok': i}]),
                                       response(500, [{'kind': 'temporary', 'id': 'proto.alpha.michelson_v1.runtime_error'}]),
                                       response(500, b'Internal error', 'text/plain'), response(400, [{'kind': 'permanent', 'id': 'bad.request'}]),
                                       response(409, b'conflict', 'text/plain'), response(404, b'', 'text/plain'), response(401, b'', 'text/plain')])]
                elif sym == 'T':
                    seq = [transient(i) for _ in range(12)]
                else:
                    seq = [transient(i), transient(i), response(200, tok)]
                state['k'] = 0

                def nxt(seq=seq):
                    r = seq[min(state['k'], len(seq) - 1)]
                    state['k'] += 1
                    return r
                state['f'] = nxt
            else:
                exc = make_exc(sym, rng, node_mod)

                def boom(exc=exc):
                    raise exc
                state['f'] = boom
            path = f'/chains/main/blocks/head/{i}'
            if entry == 'request':
                verb = rng.choice(['GET', 'POST', 'PUT', 'DELETE'])
                resolved.append(f'request:{verb}')
                ok, val = lib.call(mn.request, verb, path, timeout=3)
            elif entry == 'post':
                resolved.append(entry)
                ok, val = lib.call(mn.post, path, json={'x': i})
            else:
                resolved.append(entry)
                ok, val = lib.call(getattr(mn, entry), path)
            hit_u, hits = [], []
            for u in urls:
                k = [j for j, base in enumerate(uris) if u.startswith(base + '/')]
                hit_u.append(uris[k[0]] if k else u)
                hits.append(k[0] if k else BAD)
            if sym in 'St':
                good = ok and (val == tok or (isinstance(val, requests.Response) and val.status_code == 200))
            elif sym in 'RT':
                good = (not ok) and isinstance(val, node_mod.RpcError)
            else:
                good = (not ok) and val is exc
            if hits and len(set(hits)) == 1 and len(set(verbs)) == 1 and verbs[0] in ('GET', 'POST', 'PUT', 'DELETE') and good:
                ev = ('Sent', hits[0], sym, verbs[0])
            elif not hits and not ok and isinstance(val, AssertionError):
                ev = ('AssertFailed',)
            else:
                ev = ('Other', hits, f'{type(val).__name__}: {val}'[:120] if not ok else 'returned ' + repr(val)[:80])
            events.append(ev)
            contacted.append(hits)
            contacted_uris.append(hit_u)
        v = getattr(mn, '_next_i', None)
        final = v if isinstance(v, int) and 0 <= v < BAD else BAD
        return events, final, contacted, contacted_uris, uris, resolved
    finally:
        clock.__exit__()
        node_mod.requests, node_mod.sleep = saved


def long_run(n, total, node_mod, jump=None):
    """One client, `total` requests through the position stub with a sprinkling of failures; oracle only
    (request i must reach node (start + i) mod n).  jump = (attribute values to plant on the instance before the
    run, start position): the rotation must simply continue.  Returns None or a dict describing the first bad request."""
    saved = node_mod.RpcNode.request
    log = []
    state = {'exc': None}

    def stub(node_self, method, path, **kw):
        log.append(node_self)
        if state['exc'] is not None:
            raise state['exc']
        return log

    rpc_err = node_mod.RpcError('x')
    conn_err = requests.exceptions.ConnectionError('x')
    node_mod.RpcNode.request = stub
    try:
        uris = [f'http://node{k}.test:8732' for k in range(n)]
        mn = node_mod.RpcMultiNode(list(uris))
        nodes = getattr(mn, 'nodes', None)
        pos = {id(nd): k for k, nd in enumerate(nodes)} if isinstance(nodes, (list, tuple)) else {}
        skip = 0
        start = 0
        if jump:
            for k, v in jump[0].items():
                setattr(mn, k, v)
            start, skip = None, 2       # planted state: let the client re-synchronise for two requests, then demand plain rotation
        prev = None
        for i in range(total):
            state['exc'] = rpc_err if i % 11 == 3 else conn_err if i % 97 == 5 else None
            del log[:]
            try:
                mn.request('GET', '/chains/main/blocks/head')
            except Exception:  # noqa: BLE001  (the scripted failure, or the implementation's own)
                pass
            got = [pos.get(id(x), BAD) for x in log]
            if start is not None:
                want = (start + i) % n
            else:
                want = (prev + 1) % n if (prev is not None and i >= skip) else None
            if len(got) != 1 or (want is not None and got[0] != want):
                return {'nodes': n, 'request_number': i, 'went_to': got, 'expected_node': want,
                        'failures': 'request k raises RpcError when k % 11 == 3, ConnectionError when k % 97 == 5',
                        'planted_state': jump[0] if jump else None}
            prev = got[0]
        return None
    finally:
        node_mod.RpcNode.request = saved


def int_attrs(node_mod):
    mn = node_mod.RpcMultiNode(['http://a.test', 'http://b.test', 'http://c.test'])
    return sorted(k for k, v in vars(mn).items() if isinstance(v, int) and not isinstance(v, bool))


def spec_oracle(n, script, obs):
    """(B) the property itself on the implementation's observation: request i reaches node i mod n
    (exactly one node), whatever happened before."""
    events, _final, contacted, contacted_uris, uris = obs[:5]
    distinct = len(set(uris)) == len(uris)
    for i, hits in enumerate(contacted):
        # what is visible on the wire is the address; with distinct addresses that is the node position itself
        # EVERY HTTP request of call i (built-in retries included) must go to the node the rotation assigned
        if not hits or set(contacted_uris[i]) != {uris[i % n]} or (distinct and set(hits) != {i % n}):
            where = f'{contacted_uris[i]} (position {hits})' if hits else 'no node'
            return i, (f'request {i} of a client over {uris} went to {where}, expected node {i % n} = {uris[i % n]} '
                       f'(earlier outcomes: {"".join(script[:i])})')
    for i, ev in enumerate(events):
        if ev[0] != 'Sent' or ev[2] != script[i]:
            return i, f'request {i}: the caller did not receive the outcome of the contacted node ({ev})'
    return None


def coq_case(n, script):
    return f'({cnat(n)}, {clist(SYM[s] for s in script)})'


def coq_obs(obs):
    events, final = obs[0], obs[1]
    out = []
    for ev in events:
        if ev[0] == 'Sent':
            out.append(f'Sent {cnat(min(ev[1], BAD))} {SYM[ev[2]]}')
        elif ev[0] == 'AssertFailed':
            out.append('AssertFailed')
        else:
            out.append(f'Sent {cnat(BAD)} Success')
    return f'({clist(out)}, {cnat(final)})'


CALL = {'get': 'CGet', 'post': 'CPost', 'put': 'CPut', 'delete': 'CDelete'}


def coq_call(entry):
    return f'(CRequest {entry.split(":")[1]})' if entry.startswith('request:') else CALL[entry]


def coq_wire_case(n, script, resolved, pauses):
    pz = pauses or [0] * len(script)
    return f'({cnat(n)}, {clist(f"(({p})%Z, ({coq_call(e)}, {SYM[s]}))" for p, e, s in zip(pz, resolved, script))})'


def coq_wire_obs(obs):
    out = []
    for ev in obs[0]:
        if ev[0] == 'Sent':
            out.append(f'Wire {cnat(min(ev[1], BAD))} {ev[3]} {SYM[ev[2]]}')
        elif ev[0] == 'AssertFailed':
            out.append('WAssert')
        else:
            out.append(f'Wire {cnat(BAD)} GET Success')
    return f'({clist(out)}, {cnat(obs[1])})'


def scripts(ctx):
    """(n, script) pairs: exhaustive part."""
    out = []
    if ctx.thorough:
        plans = [('SR', 11), ('SRC', 8), ('SRCO', 6)]
    else:
        plans = [('SR', 9), ('SC', 7), ('SRCO', 4)]
    seen = set()
    for alpha, maxlen in plans:
        for ln in range(0, maxlen + 1):
            for tup in itertools.product(alpha, repeat=ln):
                if tup in seen:
                    continue
                seen.add(tup)
                for n in (1, 2, 3, 4):
                    out.append((n, tup))
    return out


def run(ctx: lib.Ctx) -> None:
    import pytezos.rpc.node as node_mod

    ctx.rule = ('exhaustive: every outcome script over {Success, RpcError} up to length 9, {Success, transport error} up to 7 and '
                '{Success, RpcError, transport error, other exception} up to length 4 (thorough: 2 outcomes up to 11, 3 up to 8, 4 up to 6) '
                'for 1..4 nodes with distinct addresses, per-node RpcNode.request stubbed (node identified by object position); the same over 8 node lists '
                'that repeat an address (e.g. a,a,b / a,b,a,c) with scripts up to length 8 (thorough 10); the client driven through every public entry point '
                '(request/get/post/put/delete, mixed, uniform, and one odd call among requests) with pytezos.rpc.node.requests stubbed and the target of EVERY HTTP request read off the URL, incl. nodes answering transient 5xx through all retries, and with the clocks stubbed and pauses of 0 s .. 1 day between requests; plus random scripts of length 11..60 for 1..7 nodes and pairs of '
                'clients used alternately; one long run of 70 000 requests per n in {3,5,6,7} (oracle only; counters that wrap) and short runs from planted '
                'integer state (every valid _next_i; any other int attribute of the instance set near 2^8 .. 2^64). non-trivial = at least one failing outcome before the last request and n >= 2; '
                'distinct = distinct (n, script)')
    cases, meta, cidx = [], [], []

    def add(n, script, obs, kind):
        script = tuple(script)
        nontriv = n >= 2 and any(s != 'S' for s in script[:-1])
        ctx.case((n, script, tuple(obs[4])), nontrivial=nontriv, kind=kind,
                 sample={'nodes': n, 'uris': obs[4], 'script': ''.join(script), 'targets': [h for h in obs[2]], 'final_next_i': obs[1]})
        cases.append((coq_case(n, script), coq_obs(obs)))
        cidx.append(len(meta))
        meta.append((n, script, obs))

    # witnesses of repaired defects (findings/C28.json "fixed")
    for fx in ctx.known.get('fixed', []):
        w = fx['witness']
        add(w['nodes'], w['script'], run_impl(w['nodes'], w['script'], ctx.rng, node_mod), 'fixed-witness')
        ctx.corpus_cases += 1
    for n, script in scripts(ctx):
        obs = run_impl(n, script, ctx.rng, node_mod)
        add(n, script, obs, f'n{n}:len{len(script)}')
    # the same address listed more than once: rotation is over positions, every listed position gets its turn
    patterns = [(0, 0), (0, 0, 1), (0, 1, 0), (0, 1, 1), (0, 1, 0, 2), (0, 0, 1, 1), (0, 1, 2, 0), (0, 0, 0, 1)]
    for pat in patterns:
        n = len(pat)
        for alpha, maxlen in ([('SR', 8), ('SRCO', 3)] if not ctx.thorough else [('SR', 10), ('SRCO', 4)]):
            for ln in range(n, maxlen + 1):
                for tup in itertools.product(alpha, repeat=ln):
                    add(n, tup, run_impl(n, tup, ctx.rng, node_mod, pat), f'repeated-address:n{n}')
    # every public entry point, HTTP layer stubbed, target read off the requested URL
    wcases, wmeta = [], []

    def add_wire(n, tup, entries, kind, pauses=None):
        obs = run_wire(n, tup, entries, ctx.rng, node_mod, pauses)
        script = tuple(tup)
        ctx.case((n, script, tuple(entries), tuple(pauses or ())), nontrivial=n >= 2 and len(script) > 1, kind=kind,
                 sample={'nodes': n, 'script': ''.join(script), 'entry_points': list(entries), 'pauses_s': pauses, 'urls': obs[3], 'final_next_i': obs[1]})
        ctx.dist.update(f'entry:{e}' for e in entries)
        resolved = obs[5]
        wcases.append((coq_wire_case(n, script, resolved, pauses), coq_wire_obs(obs)))
        wmeta.append(len(meta))
        meta.append((n, script, obs[:5] + (resolved, pauses)))

    for n in (1, 2, 3, 4):
        for ln in range(1, ctx.n(4, 5) + 1):                       # mixed entry points
            for tup in itertools.product('SRCO', repeat=ln):
                add_wire(n, tup, [ctx.rng.choice(ENTRIES) for _ in tup], 'wire:mixed')
    for n in (2, 3, 4):                                           # node answers: persistent transient 5xx, transient then ok, permanent 5xx / 4xx / 401 / 404
        for ln in range(1, ctx.n(4, 5) + 1):
            for tup in itertools.product('STtR', repeat=ln):
                if 'T' in tup or 't' in tup:
                    add_wire(n, tup, [ctx.rng.choice(ENTRIES) for _ in tup], 'wire:http-responses')
    for n in (2, 3, 4):                                           # pauses between requests (clocks of pytezos.rpc.node stubbed): rotation must not depend on elapsed time
        for ln in range(2, ctx.n(4, 5) + 1):
            for pz in itertools.product((0, 89, 91, 86400), repeat=ln - 1):
                tup = tuple(ctx.rng.choice('SSRC') for _ in range(ln))
                add_wire(n, tup, [ctx.rng.choice(ENTRIES) for _ in tup], 'wire:pauses', [0] + list(pz))
        for _ in range(ctx.n(60, 400)):
            ln = ctx.rng.randrange(2, 12)
            tup = tuple(ctx.rng.choice('SSRCTt') for _ in range(ln))
            add_wire(n, tup, [ctx.rng.choice(ENTRIES) for _ in tup], 'wire:pauses', [ctx.rng.choice(PAUSES) for _ in range(ln)])
    for entry in ENTRIES:                                         # one entry point throughout, and one odd call among plain requests
        for n in (2, 3, 4):
            for ln in range(1, ctx.n(5, 8) + 1):
                for tup in itertools.product('SR', repeat=ln):
                    add_wire(n, tup, [entry] * ln, f'wire:all-{entry}')
            for ln in range(2, ctx.n(5, 7) + 1):
                for k in range(ln):
                    tup = tuple(ctx.rng.choice('SRC') for _ in range(ln))
                    add_wire(n, tup, ['request'] * k + [entry] + ['request'] * (ln - k - 1), f'wire:one-{entry}')
    # random long scripts, more nodes
    for _ in range(ctx.n(150, 1500)):
        n = ctx.rng.choice([1, 2, 3, 4, 5, 7])
        ln = ctx.rng.randrange(11, 61)
        p_fail = ctx.rng.choice([0.1, 0.5, 0.9, 1.0])
        script = [ctx.rng.choice('RCO') if ctx.rng.random() < p_fail else 'S' for _ in range(ln)]
        add(n, script, run_impl(n, script, ctx.rng, node_mod), f'random:n{n}')
    # two clients interleaved
    for _ in range(ctx.n(100, 1000)):
        n1, n2 = ctx.rng.choice([2, 3, 4]), ctx.rng.choice([1, 2, 3, 4])
        s1 = [ctx.rng.choice('SRCO') for _ in range(ctx.rng.randrange(1, 12))]
        s2 = [ctx.rng.choice('SRCO') for _ in range(ctx.rng.randrange(1, 12))]
        o1, o2 = run_interleaved(n1, s1, n2, s2, ctx.rng, node_mod)
        add(n1, s1, o1, 'interleaved')
        add(n2, s2, o2, 'interleaved')
    ctx.extra['exhaustive'] = True

    bad = ctx.coq_mismatches(f'multinode{os.getpid()}', IMPORTS, 'run_case', 'obs_eqb', 'nat * list outcome', 'list event * nat',
                             cases, shard=ctx.n(1000, 2000))

    # long runs (oracle only, no literal): counters that wrap (2^16 ...) only show after many requests
    long_fail = []
    for n in (3, 5, 6, 7):
        total = 70_000
        r = long_run(n, total, node_mod)
        ctx.case(('long-run', n, total), nontrivial=True, kind='long-run', sample={'nodes': n, 'requests': total, 'first_bad_request': r})
        if r:
            long_fail.append(r)
    attrs = int_attrs(node_mod)
    ctx.extra['int_state_attributes'] = attrs
    for n in (3, 5, 7):
        for k0 in range(n):                         # every valid _next_i as a start state
            r = long_run(n, 3 * n + 2, node_mod, jump=({'_next_i': k0}, None)) if '_next_i' in attrs else None
            ctx.case(('jump', n, '_next_i', k0), nontrivial=True, kind='planted-state')
            if r:
                long_fail.append(r)
        for a in attrs:
            if a == '_next_i':
                continue
            for base in (2 ** 8, 2 ** 15, 2 ** 16, 2 ** 31, 2 ** 32, 2 ** 63, 2 ** 64):
                for d in (-3, -2, -1, 0):
                    v = base + d
                    planted = {a: v}
                    if '_next_i' in attrs:
                        planted['_next_i'] = v % n
                    r = long_run(n, 3 * n + 6, node_mod, jump=(planted, None))
                    ctx.case(('jump', n, a, v), nontrivial=True, kind='planted-state')
                    if r:
                        long_fail.append(r)
    long_fail.sort(key=lambda r: (r['planted_state'] is not None, r['request_number'], r['nodes']))
    for r in long_fail[:2]:
        if r['planted_state'] is None:
            what = (f"rotation violated: request {r['request_number']} of a long-running {r['nodes']}-node client went to node(s) {r['went_to']}, "
                    f"expected node {r['expected_node']} = {r['request_number']} mod {r['nodes']}")
            repro = (f"c = RpcMultiNode([{r['nodes']} uris]); stub RpcNode.request to record the node; send {r['request_number'] + 1} requests "
                     f"({r['failures']}); compare the node of the last one with {r['request_number']} % {r['nodes']} (harness/c28.py long_run)")
        else:
            what = (f"rotation violated: a {r['nodes']}-node client whose integer state is {r['planted_state']} (as after very many requests) sends request "
                    f"{r['request_number']} after that to node(s) {r['went_to']} instead of continuing the rotation with node {r['expected_node']}")
            repro = (f"c = RpcMultiNode([{r['nodes']} uris]); for k, v in planted_state.items(): setattr(c, k, v); stub RpcNode.request; send "
                     f"{r['request_number'] + 1} requests; consecutive requests must go to consecutive nodes (harness/c28.py long_run)")
        ctx.violation(what, {**r, 'repro': repro})

    wbad = ctx.coq_mismatches(f'multinodewire{os.getpid()}', IMPORTS, 'run_timed_case', 'wire_obs_eqb',
                              'nat * list (BinNums.Z * (call * outcome))', 'list wire_event * nat', wcases, shard=ctx.n(1000, 2000))
    bad = sorted([cidx[i] for i in bad] + [wmeta[i] for i in wbad])

    # (B) on every observation; report the shortest failing scripts
    fails = []
    for idx, (n, script, obs) in enumerate(meta):
        why = spec_oracle(n, script, obs)
        if why:
            fails.append((why[0], len(script), idx, why[1]))
    fails.sort()
    for at, _ln, idx, why in fails[:2]:
        n, script, obs = meta[idx]
        short = list(script[:at + 1])
        entry_points = obs[5][:at + 1] if len(obs) > 5 else ['request'] * (at + 1)
        pauses = obs[6][:at + 1] if len(obs) > 6 and obs[6] else None
        ctx.violation(f'rotation violated: {why}',
                      {'nodes': n, 'uris': obs[4], 'script': short, 'entry_points': entry_points, 'pause_before_each_request_s': pauses, 'legend': 'S success, R RpcError (permanent 5xx/4xx/401/404), C requests ConnectionError/Timeout, O other exception, T transient 5xx through all retries, t two transient 5xx then 200',
                       'contacted_positions': obs[2][:at + 1], 'contacted_uris': obs[3][:at + 1], 'events': [list(e) for e in obs[0][:at + 1]],
                       'repro': f"c = RpcMultiNode({obs[4]!r}); call c.<entry_points[i]>(path) for i = 0..{at} with the HTTP layer "
                                f"(pytezos.rpc.node.requests.request, or RpcNode.request when every entry point is 'request') stubbed to produce the "
                                f"outcomes {short!r} in turn (harness/c28.py run_wire / run_impl); compare the address requested by call i with uris[i % {n}]"})
    if not fails and not long_fail and bad:
        n, script, obs = meta[bad[0]][:3]
        ctx.violation('implementation no longer corresponds to the model the theorems are about',
                      {'correspondence': 'C28/RpcMultiNode.request vs Client.MultiNode.run', 'nodes': n, 'uris': obs[4], 'script': list(script),
                       'observed': {'events': [list(e) for e in obs[0]], 'final_next_i': obs[1]},
                       'model': ctx.coq_eval(IMPORTS, f'run_case {coq_case(n, script)}'), 'disagreements': len(bad)}, found=False)
