"""C15 — big_map operations and lazy diffs agree with a layered dictionary model.

Every case is one call of the real `Interpreter.run_code` on a generated contract whose code performs a history of
UPDATE / GET_AND_UPDATE / GET / MEM on the big_map in its storage and conses every result onto a list in the storage.
The big_map is a bare id backed by on-chain entries (served by a stub shell that answers
`shell.blocks[b].context.big_maps[id][key_hash]()` from a table indexed by the *independently computed* script-expression
hash of the packed key), a literal, or empty.  Observed: the GET/MEM/GET_AND_UPDATE results and the emitted lazy_diff.
(A) Michelson/BigMap.v [bm_case] evaluates the same history inside coqc (oracles kh / chain given as tables);
(B) a Python dictionary layered over the chain table gives the expected observations; the diff applied to the chain
    table must equal the final dictionary; every diff entry's key_hash must equal blake2b(PACK key) in base58 'expr'."""
from __future__ import annotations

import hashlib
import json

import lib
from lib import cbool, clist, cZ
import c03_vals as V

PROP = 'C15'
IMPORTS = 'From PV Require Import Michelson.Compare Michelson.Collections Michelson.BigMap.'

KEY_TYPES = [('string',), ('int',), ('nat',), ('bytes',), ('pair', ('int',), ('string',)), ('or', ('int',), ('string',)),
             ('option', ('int',)), ('address',), ('key_hash',), ('pair', ('string',), ('pair', ('bool',), ('nat',))),
             ('or', ('unit',), ('bytes',)), ('pair', ('address',), ('nat',)),
             # key types whose OPTIMIZED form differs from the readable one: the key hash is the hash of the packed optimized form
             ('timestamp',), ('timestamp',), ('key',), ('signature',), ('chain_id',), ('address',), ('key_hash',),
             ('pair', ('timestamp',), ('key_hash',)), ('option', ('chain_id',)), ('or', ('timestamp',), ('key',)), ('pair', ('signature',), ('timestamp',)),
             ('pair', ('int',), ('pair', ('string',), ('pair', ('bool',), ('nat',)))),      # 4-comb: legacy PACK keeps nested pairs
             ('pair', ('pair', ('nat',), ('nat',)), ('pair', ('string',), ('pair', ('int',), ('pair', ('bytes',), ('unit',)))))]


# ------------------------------------------------------------------------------------ independent PACK + script_expr

def _zarith(n: int) -> bytes:
    sign = n < 0
    n = abs(n)
    b = n & 0x3f
    n >>= 6
    out = [b | (0x40 if sign else 0) | (0x80 if n else 0)]
    while n:
        c = n & 0x7f
        n >>= 7
        out.append(c | (0x80 if n else 0))
    return bytes(out)


def _len4(b: bytes) -> bytes:
    return len(b).to_bytes(4, 'big') + b


TAG = {'False': 3, 'Left': 5, 'None': 6, 'Pair': 7, 'Right': 8, 'Some': 9, 'True': 10, 'Unit': 11}


def _enc(v) -> bytes:
    k = v[0]
    if k == 'int':
        return b'\x00' + _zarith(v[1])
    if k == 'str':
        return b'\x01' + _len4(v[1].encode('ascii'))
    if k == 'bytes':
        return b'\x0a' + _len4(v[1])
    if k == 'bool':
        return bytes([3, TAG['True' if v[1] else 'False']])
    if k == 'unit':
        return bytes([3, TAG['Unit']])
    if k == 'none':
        return bytes([3, TAG['None']])
    if k == 'pair':
        return bytes([7, TAG['Pair']]) + _enc(v[1]) + _enc(v[2])
    if k in ('some', 'left', 'right'):
        return bytes([5, TAG[k.capitalize()]]) + _enc(v[1])
    if k == 'kh':
        return b'\x0a' + _len4(bytes([V.CURVES.index(v[1])]) + v[2])
    if k == 'key':
        return b'\x0a' + _len4(bytes([V.CURVES.index(v[1])]) + v[2])
    if k == 'sig':
        return b'\x0a' + _len4(v[1])
    if k == 'cid':
        return b'\x0a' + _len4(v[1])
    if k == 'addr':
        kind, h, ep = v[1], v[2], v[3]
        if kind.startswith('tz'):
            raw = b'\x00' + bytes([int(kind[2]) - 1]) + h
        else:
            raw = bytes([{'KT1': 1, 'txr1': 2, 'sr1': 3}[kind]]) + h + b'\x00'
        return b'\x0a' + _len4(raw + (ep or '').encode('ascii'))
    raise AssertionError(v)


def script_expr(v) -> str:
    packed = b'\x05' + _enc(v)
    return V.b58check(V.PREFIX['expr'], hashlib.blake2b(packed, digest_size=32).digest())


# ------------------------------------------------------------------------------------ stub node

class _Leaf:
    def __init__(self, table, log, ptr, kh):
        self.table, self.log, self.ptr, self.kh = table, log, ptr, kh

    def __call__(self):
        from pytezos.rpc.node import RpcError
        self.log.append((self.ptr, self.kh))
        v = self.table.get((self.ptr, self.kh))
        if v is None:
            raise RpcError('big map value not found')
        return v            # the Micheline of the stored value


class _Idx:
    def __init__(self, f):
        self.f = f

    def __getitem__(self, k):
        return self.f(k)


class StubShell:
    """shell.blocks[block_id].context.big_maps[ptr][key_hash]()"""

    def __init__(self, table):
        self.log = []
        ctx = type('Ctx', (), {})()
        ctx.big_maps = _Idx(lambda ptr: _Idx(lambda kh: _Leaf(table, self.log, ptr, kh)))
        blk = type('Blk', (), {})()
        blk.context = ctx
        self.blocks = _Idx(lambda bid: blk)


# ------------------------------------------------------------------------------------ contract generation

def opt_src(z):
    return 'None' if z is None else f'(Some {z})'


RECORD = 'DIG 2; SWAP; CONS; SWAP'       # result bm obs  ->  bm (result :: obs)


def linear(script):
    """The linear history a script with forks stands for: a fork DUPs the big_map, applies updates to the copy and
    then either keeps the copy (dropping the original: the updates count) or drops it (the updates must leave no trace)."""
    out = []
    for ins in script:
        if ins[0] == 'fork':
            if ins[1]:
                out.extend(ins[2])
        else:
            out.append(ins)
    return out


def instr_src(ts, ins, vt):
    if ins[0] == 'fork':
        inner = '; '.join(instr_src(ts, u, vt) for u in ins[2])
        return f'DUP; {inner + "; " if inner else ""}' + ('SWAP; DROP' if ins[1] else 'DROP')
    op, k = ins[0], V.value_src(ins[1])
    if op == 'update':
        return f'{vt.push_opt(ins[2])}; PUSH {ts} {k}; UPDATE'
    if op == 'gau':
        return f'{vt.push_opt(ins[2])}; PUSH {ts} {k}; GET_AND_UPDATE; {RECORD}'
    if op == 'get':
        return f'DUP; PUSH {ts} {k}; GET; {RECORD}'
    # MEM answers are recorded as Some <literal 1> / Some <literal 0> of the value type
    return f'DUP; PUSH {ts} {k}; MEM; IF {{ {vt.push_opt(1)} }} {{ {vt.push_opt(0)} }}; {RECORD}'


def contract_src(t, script, vt=V.VT_INT, via_param=False):
    ts = V.type_src(t)
    if vt.ticket:
        # non-duplicable values: updates only, then ONE consuming MEM whose answer is the only observation;
        # the storage gets a fresh empty big_map back
        body = '; '.join(instr_src(ts, i, vt) for i in script[:-1])
        k = V.value_src(script[-1][1])
        return (f'parameter unit; storage (pair (big_map {ts} {vt.src}) (list bool)); '
                f'code {{ CDR; UNPAIR; {body + "; " if body else ""}PUSH {ts} {k}; MEM; CONS; EMPTY_BIG_MAP {ts} {vt.src}; PAIR; NIL operation; PAIR }}')
    body = '; '.join(instr_src(ts, i, vt) for i in script)
    if via_param:
        # the on-chain big_map arrives by id in the PARAMETER (a big_map copy: temporary id aliasing the source);
        # the storage's own (empty) big_map is dropped and the copy is stored
        return (f'parameter (big_map {ts} {vt.src}); storage (pair (big_map {ts} {vt.src}) (list (option {vt.src}))); '
                f'code {{ UNPAIR; SWAP; CDR; SWAP; {body + "; " if body else ""}PAIR; NIL operation; PAIR }}')
    return (f'parameter unit; storage (pair (big_map {ts} {vt.src}) (list (option {vt.src}))); '
            f'code {{ CDR; UNPAIR; {body + "; " if body else ""}PAIR; NIL operation; PAIR }}')


def run_impl(t, universe, ptr, chain, lit, script, vt=V.VT_INT, via_param=False):
    """-> (observations, diff dict, storage) or a failure string. chain: {canon key: (key, value code)}."""
    from pytezos.michelson.parse import michelson_to_micheline
    from pytezos.michelson.repl import Interpreter
    table = {(ptr, script_expr(k)): vt.micheline(v) for k, v in chain.values()} if ptr is not None else {}
    shell = StubShell(table)
    if ptr is not None:
        bm = {'int': str(ptr)}
    else:
        bm = [{'prim': 'Elt', 'args': [m, vt.micheline(z)]} for m, (k, z) in zip(V.literal_michelines(t, [k for k, _ in lit]), lit)]
    storage = {'prim': 'Pair', 'args': [[] if via_param else bm, []]}
    src = contract_src(t, script, vt, via_param)
    ok, res = lib.call(Interpreter.run_code, bm if via_param else {'prim': 'Unit'}, storage, michelson_to_micheline(src), shell=shell, block_id='head')
    if not ok:
        return f'run_code raised {type(res).__name__}: {res}'[:300], src
    operations, new_storage, lazy_diff, stdout, error = res
    if error is not None:
        return f'run_code failed: {error}'[:300], src
    return (new_storage, lazy_diff, shell.log, None if vt.ticket else merged_view(t, universe, table, new_storage, lazy_diff, vt)), src


def merged_view(t, universe, table, new_storage, lazy_diff, vt=V.VT_INT):
    """pytezos' own application of a diff: BigMapType(id).merge_lazy_diff(lazy_diff) over the on-chain content,
    then GET of every key of the universe. Returns {canon key: value|None} or a failure string."""
    from pytezos.context.impl import ExecutionContext
    from pytezos.michelson.parse import michelson_to_micheline
    from pytezos.michelson.types.base import MichelsonType

    def go():
        ty = MichelsonType.match(michelson_to_micheline(f'big_map {V.type_src(t)} {vt.src}'))
        new_id = int(new_storage['args'][0]['int'])
        # the node after the operation would serve the old entries under the (possibly new) id
        tbl = {(new_id, kh): v for (_, kh), v in table.items()}
        bm = ty.from_micheline_value({'int': str(new_id)})
        bm.attach_context(ExecutionContext(shell=StubShell(tbl), block_id='head'))
        merged = bm.merge_lazy_diff(lazy_diff)
        out = {}
        for k in universe:
            val = merged.get(ty.args[0].from_micheline_value(V.value_micheline(k)), dup=False)
            out[V.value_src(k)] = None if val is None else vt.decode(val)
        return out
    ok, r = lib.call(go)
    return r if ok else f'merge_lazy_diff/get raised {type(r).__name__}: {r}'[:200]


def decode_impl(t, universe, script, res, vt=V.VT_INT):
    """observations + diff in harness terms, or a string when the output has an unexpected shape."""
    new_storage, lazy_diff, log, merged = res
    uni = {json.dumps(V.value_micheline(v), sort_keys=True): v for v in universe}
    try:
        args = new_storage['args']
        obs_list = args[1] if len(args) == 2 else args[1:]
        raw = []
        if vt.ticket:
            assert len(obs_list) == 1 and obs_list[0]['prim'] in ('True', 'False')
            return {'obs': [('bool', obs_list[0]['prim'] == 'True')], 'items': [], 'removed': [], 'action': lazy_diff[0]['diff']['action'],
                    'id': int(lazy_diff[0]['id']), 'has_types': True, 'merged': None, 'ticket': True}
        for o in obs_list:
            raw.append(None if o['prim'] == 'None' else vt.decode_micheline(o['args'][0]))
        raw.reverse()
        obs = []
        it = iter(raw)
        for ins in script:
            if ins[0] in ('gau', 'get'):
                obs.append(('opt', next(it)))
            elif ins[0] == 'mem':
                x = next(it)
                obs.append(('bool', {1: True, 0: False}[x]))
        assert next(it, 'end') == 'end'
        assert len(lazy_diff) == 1 and lazy_diff[0]['kind'] == 'big_map'
        d = lazy_diff[0]
        assert str(d['id']) == str(int(args[0]['int']))
        items, removed = [], []
        for u in d['diff']['updates']:
            key = uni.get(json.dumps(lib.canon_micheline(V.norm_out(t, u['key'])), sort_keys=True), ('str', '<<foreign key>>'))
            if 'value' in u:
                items.append((key, u['key_hash'], vt.decode_micheline(u['value'])))
            else:
                removed.append((key, u['key_hash']))
        return {'obs': obs, 'items': items, 'removed': removed, 'action': d['diff']['action'], 'id': int(d['id']),
                'has_types': 'key_type' in d['diff'], 'merged': merged}
    except (KeyError, AssertionError, ValueError, TypeError, StopIteration, IndexError) as e:
        return f'unexpected output shape ({type(e).__name__}: {e})'


# ------------------------------------------------------------------------------------ reference (B)

def reference(t, ptr, chain, lit, script):
    cur = {c: kv for c, kv in chain.items()} if ptr is not None else {V.canon(k): (k, z) for k, z in lit}
    obs = []
    for ins in script:
        c = V.canon(ins[1])
        if ins[0] in ('update', 'gau'):
            if ins[0] == 'gau':
                obs.append(('opt', cur[c][1] if c in cur else None))
            if ins[2] is None:
                cur.pop(c, None)
            else:
                cur[c] = (ins[1], ins[2])
        elif ins[0] == 'get':
            obs.append(('opt', cur[c][1] if c in cur else None))
        else:
            obs.append(('bool', c in cur))
    return obs, cur


def oracle(t, universe, ptr, chain, lit, script, out, vt=V.VT_INT, via_param=False):
    """The property on the implementation's output. Returns a reason or None."""
    want_obs, final = reference(t, ptr, chain, lit, script)
    if out.get('ticket'):
        # non-duplicable values: the single consuming MEM is the observation
        return None if out['obs'] == want_obs[-1:] else f'MEM on a big_map of tickets answered {out["obs"]}, the layered dictionary gives {want_obs[-1:]}'
    if out['obs'] != want_obs:
        i = next((i for i in range(min(len(want_obs), len(out['obs']))) if out['obs'][i] != want_obs[i]), None)
        return f'observation {i} is {out["obs"][i] if i is not None else "missing"}, the layered dictionary gives {want_obs[i] if i is not None else "another count"}'
    for key, h, *_ in out['items'] + out['removed']:
        if key[0] == 'str' and key[1] == '<<foreign key>>':
            return 'the diff mentions a key that was never used'
        if h != script_expr(key):
            return f'diff entry for {V.value_src(key)} carries key_hash {h}, the script-expression hash of the packed key is {script_expr(key)}'
    # apply the diff to the on-chain content (indexed by key hash)
    store = {script_expr(k): z for k, z in chain.values()} if ptr is not None else {}
    for key, h, z in out['items']:
        store[h] = z
    for key, h in out['removed']:
        store.pop(h, None)
    want_store = {script_expr(k): z for k, z in final.values()}
    if store != want_store:
        return 'the lazy diff applied to the on-chain content does not give the final dictionary'
    want_view = {V.value_src(k): (final[V.canon(k)][1] if V.canon(k) in final else None) for k in universe}
    if out['merged'] != want_view:
        return f'merge_lazy_diff of the emitted diff over the on-chain big_map answers GET with {out["merged"]}, the final dictionary is {want_view}'
    if via_param:
        # (the new id comes from the context's allocation counter, which starts at 0 offline: it may equal the source id)
        if out['action'] != 'copy':
            return f'diff of an on-chain big_map passed in the parameter has action {out["action"]} (source {ptr})'
        return None
    if ptr is not None and (out['action'] != 'update' or out['id'] != ptr):
        return f'diff of an existing big_map has action {out["action"]} / id {out["id"]}'
    if ptr is None and (out['action'] != 'alloc' or not out['has_types']):
        return f'diff of a fresh big_map has action {out["action"]}'
    return None


# ------------------------------------------------------------------------------------ two on-chain big_maps in one run (oracle only)

RECORD2 = 'DIG 3; SWAP; CONS; DUG 2'     # result A B obs  ->  A B (result :: obs)


def two_maps_src(t, script, vt):
    ts = V.type_src(t)
    parts = []
    for which, ins in script:
        k = V.value_src(ins[1])
        if ins[0] == 'update':
            code = f'{vt.push_opt(ins[2])}; PUSH {ts} {k}; UPDATE'
        elif ins[0] == 'gau':
            code = f'{vt.push_opt(ins[2])}; PUSH {ts} {k}; GET_AND_UPDATE; {RECORD2}'
        elif ins[0] == 'get':
            code = f'DUP; PUSH {ts} {k}; GET; {RECORD2}'
        else:
            code = f'DUP; PUSH {ts} {k}; MEM; IF {{ {vt.push_opt(1)} }} {{ {vt.push_opt(0)} }}; {RECORD2}'
        parts.append(code if which == 'A' else f'SWAP; {code}; SWAP')
    body = '; '.join(parts)
    return (f'parameter unit; storage (pair (pair (big_map {ts} {vt.src}) (big_map {ts} {vt.src})) (list (option {vt.src}))); '
            f'code {{ CDR; UNPAIR; UNPAIR; {body + "; " if body else ""}PAIR; PAIR; NIL operation; PAIR }}')


def run_two_maps(t, pool, ids, chains, script, vt):
    """Two on-chain-backed big_maps (different ids, overlapping keys, disagreeing values) in one run_code call.
    Returns a reason (string) when the layered-dictionary reference is contradicted, else None; plus the contract."""
    from pytezos.michelson.parse import michelson_to_micheline
    from pytezos.michelson.repl import Interpreter
    table = {}
    for which in (0, 1):
        for k, v in chains[which].values():
            table[(ids[which], script_expr(k))] = vt.micheline(v)
    src = two_maps_src(t, script, vt)
    storage = {'prim': 'Pair', 'args': [{'prim': 'Pair', 'args': [{'int': str(ids[0])}, {'int': str(ids[1])}]}, []]}
    ok, res = lib.call(Interpreter.run_code, {'prim': 'Unit'}, storage, michelson_to_micheline(src), shell=StubShell(table), block_id='head')
    if not ok:
        return f'run_code raised {type(res).__name__}: {res}'[:300], src, None
    operations, new_storage, lazy_diff, stdout, error = res
    if error is not None:
        return f'run_code failed: {error}'[:300], src, None
    # reference
    cur = [dict(chains[0]), dict(chains[1])]
    want = []
    for which, ins in script:
        d = cur[0 if which == 'A' else 1]
        c = V.canon(ins[1])
        if ins[0] in ('update', 'gau'):
            if ins[0] == 'gau':
                want.append(d[c][1] if c in d else None)
            if ins[2] is None:
                d.pop(c, None)
            else:
                d[c] = (ins[1], ins[2])
        elif ins[0] == 'get':
            want.append(d[c][1] if c in d else None)
        else:
            want.append(1 if c in d else 0)
    try:
        args = new_storage['args']
        obs_list = args[-1] if isinstance(args[-1], list) else []
        got = [None if o['prim'] == 'None' else vt.decode_micheline(o['args'][0]) for o in obs_list]
        got.reverse()
        observers = [x for _, x in script if x[0] != 'update']
        out = {'obs': [('bool', g == 1) if x[0] == 'mem' else ('opt', g) for g, x in zip(got, observers)] if len(got) == len(observers) else None,
               'slots': []}
        why = None
        if got != want:
            i = next((i for i in range(min(len(got), len(want))) if got[i] != want[i]), None)
            why = (f'observation {i} ({script[[j for j, (_, x) in enumerate(script) if x[0] != "update"][i]] if i is not None else "count"}) is '
                   f'{got[i] if i is not None else len(got)}, the layered dictionary of that big_map gives {want[i] if i is not None else len(want)}')
        uni = {json.dumps(V.value_micheline(v), sort_keys=True): v for v in pool}
        for which in (0, 1):
            d = next((x for x in lazy_diff if x['kind'] == 'big_map' and str(x['id']) == str(ids[which])), None)
            if d is None or d['diff']['action'] != 'update':
                return f'no update diff for big_map {ids[which]}', src, None
            store = {script_expr(k): z for k, z in chains[which].values()}
            items, removed = [], []
            for u in d['diff']['updates']:
                key = uni.get(json.dumps(lib.canon_micheline(V.norm_out(t, u['key'])), sort_keys=True))
                if key is None or u['key_hash'] != script_expr(key):
                    return f'diff of big_map {ids[which]} has a foreign key or a wrong key_hash', src, None
                if 'value' in u:
                    store[u['key_hash']] = vt.decode_micheline(u['value'])
                    items.append((key, u['key_hash'], store[u['key_hash']]))
                else:
                    store.pop(u['key_hash'], None)
                    removed.append((key, u['key_hash']))
            out['slots'].append((ids[which], items, removed))
            if why is None and store != {script_expr(k): z for k, z in cur[which].values()}:
                why = f'the diff of big_map {ids[which]} applied to its on-chain content does not give its final dictionary'
    except (KeyError, IndexError, TypeError, ValueError, AssertionError) as e:
        return f'unexpected output shape ({type(e).__name__}: {e})', src, None
    return why, src, (out if out['obs'] is not None else None)


def gen_two_maps(rng):
    t = rng.choice(KEY_TYPES)
    pool = [_small(V.gen_value(rng, t))]
    tries = 0
    while len(pool) < 4 and tries < 30:
        tries += 1
        v = _small(V.mutate(rng, t, rng.choice(pool)) if rng.random() < 0.8 else V.gen_value(rng, t))
        if V.canon(v) not in [V.canon(x) for x in pool]:
            pool.append(v)
    vt = rng.choice(V.VALUE_TYPES[:6])
    n = 6 if vt.is_int else len(vt.lits)
    chains = [{}, {}]
    for i, v in enumerate(pool):
        a = rng.randrange(n)
        b = (a + 1 + rng.randrange(n - 1)) % n          # a value different from a
        mode = rng.random()
        if i == 0 or mode < 0.45:                        # in both maps, with different values
            chains[0][V.canon(v)] = (v, a)
            chains[1][V.canon(v)] = (v, b)
        elif mode < 0.7:
            chains[0][V.canon(v)] = (v, a)               # only in the first
        elif mode < 0.9:
            chains[1][V.canon(v)] = (v, b)               # only in the second
    ids = rng.choice([(7, 8), (0, 1), (8, 7), (12, 99999)])
    script = []
    for _ in range(rng.randrange(4, 15)):
        k = rng.random()
        key = rng.choice(pool)
        which = rng.choice('AB')
        if k < 0.45:
            script.append((which, ('get', key)))
            if rng.random() < 0.6:                       # the same key in the other map right afterwards
                script.append(('B' if which == 'A' else 'A', ('get' if rng.random() < 0.7 else 'mem', key)))
        elif k < 0.6:
            script.append((which, ('mem', key)))
        elif k < 0.85:
            script.append((which, ('update', key, vt.gen(rng) if rng.random() < 0.5 else None)))
        else:
            script.append((which, ('gau', key, vt.gen(rng) if rng.random() < 0.5 else None)))
    return t, pool, ids, chains, script, vt


# ------------------------------------------------------------------------------------ generation

def _small(v):
    """integers below 2^80 (a key is rendered many times in one case)"""
    if v[0] == 'int' and abs(v[1]) >= 2 ** 40:
        return ('int', abs(v[1]) % (2 ** 31))          # (for timestamps: inside the RFC3339 range, where readable != optimized)
    if v[0] == 'int':
        return ('int', v[1] if abs(v[1]) < 2 ** 80 else (abs(v[1]) % 2 ** 80) * (1 if v[1] > 0 else -1))
    if v[0] == 'pair':
        return ('pair', _small(v[1]), _small(v[2]))
    if v[0] in ('some', 'left', 'right'):
        return (v[0], _small(v[1]))
    return v


def gen_case(rng, max_len):
    t = rng.choice(KEY_TYPES)
    pool = [_small(V.gen_value(rng, t))]
    n_keys = rng.randrange(3, 6)
    tries = 0
    while len(pool) < n_keys and tries < 40:
        tries += 1
        v = _small(V.mutate(rng, t, rng.choice(pool)) if rng.random() < 0.8 else V.gen_value(rng, t))
        if V.canon(v) not in [V.canon(x) for x in pool]:
            pool.append(v)
    k = rng.random()
    vt = V.VT_INT if k < 0.35 else (V.VT_TICKET if k > 0.9 else rng.choice(V.VALUE_TYPES[1:]))
    z = lambda: vt.gen(rng)  # noqa: E731
    mode = rng.random()
    if vt.ticket:
        # tickets cannot be stored in a literal or served by the stub: id with empty on-chain content, updates, one MEM
        script = [('update', rng.choice(pool), z() if rng.random() < 0.7 else None) for _ in range(rng.randrange(0, 8))]
        script.append(('mem', rng.choice(pool)))
        return t, pool, rng.choice([0, 7]), {}, [], script, vt
    chain, lit, ptr = {}, [], None
    if mode < 0.6:                      # id backed by on-chain entries: every split on-chain / local arises over the runs
        ptr = rng.choice([0, 7, 7, 123456])
        for v in pool:
            if rng.random() < 0.5:
                chain[V.canon(v)] = (v, z())
    elif mode < 0.85:                   # literal
        ks = sorted([v for v in pool if rng.random() < 0.6], key=V.spec_key(t))
        lit = [(k, z()) for k in ks]
    n = rng.randrange(max_len // 3, max_len + 1) if rng.random() < 0.75 else rng.randrange(0, 6)
    script = []
    for _ in range(n):
        k = rng.random()
        key = rng.choice(pool)
        if k < 0.45:
            script.append(('update', key, z() if rng.random() < 0.6 else None))
        elif k < 0.65:
            script.append(('gau', key, z() if rng.random() < 0.55 else None))
        elif k < 0.85:
            script.append(('get', key))
        else:
            script.append(('mem', key))
        if rng.random() < 0.12:
            # forked history: DUP, 1-3 updates on the copy (removals / re-insertions of the universe's keys), keep or drop it
            ups = [('update', rng.choice(pool), z() if rng.random() < 0.5 else None) for _ in range(rng.randrange(1, 4))]
            script.append(('fork', rng.random() < 0.35, ups))
    return t, pool, ptr, chain, lit, script, vt


def coq_instr(ins):
    o = lambda z: lib.copt(None if z is None else cZ(z))  # noqa: E731
    k = V.value_coq(ins[1])
    return {'update': lambda: f'(BIUpdate {k} {o(ins[2])})', 'gau': lambda: f'(BIGetAndUpdate {k} {o(ins[2])})',
            'get': lambda: f'(BIGet {k})', 'mem': lambda: f'(BIMem {k})'}[ins[0]]()


def xs_instrs(full_script):
    """store script of a single-map history with forks: the map is slot 0; a fork appends a copy (slot 1), updates it and
    drops the copy (slot 1) or the original (slot 0, the copy becomes slot 0)"""
    o = lambda z: lib.copt(None if z is None else cZ(z))  # noqa: E731
    out = []
    for ins in full_script:
        if ins[0] == 'fork':
            out.append('(XDup 0%nat)')
            out.extend(f'(XUpdate 1%nat {V.value_coq(u[1])} {o(u[2])})' for u in ins[2])
            out.append('(XDrop 0%nat)' if ins[1] else '(XDrop 1%nat)')
        else:
            out.append(xs_one(0, ins))
    return out


def xs_one(slot, ins):
    o = lambda z: lib.copt(None if z is None else cZ(z))  # noqa: E731
    k = V.value_coq(ins[1])
    s = f'{slot}%nat'
    return {'update': lambda: f'(XUpdate {s} {k} {o(ins[2])})', 'gau': lambda: f'(XGetAndUpdate {s} {k} {o(ins[2])})',
            'get': lambda: f'(XGet {s} {k})', 'mem': lambda: f'(XMem {s} {k})'}[ins[0]]()


def xs_slot(idv, items, removed):
    return ('(' + cZ(idv) + ', ' + clist(f'({V.value_coq(k)}, {V.cbt(h)}, {cZ(z)})' for k, h, z in items) + ', '
            + clist(f'({V.value_coq(k)}, {V.cbt(h)})' for k, h in removed) + ')')


XS_IN = 'text_tables * list (val * bytes) * list (Z * list (bytes * Z)) * list (Z * list (val * Z)) * list xs_instr'


def coq_obs(ob):
    return f'(BOOpt {lib.copt(None if ob[1] is None else cZ(ob[1]))})' if ob[0] == 'opt' else f'(BOBool {cbool(ob[1])})'


def describe(t, ptr, chain, lit, script, vt=V.VT_INT):
    return {'key_type': V.type_src(t), 'value_type': vt.src + ('' if vt.is_int else ' — values shown as codes: ' + ('ticket amount (0 = None)' if vt.ticket else 'index into ' + repr([x[0] for x in vt.lits]))), 'big_map': (f'id {ptr} with on-chain ' + str({V.value_src(k): z for k, z in chain.values()})) if ptr is not None
            else 'literal ' + str({V.value_src(k): z for k, z in lit}),
            'history': [_show(i) for i in script]}


def _show(i):
    if i[0] == 'fork':
        return 'DUP; on the copy: [' + ', '.join(_show(u) for u in i[2]) + ']; then ' + ('keep the copy, drop the original' if i[1] else 'drop the copy')
    return f'{i[0].upper()} {V.value_src(i[1])}' + (f' := {opt_src(i[2])}' if len(i) > 2 else '')


def python_object_stream(ctx, rng, reported):
    """sets / maps / big_maps built by from_python_object from UNORDERED Python lists / dicts (bare and inside a pair):
    the emitted Micheline must be strictly increasing in the Michelson order and must parse back to the same object."""
    from pytezos.michelson.parse import michelson_to_micheline
    from pytezos.michelson.types.base import MichelsonType
    key_kinds = [('int', ('int',), lambda: rng.randrange(-50, 50), lambda z: ('int', z)),
                 ('nat', ('nat',), lambda: rng.randrange(0, 100), lambda z: ('int', z)),
                 ('string', ('string',), lambda: ''.join(rng.choice('abAB0 ~') for _ in range(rng.randrange(0, 4))), lambda z: ('str', z)),
                 ('(pair int string)', ('pair', ('int',), ('string',)), lambda: (rng.randrange(-3, 3), rng.choice(['', 'a', 'B', 'ab'])),
                  lambda z: ('pair', ('int', z[0]), ('str', z[1])))]
    for n in range(ctx.n(40, 400)):
        ksrc, kt, gen, conv = rng.choice(key_kinds)
        keys = []
        while len(keys) < rng.randrange(2, 7):
            k = gen()
            if k not in keys:
                keys.append(k)
        rng.shuffle(keys)
        if sorted(keys, key=lambda k: V.spec_key(kt)(conv(k))) == keys:
            keys.reverse()
        shape = rng.choice(['set', 'map', 'big_map', 'pair_big_map', 'pair_map'])
        d = {k: i for i, k in enumerate(keys)}
        if shape == 'set':
            tsrc, obj, lazy = f'set {ksrc}', list(keys), False
        elif shape == 'map':
            tsrc, obj, lazy = f'map {ksrc} nat', d, False
        elif shape == 'big_map':
            tsrc, obj, lazy = f'big_map {ksrc} nat', d, True
        elif shape == 'pair_big_map':
            tsrc, obj, lazy = f'pair (big_map %ledger {ksrc} nat) (nat %total)', {'ledger': d, 'total': 3}, True
        else:
            tsrc, obj, lazy = f'pair (map %m {ksrc} nat) (set %s {ksrc})', {'m': d, 's': list(keys)}, False

        def go():
            ty = MichelsonType.match(michelson_to_micheline(tsrc))
            val = ty.from_python_object(obj)
            expr = val.to_micheline_value(lazy_diff=True) if lazy else val.to_micheline_value()
            back = ty.from_micheline_value(expr)
            return expr, back.to_python_object(lazy_diff=True) if lazy else back.to_python_object()
        ok, res = lib.call(go)
        why = None
        if not ok:
            why = f'from_python_object / to_micheline_value / re-parse raised {type(res).__name__}: {res}'[:300]
        else:
            expr, back = res
            seqs = [x for x in ([expr] if isinstance(expr, list) else expr.get('args', [])) if isinstance(x, list)]
            for seq in seqs:
                ks = [(e['args'][0] if isinstance(e, dict) and e.get('prim') == 'Elt' else e) for e in seq]
                vals = []
                for m in ks:
                    if 'int' in m:
                        vals.append(('int', int(m['int'])))
                    elif 'string' in m:
                        vals.append(('str', m['string']))
                    else:
                        vals.append(('pair', ('int', int(m['args'][0]['int'])), ('str', m['args'][1]['string'])))
                if not all(V.spec_cmp(kt, vals[i], vals[i + 1]) < 0 for i in range(len(vals) - 1)):
                    why = f'the emitted literal is not strictly increasing in the Michelson order: {[V.value_src(x) for x in vals]}'
                if len(vals) != len(keys):
                    why = f'{len(vals)} elements emitted for {len(keys)} keys'
        ctx.case(('pyobj', tsrc, repr(obj)), nontrivial=True, kind='from_python_object:' + shape,
                 sample={'type': tsrc, 'object': repr(obj)[:200]})
        if why and reported < 3:
            reported += 1
            ctx.violation('collection built from an unordered Python object: ' + why,
                          {'type': tsrc, 'object': repr(obj),
                           'repro': f"MichelsonType.match(michelson_to_micheline({tsrc!r})).from_python_object({obj!r}).to_micheline_value(lazy_diff={lazy})"})
    return reported


def run(ctx: lib.Ctx) -> None:
    rng = ctx.rng
    V.install_sorted_check()
    ctx.rule = ('one run_code call per case: key type among string/int/nat/bytes/pair/or/option/address/key_hash (nested), a universe of '
                '3-5 keys differing in one leaf; the big_map is an id whose on-chain content is a random subset of the universe (60 %), '
                'a sorted literal (25 %) or empty; history of up to 30 (quick) / 300 (thorough) UPDATE (set/remove), GET_AND_UPDATE, GET, MEM '
                'over the universe, every on-chain case also re-run with the big_map passed by id in the parameter (big_map copy; oracle only); value types int, bool, string, bytes, list/set/map, option, pair (the pytezos-falsy literal False/""/0x/{} drawn 45 % of the time, '
                'also as ON-CHAIN value) and non-duplicable option (ticket string) (updates then one consuming MEM). non-trivial = some key is updated at least twice, or a key that exists only on chain is updated/removed.')
    n_cases = ctx.n(220, 2500)
    max_len = ctx.n(30, 300)
    cases, meta = [], []
    # corpus: the histories of the two repaired defects, replayed first
    corpus = []
    a, b = ('str', 'a'), ('str', 'b')
    corpus.append((('string',), [a, b], None, {}, [], [('update', a, 1), ('update', b, 2), ('update', a, None), ('update', b, 3), ('update', a, 5), ('get', a)]))
    corpus.append((('string',), [a, b], 7, {V.canon(a): (a, 1), V.canon(b): (b, 2)}, [], [('update', a, 10), ('get', a), ('get', b), ('mem', a)]))
    corpus.append((('string',), [a, b], 7, {V.canon(a): (a, 1)}, [], [('update', a, None), ('get', a), ('update', a, 4), ('gau', a, None), ('mem', a), ('update', b, None)]))
    # on-chain values that are empty collections / falsy (the node answers `[]`, `False`, `""`), removed and re-read
    vl = next(v for v in V.VALUE_TYPES if v.src == '(list nat)')
    vb = next(v for v in V.VALUE_TYPES if v.src == 'bool')
    corpus = [c + (V.VT_INT,) for c in corpus]
    corpus.append((('string',), [a, b], 7, {V.canon(a): (a, 0), V.canon(b): (b, 1)}, [], [('get', a), ('mem', a), ('update', a, None), ('mem', a), ('gau', b, 0), ('get', b)], vl))
    corpus.append((('string',), [a, b], 0, {V.canon(a): (a, 0)}, [], [('gau', a, None), ('get', a), ('update', b, 0), ('mem', b), ('get', b)], vb))
    corpus.append((('string',), [a, b], 7, {}, [], [('update', a, 2), ('update', b, 0), ('update', a, None), ('mem', b)], V.VT_TICKET))
    gen = corpus + [gen_case(rng, max_len) for _ in range(n_cases)]
    ctx.corpus_cases = len(corpus)
    reported = 0
    tcases, tmeta = [], []
    for t, pool, ptr, chain, lit, script, vt in gen:
        res, src = run_impl(t, pool, ptr, chain, lit, script, vt)
        full_script, script = script, linear(script)
        n_forks = sum(1 for i in full_script if i[0] == 'fork')
        out = decode_impl(t, pool, script, res, vt) if not isinstance(res, str) else res
        upd = {}
        chain_only = False
        for ins in script:
            if ins[0] in ('update', 'gau'):
                c = V.canon(ins[1])
                if c in chain and c not in upd:
                    chain_only = True
                upd[c] = upd.get(c, 0) + 1
        ctx.case((t, ptr, tuple(sorted(map(repr, chain.values()))), tuple(map(repr, lit)), tuple(map(repr, script))),
                 nontrivial=chain_only or n_forks > 0 or any(c >= 2 for c in upd.values()),
                 kind=('id' if ptr is not None else ('literal' if lit else 'empty')) + f':{t[0]}:len{len(script) // 10 * 10}',
                 sample={**describe(t, ptr, chain, lit, full_script, vt), 'output': out if isinstance(out, str) else {'obs': out['obs'][:10], 'action': out['action']}})
        for ins in script:
            ctx.dist['op:' + ins[0]] += 1
        ctx.dist['values:' + vt.src] += 1
        ctx.dist['forks (DUP, update the copy, keep/drop)'] += n_forks
        if ptr is not None and any(z == 0 and not vt.is_int for _, z in chain.values()):
            ctx.dist['on-chain falsy/empty value'] += 1
        if isinstance(out, str):
            why = out
            coq_out = '(nil, nil)'
            coq_bad_marker = True
        else:
            why = oracle(t, pool, ptr, chain, lit, script, out, vt)
            coq_bad_marker = False
            coq_out = ('(' + clist(coq_obs(o) for o in out['obs']) + ', '
                       + clist([xs_slot(ptr if ptr is not None else -1, out['items'], out['removed'])]) + ')')
        if ptr is not None and not vt.ticket and not isinstance(out, str):
            # oracle-only stream: the same on-chain big_map and history, the big_map handed over by id in the parameter
            pres, psrc = run_impl(t, pool, ptr, chain, lit, full_script, vt, via_param=True)
            pout = decode_impl(t, pool, script, pres, vt) if not isinstance(pres, str) else pres
            pwhy = pout if isinstance(pout, str) else oracle(t, pool, ptr, chain, lit, script, pout, vt, via_param=True)
            ctx.dist['on-chain big_map passed by id in the parameter (copy)'] += 1
            if pwhy and reported < 3:
                reported += 1
                ctx.violation('big_map passed by id in the parameter: ' + pwhy,
                              {**describe(t, ptr, chain, lit, full_script, vt), 'observed': pout, 'contract': psrc,
                               'repro': 'harness/c15.py run_impl(..., via_param=True): Interpreter.run_code(<id>, Pair {} {}, contract, shell=StubShell(on-chain table), block_id="head")'})
        if why and reported < 3:
            reported += 1
            ctx.violation('big_map: ' + why,
                          {**describe(t, ptr, chain, lit, full_script, vt), 'observed': out, 'contract': src,
                           'repro': 'harness/c15.py run_impl(...): Interpreter.run_code(Unit, Pair <big_map> {}, contract, shell=StubShell(on-chain table), block_id="head")'})
        khtbl = clist(f'({V.value_coq(k)}, {V.cbt(script_expr(k))})' for k in pool)
        chtbl = clist(f'({V.cbt(script_expr(k))}, {cZ(z)})' for k, z in chain.values()) if ptr is not None else 'nil'
        inp = (f'({V.tables_coq(pool)}, {khtbl}, {chtbl}, {clist(f"({V.value_coq(k)}, {cZ(z)})" for k, z in lit)}, '
               f'{clist(coq_instr(i) for i in script)})')
        if not vt.ticket:
            # store form: the forks are executed by the model too (DUP / DROP of slots)
            lit_coq = clist(f"({V.value_coq(k)}, {cZ(z)})" for k, z in lit)
            inp = (f'({V.tables_coq(pool)}, {khtbl}, {clist([f"({cZ(ptr)}, {chtbl})"]) if ptr is not None else "nil"}, '
                   f'{clist([f"({cZ(ptr if ptr is not None else -1)}, {lit_coq})"])}, {clist(xs_instrs(full_script))})')
        if vt.ticket:
            # only the consuming MEM is observable; the emitted diff belongs to the fresh big_map put back into the storage
            tcases.append((inp, clist(coq_obs(o) for o in out['obs']) if not isinstance(out, str) else 'nil'))
            tmeta.append((t, pool, ptr, chain, lit, script, out, why, src, vt))
        else:
            cases.append((inp, coq_out))
            meta.append((t, pool, ptr, chain, lit, script, out, why, src, vt))
    reported = python_object_stream(ctx, rng, reported)

    # ---- two on-chain big_maps with different ids and overlapping keys in one run
    twocases, twometa = [], []
    for _ in range(ctx.n(40, 500)):
        t, pool, ids, chains, script2, vt = gen_two_maps(rng)
        why2, src2, out2 = run_two_maps(t, pool, ids, chains, script2, vt)
        if out2 is not None and not why2:
            khtbl2 = clist(f'({V.value_coq(k)}, {V.cbt(script_expr(k))})' for k in pool)
            chs = clist('(' + cZ(ids[w]) + ', ' + clist(f'({V.cbt(script_expr(k))}, {cZ(z)})' for k, z in chains[w].values()) + ')' for w in (0, 1))
            init2 = clist(f'({cZ(ids[w])}, nil)' for w in (0, 1))
            ins2 = clist(xs_one(0 if w == 'A' else 1, i) for w, i in script2)
            twocases.append((f'({V.tables_coq(pool)}, {khtbl2}, {chs}, {init2}, {ins2})',
                             '(' + clist(coq_obs(o) for o in out2['obs']) + ', ' + clist(xs_slot(*sl) for sl in out2['slots']) + ')'))
            twometa.append((t, pool, ids, chains, script2, vt, src2))
        ctx.case(('two', t, ids, tuple(map(repr, script2))), nontrivial=True, kind='two-big_maps',
                 sample={'key_type': V.type_src(t), 'ids': ids, 'history': [f'{w}: {_show(i)}' for w, i in script2][:10]})
        if why2 and reported < 3:
            reported += 1
            ctx.violation('two big_maps in one run: ' + why2,
                          {'key_type': V.type_src(t), 'value_type': vt.src, 'ids': list(ids),
                           'on_chain': [{V.value_src(k): z for k, z in c.values()} for c in chains],
                           'history': [f'{w}: {_show(i)}' for w, i in script2], 'contract': src2,
                           'repro': 'harness/c15.py run_two_maps(...): Interpreter.run_code(Unit, Pair (Pair idA idB) {}, contract, shell=StubShell(table), block_id="head")'})

    # ---- big_map literals in the storage: accepted iff the keys are strictly increasing (duplicate keys with
    #      ascending / equal / descending values, adjacent swaps, valid ones)
    lcases, lmeta = [], []
    directed_lits = list(V.notation_duplicates(rng))
    for lidx in range(-len(directed_lits), ctx.n(50, 600)):
        t, pool, _ptr, _chain, _lit, _script, vt = gen_case(rng, 3)
        if vt.ticket:
            vt = rng.choice(V.VALUE_TYPES[:6])
        if lidx < 0:
            t, pool = directed_lits[lidx][0], [directed_lits[lidx][1][0]]
        ks = sorted([v for v in pool if rng.random() < 0.7], key=V.spec_key(t)) if lidx >= 0 else list(pool)
        ents = [(k, vt.gen(rng)) for k in ks]
        k = rng.random() if lidx >= 0 else 0.0
        shape = 'sorted'
        if ents and k < 0.55:
            i = rng.randrange(len(ents))
            n = 6 if vt.is_int else len(vt.lits)
            lo = rng.randrange(0, n - 1)
            hi = rng.randrange(lo + 1, n)
            a, b = rng.choice([(lo, hi), (lo, hi), (lo, lo), (hi, lo)])
            ents[i:i + 1] = [(ents[i][0], a), (ents[i][0], b)]
            shape = 'duplicate:' + ('ascending' if a < b else 'equal' if a == b else 'descending') + (':other-notation' if V.alt_micheline(t, ents[i][0]) is not None else '')
        elif len(ents) >= 2 and k < 0.7:
            i = rng.randrange(len(ents) - 1)
            ents[i], ents[i + 1] = ents[i + 1], ents[i]
            shape = 'swapped'
        res, src = run_impl(t, pool, None, {}, ents, [], vt)
        accepted = not isinstance(res, str)
        want = all(V.spec_cmp(t, ents[i][0], ents[i + 1][0]) < 0 for i in range(len(ents) - 1))
        ctx.case(('literal', t, tuple(map(repr, ents))), nontrivial=shape != 'sorted', kind=f'storage-literal:{shape}',
                 sample={'key_type': V.type_src(t), 'value_type': vt.src, 'literal': [(V.value_src(k), vt.lit(z)) for k, z in ents], 'accepted': accepted})
        if accepted != want and reported < 3:
            reported += 1
            ctx.violation(f'big_map literal {"accepted" if accepted else "rejected"} although its keys are {"strictly increasing" if want else "unsorted or repeated"}',
                          {'key_type': V.type_src(t), 'value_type': vt.src, 'literal': '{ ' + ' ; '.join(f'Elt {V.value_src(k)} {vt.lit(z)}' for k, z in ents) + ' }',
                           'result': res if isinstance(res, str) else 'accepted', 'contract': src,
                           'repro': 'Interpreter.run_code(Unit, Pair <literal> {}, contract) as in harness/c15.py run_impl'})
        lcases.append((f'({V.tables_coq(pool)}, {clist(f"({V.value_coq(k)}, {cZ(z)})" for k, z in ents)})', cbool(accepted)))
        lmeta.append((accepted == want, t, ents, vt))
    import concurrent.futures
    lit_pool = concurrent.futures.ThreadPoolExecutor(max_workers=2)
    lit_future = lit_pool.submit(V.par_mismatches, ctx, 'bigmaplit', IMPORTS,
                                 'fun x => let T := texts_of (fst x) in accepted (map_literal (py_eq T) (py_lt T) (snd x))', 'Bool.eqb',
                                 'text_tables * list (val * Z)', 'bool', lcases, 400)
    tick_future = lit_pool.submit(V.par_mismatches, ctx, 'bigmapticket', IMPORTS, 'fun x => fst (fst (bm_case x))', 'list_eqb bm_obs_eqb',
                                  'text_tables * list (val * bytes) * list (bytes * Z) * list (val * Z) * list bm_instr', 'list bm_obs',
                                  tcases, 400)
    bad = V.par_mismatches(ctx, 'bigmap', IMPORTS, 'xs_case', 'xs_case_eqb', XS_IN, 'xs_case_out',
                           cases + twocases, shard=ctx.n(70, 160))
    two_bad = [i - len(cases) for i in bad if i >= len(cases)]
    bad = [i for i in bad if i < len(cases)]
    if two_bad and reported == 0:
        t, pool, ids, chains, script2, vt, src2 = twometa[two_bad[0]]
        ctx.violation('implementation no longer corresponds to the model the theorems are about',
                      {'correspondence': 'C15/two on-chain big_maps in one run vs Michelson.BigMap.xs_case (store of big_map values)',
                       'key_type': V.type_src(t), 'ids': list(ids), 'history': [f'{w}: {_show(i)}' for w, i in script2],
                       'model': ctx.coq_eval(IMPORTS, f'xs_case {twocases[two_bad[0]][0]}')[:3000], 'disagreements': len(two_bad)}, found=False)
        reported += 1
    tbad = tick_future.result()
    lbad = [i for i in lit_future.result() if lmeta[i][0]]
    lit_pool.shutdown()
    if lbad and reported == 0:
        ok_, t, ents, vt = lmeta[lbad[0]]
        ctx.violation('implementation no longer corresponds to the model the theorems are about',
                      {'correspondence': 'C15/big_map literal (MapType.check_constraints) vs Michelson.Collections.map_literal',
                       'key_type': V.type_src(t), 'literal': [(V.value_src(k), vt.lit(z)) for k, z in ents]}, found=False)
        reported += 1
    meta = meta + tmeta
    cases = cases + tcases
    bad = bad + [len(meta) - len(tmeta) + i for i in tbad]
    bad = [i for i in bad if not meta[i][7]]      # property failures were reported above
    if bad and reported == 0:
        t, pool, ptr, chain, lit, script, out, why, src, vt = meta[bad[0]]
        ctx.violation('implementation no longer corresponds to the model the theorems are about',
                      {'correspondence': 'C15/BigMapType.get,update,DUP,aggregate_lazy_diff via run_code vs Michelson.BigMap.xs_case',
                       **describe(t, ptr, chain, lit, script, vt), 'observed': out,
                       'model': ctx.coq_eval(IMPORTS, f'{"bm_case" if vt.ticket else "xs_case"} {cases[bad[0]][0]}')[:3000], 'disagreements': len(bad)}, found=False)
    ctx.extra['cases'] = len(cases)
    ctx.extra['instructions_executed'] = sum(len(m[5]) for m in meta)
    V.report_sorted_check(ctx)
