"""C12 — Python-object conversion of contract data round-trips.

(A) correspondence: MichelsonType.match(t).from_micheline_value(m).to_python_object(lazy_diff=None[, comparable=True]),
    .from_python_object(o), .get_type_layout(infer_names) and ContractData.decode/encode of /repo
    vs Michelson/PyObj.v (run_query), evaluated by vm_compute inside coqc.
(B) oracle on the implementation's outputs: from_python_object(to_python_object(v)) == v, ContractData
    decode/encode mutually inverse, layout keys unique and the same for type and value.
Known findings: nested-option (#14), generated-name-collision (#30).
"""
import functools
import glob
import json
import os

import lib
from lib import cbool, chex, clist, cnat, cok, copt, cZ

PROP = 'C12'
IMPORTS = 'From PV Require Import Michelson.PyObj.'
CORR = 'C12/MichelsonType.{to_python_object,from_python_object,get_type_layout}, ContractData.{decode,encode} vs Michelson.PyObj.run_query'

SCALARS = ['nat', 'int', 'string', 'bytes', 'bool', 'unit']
KCOQ = {'nat': 'KNat', 'int': 'KInt', 'string': 'KString', 'bytes': 'KBytes', 'bool': 'KBool', 'unit': 'KUnit'}

# ----------------------------------------------------------------------------------------------------------
# types: (prim, fn, tn, *args)   fn / tn: None | str
# ----------------------------------------------------------------------------------------------------------
NAMES = ['a', 'b', 'c', 'owner', 'amount', 'x', 'y', 'token_id', 'data', 'ab', 'n30_' + 'a' * 26, 'm31_' + 'b' * 27, 'z' * 31, 'q' * 32]
TRICKY = ['nat_0', 'nat_1', 'int_1', 'string_1', 'string_2', 'unit_0', 'unit_1', 'pair_0', 'pair_1', 'or_1', 'bytes_2', 'bool_1',
          'option_1', 'list_1', 'map_1', 'nat_2', 'int_0', 'int_2', 'nat_3']


def gen_annot(rng, used, p_none=0.5, tricky=0.06):
    k = rng.random()
    if k < p_none:
        return None
    if k < p_none + 0.03:
        return ''
    if k < p_none + 0.03 + tricky:
        return rng.choice(TRICKY)
    if used and rng.random() < 0.15:
        return rng.choice(sorted(used))
    n = rng.choice(NAMES)
    used.add(n)
    return n


def gen_cty(rng, depth):
    """comparable type without field annotation on itself (caller adds annotations)"""
    k = rng.random()
    if depth <= 0 or k < 0.55:
        return [rng.choice(SCALARS), None, None]
    used: set = set()
    if k < 0.8:
        a, b = gen_cty(rng, depth - 1), gen_cty(rng, depth - 1)
        a[1], b[1] = gen_annot(rng, used, 0.6), gen_annot(rng, used, 0.6)
        return ['pair', None, None, a, b]
    if k < 0.9:
        a, b = gen_cty(rng, depth - 1), gen_cty(rng, depth - 1)
        a[1], b[1] = gen_annot(rng, used, 0.6), gen_annot(rng, used, 0.6)
        return ['or', None, None, a, b]
    return ['option', None, None, gen_cty(rng, depth - 1)]


def gen_ty(rng, depth, used, allow_big=True, p_named=0.5, tricky=0.06):
    """type with no field annotation on itself; children of pair/or get annotations here"""
    k = rng.random()
    tn = None
    if rng.random() < 0.12:
        tn = gen_annot(rng, used, 0.0, tricky)
    if depth <= 0 or k < 0.25:
        return [rng.choice(SCALARS), None, tn]
    if k < 0.55:
        a = gen_ty(rng, depth - 1, used, allow_big, p_named, tricky)
        b = gen_ty(rng, depth - 1, used, allow_big, p_named, tricky)
        a[1], b[1] = gen_annot(rng, used, 1 - p_named, tricky), gen_annot(rng, used, 1 - p_named, tricky)
        return ['pair', None, tn, a, b]
    if k < 0.75:
        k2 = rng.random()
        if k2 < 0.35:    # balanced union mixing unit and payload variants
            u = gen_union(rng, rng.choice([2, 2, 3]), used, p_named)
            u[2] = tn
            return u
        if k2 < 0.5:   # enum-like
            a, b = gen_enum(rng, depth - 1, used, p_named), gen_enum(rng, depth - 1, used, p_named)
        else:
            a = gen_ty(rng, depth - 1, used, allow_big, p_named, tricky)
            b = gen_ty(rng, depth - 1, used, allow_big, p_named, tricky)
        a[1], b[1] = gen_annot(rng, used, 1 - p_named, tricky), gen_annot(rng, used, 1 - p_named, tricky)
        return ['or', None, tn, a, b]
    if k < 0.83:
        return ['option', None, tn, gen_ty(rng, depth - 1, set(), allow_big, p_named, tricky)]
    if k < 0.89:
        return ['list', None, tn, gen_ty(rng, depth - 1, set(), False, p_named, tricky)]
    if k < 0.93:
        return ['set', None, tn, gen_cty(rng, min(depth - 1, 2))]
    if k < 0.955 or not allow_big:
        return ['map', None, tn, gen_cty(rng, min(depth - 1, 2)), gen_ty(rng, depth - 1, set(), False, p_named, tricky)]
    return ['big_map', None, tn, gen_cty(rng, min(depth - 1, 2)), gen_ty(rng, depth - 1, set(), False, p_named, tricky)]


def gen_union(rng, depth, used, p_named, mode=None, top=True):
    """balanced union tree whose subtrees are all-unit, all-payload or mixed, in every arrangement (is_enum must look at
    EVERY leaf: first child a union with a payload variant + second child a union of units, the mirror image, deeper mixes)"""
    if mode is None:
        mode = rng.choice(['mixed', 'mixed', 'mixed', 'units', 'payload'])
    if depth <= 0 or (not top and rng.random() < 0.3):
        if mode == 'units' or (mode == 'mixed' and rng.random() < 0.5):
            return ['unit', None, None]
        k = rng.random()
        if k < 0.7:
            return [rng.choice(['nat', 'int', 'string', 'bytes', 'bool']), None, None]
        if k < 0.85:
            return ['pair', None, None, [rng.choice(['nat', 'string']), gen_annot(rng, set(), 0.5), None], ['int', None, None]]
        return ['option', None, None, ['nat', None, None]]
    if mode == 'mixed':
        ma, mb = rng.choice([('payload', 'units'), ('units', 'payload'), ('mixed', 'units'), ('units', 'mixed'),
                             ('mixed', 'mixed'), ('payload', 'mixed'), ('mixed', 'payload')])
    else:
        ma = mb = mode
    a = gen_union(rng, depth - 1, used, p_named, ma, False)
    b = gen_union(rng, depth - 1, used, p_named, mb, False)
    a[1], b[1] = gen_annot(rng, used, 1 - p_named, 0.0), gen_annot(rng, used, 1 - p_named, 0.0)
    return ['or', None, None, a, b]


def or_leaf_count(t):
    return or_leaf_count(t[3]) + or_leaf_count(t[4]) if t[0] == 'or' else 1


def gen_val_leaf(rng, t, idx):
    """value of a union type taking its idx-th leaf (flat order)"""
    if t[0] != 'or':
        return gen_val(rng, t)
    na = or_leaf_count(t[3])
    return ('left', gen_val_leaf(rng, t[3], idx)) if idx < na else ('right', gen_val_leaf(rng, t[4], idx - na))


def twin(t):
    """same shape and the same annotations, other scalar prims (what a cache keyed without the prim would confuse)"""
    rot = {'nat': 'string', 'int': 'bytes', 'string': 'int', 'bytes': 'nat', 'bool': 'nat'}
    return [rot.get(t[0], t[0]), t[1], t[2]] + [twin(x) for x in t[3:]]


def gen_enum(rng, depth, used, p_named):
    if depth > 0 and rng.random() < 0.4:
        a, b = gen_enum(rng, depth - 1, used, p_named), gen_enum(rng, depth - 1, used, p_named)
        a[1], b[1] = gen_annot(rng, used, 1 - p_named), gen_annot(rng, used, 1 - p_named)
        return ['or', None, None, a, b]
    return ['unit', None, None]


def ty_json(t):
    j = {'prim': t[0]}
    if len(t) > 3:
        j['args'] = [ty_json(x) for x in t[3:]]
    an = []
    if t[2] is not None:
        an.append(':' + t[2])
    if t[1] is not None:
        an.append('%' + t[1])
    if an:
        j['annots'] = an
    return j


def cann(a):
    return copt(None if a is None else chex(a.encode()))


def ty_coq(t):
    p = t[0]
    if p in SCALARS:
        return f'(TScalar {cann(t[1])} {cann(t[2])} {KCOQ[p]})'
    con = {'pair': 'TPair', 'or': 'TOr', 'option': 'TOption', 'list': 'TList', 'set': 'TSet', 'map': 'TMap', 'big_map': 'TBigMap'}[p]
    return f'({con} {cann(t[1])} {cann(t[2])} ' + ' '.join(ty_coq(x) for x in t[3:]) + ')'


# ----------------------------------------------------------------------------------------------------------
# values: ('int',z) ('str',s) ('bytes',b) ('bool',b) ('unit',) ('pair',a,b) ('left',a) ('right',b) ('some',a) ('none',)
#         ('seq',[..]) ('map',[(k,v)..]) ('ptr',z)
# ----------------------------------------------------------------------------------------------------------
def vcmp(a, b):
    """Michelson order (independent of pytezos and of the Coq model)"""
    ka = a[0]
    if ka in ('int', 'str', 'bytes', 'bool'):
        x, y = a[1], b[1]
        if ka == 'str':
            x, y = x.encode(), y.encode()
        return (x > y) - (x < y)
    if ka == 'unit':
        return 0
    if ka == 'pair':
        return vcmp(a[1], b[1]) or vcmp(a[2], b[2])
    if ka in ('left', 'right'):
        if b[0] != ka:
            return -1 if ka == 'left' else 1
        return vcmp(a[1], b[1])
    if ka == 'none':
        return 0 if b[0] == 'none' else -1
    if ka == 'some':
        return 1 if b[0] == 'none' else vcmp(a[1], b[1])
    raise lib.InternalError(f'not comparable: {a}')


def gen_val(rng, t, small=False, force_ptr=None):
    p = t[0]
    if p == 'nat':
        return ('int', abs(lib.boundary_ints(rng, signed=False, big=False)) if not small else rng.randrange(4))
    if p == 'int':
        return ('int', lib.boundary_ints(rng, big=False) if not small else rng.randrange(-2, 3))
    if p == 'string':
        return ('str', ''.join(rng.choice('abXY 01_') for _ in range(rng.randrange(0, 4))))
    if p == 'bytes':
        return ('bytes', bytes(rng.randrange(256) for _ in range(rng.randrange(0, 3))))
    if p == 'bool':
        return ('bool', rng.random() < 0.5)
    if p == 'unit':
        return ('unit',)
    if p == 'pair':
        return ('pair', gen_val(rng, t[3], small, force_ptr), gen_val(rng, t[4], small, force_ptr))
    if p == 'or':
        return ('left', gen_val(rng, t[3], small, force_ptr)) if rng.random() < 0.5 else ('right', gen_val(rng, t[4], small, force_ptr))
    if p == 'option':
        return ('none',) if rng.random() < 0.35 else ('some', gen_val(rng, t[3], small, force_ptr))
    if p == 'list':
        return ('seq', [gen_val(rng, t[3], small, force_ptr) for _ in range(rng.randrange(0, 4))])
    if p == 'set':
        xs = uniq([gen_val(rng, t[3], True) for _ in range(rng.randrange(0, 5))])
        return ('seq', sorted(xs, key=functools.cmp_to_key(vcmp)))
    if p in ('map', 'big_map'):
        if p == 'big_map' and force_ptr is not None:
            return ('ptr', force_ptr)
        if p == 'big_map' and rng.random() < 0.5:
            # ids as they appear in storage: 0 is the first big_map ever allocated; boundary and large ids
            return ('ptr', rng.choice([0, 0, 0, 1, 1, 2, 17, 255, 256, 2 ** 31 - 1, 2 ** 31, 2 ** 63, 2 ** 64 + 5, rng.randrange(0, 100000)]))
        ks = uniq([gen_val(rng, t[3], True) for _ in range(rng.randrange(0, 4))])
        ks = sorted(ks, key=functools.cmp_to_key(vcmp))
        return ('map', [(k, gen_val(rng, t[4], small, force_ptr)) for k in ks])
    raise lib.InternalError(f'type {t}')


def uniq(xs):
    out = []
    for x in xs:
        if not any(vcmp(x, y) == 0 for y in out):
            out.append(x)
    return out


def val_json(t, v):
    k = v[0]
    if k == 'int':
        return {'int': str(v[1])}
    if k == 'str':
        return {'string': v[1]}
    if k == 'bytes':
        return {'bytes': v[1].hex()}
    if k == 'bool':
        return {'prim': 'True' if v[1] else 'False'}
    if k == 'unit':
        return {'prim': 'Unit'}
    if k == 'pair':
        return {'prim': 'Pair', 'args': [val_json(t[3], v[1]), val_json(t[4], v[2])]}
    if k == 'left':
        return {'prim': 'Left', 'args': [val_json(t[3], v[1])]}
    if k == 'right':
        return {'prim': 'Right', 'args': [val_json(t[4], v[1])]}
    if k == 'some':
        return {'prim': 'Some', 'args': [val_json(t[3], v[1])]}
    if k == 'none':
        return {'prim': 'None'}
    if k == 'seq':
        return [val_json(t[3], x) for x in v[1]]
    if k == 'map':
        return [{'prim': 'Elt', 'args': [val_json(t[3], a), val_json(t[4], b)]} for a, b in v[1]]
    if k == 'ptr':
        return {'int': str(v[1])}
    raise lib.InternalError(f'value {v}')


def json_val(t, m):
    """Micheline (as to_micheline_value(readable) renders it) -> value, directed by the type"""
    p = t[0]
    if p in ('nat', 'int'):
        return ('int', int(m['int']))
    if p == 'string':
        return ('str', m['string'])
    if p == 'bytes':
        return ('bytes', bytes.fromhex(m['bytes']))
    if p == 'bool':
        return ('bool', {'True': True, 'False': False}[m['prim']])
    if p == 'unit':
        assert m['prim'] == 'Unit'
        return ('unit',)
    if p == 'pair':
        args = m['args'] if isinstance(m, dict) else m
        if isinstance(m, dict):
            assert m['prim'] == 'Pair'
        if len(args) > 2:
            return ('pair', json_val(t[3], args[0]), json_val(t[4], args[1:]))
        return ('pair', json_val(t[3], args[0]), json_val(t[4], args[1]))
    if p == 'or':
        return ('left', json_val(t[3], m['args'][0])) if m['prim'] == 'Left' else ('right', json_val(t[4], m['args'][0]))
    if p == 'option':
        return ('none',) if m['prim'] == 'None' else ('some', json_val(t[3], m['args'][0]))
    if p in ('list', 'set'):
        return ('seq', [json_val(t[3], x) for x in m])
    if p in ('map', 'big_map'):
        if isinstance(m, dict):
            return ('ptr', int(m['int']))
        return ('map', [(json_val(t[3], e['args'][0]), json_val(t[4], e['args'][1])) for e in m])
    raise lib.InternalError(f'type {t}')


def cstrb(s):
    return chex(s.encode('utf-8'))


def val_coq(v):
    k = v[0]
    if k == 'int':
        return f'(VInt {cZ(v[1])})'
    if k == 'str':
        return f'(VStr {cstrb(v[1])})'
    if k == 'bytes':
        return f'(VBytes {chex(v[1])})'
    if k == 'bool':
        return f'(VBool {cbool(v[1])})'
    if k == 'unit':
        return 'VUnit'
    if k == 'pair':
        return f'(VPair {val_coq(v[1])} {val_coq(v[2])})'
    if k in ('left', 'right', 'some'):
        return f'({ {"left": "VLeft", "right": "VRight", "some": "VSome"}[k]} {val_coq(v[1])})'
    if k == 'none':
        return 'VNone'
    if k == 'seq':
        return '(VSeq ' + clist(val_coq(x) for x in v[1]) + ')'
    if k == 'map':
        return '(VMap ' + clist(f'({val_coq(a)}, {val_coq(b)})' for a, b in v[1]) + ')'
    if k == 'ptr':
        return f'(VBigPtr {cZ(v[1])})'
    raise lib.InternalError(f'value {v}')


class Unmodelled(Exception):
    pass


def py_coq(o):
    from pytezos.michelson.types.core import unit
    if o is None:
        return 'PNone'
    if isinstance(o, unit):
        return 'PUnit'
    if isinstance(o, bool):
        return f'(PBool {cbool(o)})'
    if isinstance(o, int):
        return f'(PInt {cZ(o)})'
    if isinstance(o, str):
        if not o.isascii():
            raise Unmodelled('non-ascii str')
        return f'(PStr {cstrb(o)})'
    if isinstance(o, bytes):
        return f'(PBytes {chex(o)})'
    if isinstance(o, tuple):
        return '(PTuple ' + clist(py_coq(x) for x in o) + ')'
    if isinstance(o, list):
        return '(PList ' + clist(py_coq(x) for x in o) + ')'
    if isinstance(o, dict):
        return '(PDict ' + clist(f'({py_coq(k)}, {py_coq(v)})' for k, v in o.items()) + ')'
    raise Unmodelled(type(o).__name__)


def has_some_none(v):
    k = v[0]
    if k == 'some':
        return v[1][0] == 'none' or has_some_none(v[1])
    if k in ('left', 'right'):
        return has_some_none(v[1])
    if k == 'pair':
        return has_some_none(v[1]) or has_some_none(v[2])
    if k == 'seq':
        return any(has_some_none(x) for x in v[1])
    if k == 'map':
        return any(has_some_none(a) or has_some_none(b) for a, b in v[1])
    return False


# ---- the finding class "generated-name-collision", computed from the type alone (independent re-implementation) ----
def _truthy(a):
    return bool(a)


def pair_args(t):
    out = []
    for x in t[3:5]:
        if x[0] == 'pair' and not (_truthy(x[1]) or _truthy(x[2])):
            out.extend(pair_args(x))
        else:
            out.append(x)
    return out


def or_args(t):
    out = []
    for x in t[3:5]:
        if x[0] == 'or':
            out.extend(or_args(x))
        else:
            out.append(x)
    return out


def layout_keys(args):
    reserved, keys = set(), []
    for i, a in enumerate(args):
        k = a[1] if a[1] is not None else a[2]
        if k is not None and k not in reserved:
            reserved.add(k)
            keys.append(k)
        else:
            keys.append(f'{a[0]}_{i}')
    return keys, reserved


def collides(t, ctx=None):
    """some pair/union layout inside t has the same key twice"""
    p = t[0]
    if p in SCALARS:
        return False
    if p == 'pair':
        flat = ctx == 'pair' and not (_truthy(t[1]) or _truthy(t[2]))
        own = False
        if not flat:
            keys, _ = layout_keys(pair_args(t))
            own = len(set(keys)) != len(keys)
        return own or collides(t[3], 'pair') or collides(t[4], 'pair')
    if p == 'or':
        own = False
        if ctx != 'or':
            keys, _ = layout_keys(or_args(t))
            own = len(set(keys)) != len(keys)
        return own or collides(t[3], 'or') or collides(t[4], 'or')
    return any(collides(x) for x in t[3:])


# ---- implementation runners -------------------------------------------------------------------------------------
class Impl:
    def __init__(self, t):
        from pytezos.michelson.types.base import MichelsonType
        self.t = t
        ok, T = lib.call(MichelsonType.match, ty_json(t))
        self.T = T if ok else None
        self.err = None if ok else T
        self._cd = None

    def cd(self, m):
        """ContractData around a value of the type"""
        from pytezos.context.impl import ExecutionContext
        from pytezos.contract.data import ContractData
        return ContractData(ExecutionContext(), self.T.from_micheline_value(m))

    def to(self, m, cmp=False, via_cd=False):
        if cmp:
            ok, r = lib.call(lambda: self.T.from_micheline_value(m).to_python_object(lazy_diff=None, comparable=True))
        elif via_cd == 'text':
            from pytezos.michelson.format import micheline_to_michelson
            ok, r = lib.call(lambda: self.cd(m).decode(micheline_to_michelson(m)))    # decode accepts Michelson source too
        elif via_cd:
            ok, r = lib.call(lambda: self.cd(m).decode(m))
        else:
            ok, r = lib.call(lambda: self.T.from_micheline_value(m).to_python_object(lazy_diff=None))
        return (True, r) if ok else (False, r)

    def frm(self, o, via_cd=None):
        if via_cd is not None:
            ok, r = lib.call(lambda: self.cd(via_cd).encode(o, mode='readable'))
        else:
            ok, r = lib.call(lambda: self.T.from_python_object(o).to_micheline_value(mode='readable', lazy_diff=None))
        return (True, r) if ok else (False, r)

    def layout(self, infer):
        ok, r = lib.call(lambda: self.T.get_type_layout(infer_names=infer))
        return (True, r) if ok else (False, r)


def cpath(p):
    return clist('true' if c == '1' else 'false' for c in p)


def layout_coq(r):
    p2k, k2p, i2p = r
    if p2k is None:
        first = 'None'
    else:
        a = clist(f'({cpath(p)}, {cstrb(k)})' for p, k in p2k.items())
        b = clist(f'({cstrb(k)}, {cpath(p)})' for k, p in k2p.items())
        first = f'(Some ({a}, {b}))'
    return f'({first}, {clist(cpath(i2p[i]) for i in range(len(i2p)))})'


# ---- python-object variants for the from_python_object direction ------------------------------------------------------
def variants(rng, o, depth=0):
    """equivalent or broken spellings of a python object (never introduces bool/str/set, see PyObj.v header)"""
    from pytezos.michelson.types.core import Unit, unit
    k = rng.randrange(12)
    if isinstance(o, dict) and o:
        keys = list(o)
        if k == 0:
            return tuple(o.values())
        if k == 1:
            return list(o.values())
        if k == 2:
            d = dict(o)
            del d[rng.choice(keys)]
            return d
        if k == 3:
            d = dict(o)
            d['zz'] = 7
            return d
        if k == 4 and len(o) == 1:
            return (keys[0], o[keys[0]])
        if k == 5:
            return dict(reversed(list(o.items())))
        if k == 6 and isinstance(keys[0], str):
            d = {('zz' if i == 0 else kk): v for i, (kk, v) in enumerate(o.items())}
            return d
        kk = rng.choice(keys)
        d = dict(o)
        d[kk] = variants(rng, o[kk], depth + 1)
        return d
    if isinstance(o, tuple) and o:
        if k == 0:
            return list(o)
        if k == 1:
            return o[:-1]
        if k == 2:
            return o + (7,)
        if k == 3 and len(o) == 2 and isinstance(o[0], str):
            return {o[0]: o[1]}
        i = rng.randrange(len(o))
        return o[:i] + (variants(rng, o[i], depth + 1),) + o[i + 1:]
    if isinstance(o, list) and o:
        if k == 0:
            return tuple(o)
        if k == 1:
            return list(reversed(o))
        if k == 2:
            return o + [o[0]]
        if k == 3:
            return o[1:]
        i = rng.randrange(len(o))
        return o[:i] + [variants(rng, o[i], depth + 1)] + o[i + 1:]
    if isinstance(o, str):
        if k < 4:
            return {o: None}       # enum value spelled as a dict
        if k < 6:
            return (o, Unit)
        return o
    if isinstance(o, unit):
        return None
    return rng.choice([None, 7, -1, (), [], {}, b'\x01', o, o])


# ---- (B) -------------------------------------------------------------------------------------------------------
def canon(m):
    return lib.canon_micheline(m)


def run(ctx: lib.Ctx) -> None:
    rng = ctx.rng
    ctx.rule = ('types: random annotated types over nat,int,string,bytes,bool,unit / pair / or (incl. enum-like) / option / list / '
                'set / map / big_map (comparable composite keys), depth <= 4, field and type annotations: none / fresh / duplicated / '
                'bare / equal to a generated <prim>_<i> name; values type-directed (boundary ints, empty and non-empty collections, '
                'big_map ids and literals); queries: to_python_object (plain and comparable), get_type_layout (both modes), '
                'from_python_object on the converted object, on its alternative spellings (tuple/list/dict, enum str/dict/tuple) and '
                'on broken variants; ContractData.decode/encode. non-trivial = type with a pair or union; distinct = (type, query)')
    from pytezos.michelson.tags import prim_tags  # noqa: F401  (import check only)

    cases, meta, groups = [], [], []
    viol = []
    in_process, seen_types = [], []     # observations made in this (long-lived) process, for the history oracle
    kf_opt = ctx.finding('nested-option')
    kf_col = ctx.finding('generated-name-collision')

    def classify(t, v):
        cl = []
        if v is not None and has_some_none(v):
            cl.append(kf_opt)
        if collides(t):
            cl.append(kf_col)
        return [c for c in cl if c]

    def fail(t, v, what, extra):
        cl = classify(t, v)
        if cl:
            for c in cl[:1]:
                ctx.known_hit(c)
            return
        if len(viol) < 3:
            viol.append(1)
            ctx.violation(what, {'type': ty_json(t), 'type_tuple': t, **extra,
                                 'repro': "T=MichelsonType.match(type); v=T.from_micheline_value(value); "
                                          "T.from_python_object(v.to_python_object(lazy_diff=None)).to_micheline_value(lazy_diff=None) == v.to_micheline_value(lazy_diff=None)"})

    def add_type(t, nvals, kind):
        impl = Impl(t)
        if impl.T is None:
            ctx.dist[f'{kind}:type-refused'] += 1
            return
        qcs, acs, first = [], [], len(meta)
        nontrivial = 'pair' in json.dumps(t) or '"or"' in json.dumps(t)

        def emit(qk, qc, ac, sample=None):
            ctx.case((ty_coq(t), qc), nontrivial=nontrivial, kind=f'{kind}:{qk}', sample=sample)
            qcs.append(qc)
            acs.append(ac)
            meta.append((t, qk, qc, ac))

        # layouts
        if t[0] in ('pair', 'or'):
            for infer in (False, True):
                ok, r = impl.layout(infer)
                emit(f'layout:{"ok" if ok else "reject"}', f'(QLayout {cbool(infer)})', f'(ALayout {cok(layout_coq(r) if ok else None)})')
                if ok and r[0] is not None:
                    keys = list(r[0].values())
                    if len(set(keys)) != len(keys):
                        fail(t, None, f'field names are not unique: {keys}', {'layout': repr(r)})
        forced = [None] * nvals
        if 'big_map' in json.dumps(t):
            forced += [0, rng.choice([1, 2, 2 ** 31, 2 ** 64 + 5])]
        if t[0] == 'or':       # one value per variant (up to 8), so that every leaf of the flattened union is converted
            nl = or_leaf_count(t)
            forced = [('leaf', i) for i in (range(nl) if nl <= 8 else rng.sample(range(nl), 8))] + forced[nvals:]
        seen_types.append((t, None))
        for fp in forced:
            v = gen_val_leaf(rng, t, fp[1]) if isinstance(fp, tuple) else gen_val(rng, t, force_ptr=fp)
            m = val_json(t, v)
            okn, norm = lib.call(lambda: impl.T.from_micheline_value(m).to_micheline_value(mode='readable', lazy_diff=None))
            if not okn:
                raise lib.InternalError(f'generated value refused by from_micheline_value: {ty_json(t)} {m} {norm!r}')
            via_cd = rng.random() < 0.3
            ok, o = impl.to(m, via_cd=('text' if via_cd and rng.random() < 0.25 else via_cd))
            try:
                oc = py_coq(o) if ok else None
            except Unmodelled:
                continue
            emit(f'to:{"ok" if ok else "reject"}', f'(QTo {val_coq(v)})', f'(ATo {cok(oc)})',
                 sample={'type': ty_json(t), 'value': m, 'python': repr(o)[:200]})
            if ok and nontrivial:
                in_process.append((t, m, repr(o), len(seen_types) - 1))
                seen_types[-1] = (t, m)
            # (B) round trip
            if not ok:
                fail(t, v, f'to_python_object raised {o!r}', {'value': m})
            else:
                okb, back = impl.frm(o, via_cd=m if via_cd else None)
                if not okb or canon(back) != canon(norm):
                    fail(t, v, f'from_python_object(to_python_object(v)) = {back!r} differs from v', {'value': m, 'python': repr(o)})
                else:
                    ok2, o2 = impl.to(back)
                    if not ok2 or repr(o2) != repr(o):
                        fail(t, v, f'decode(encode(obj)) = {o2!r} differs from obj = {o!r}', {'value': m})
                # field names stable: the dict keys of a converted pair/union come from the type's layout
                if t[0] == 'pair' and isinstance(o, dict):
                    okl, lay = impl.layout(False)
                    if okl and lay[0] is not None and not set(o) <= set(lay[0].values()):
                        fail(t, None, f'object keys {list(o)} are not the layout keys {list(lay[0].values())}', {'value': m})
                # from_python_object on the object and its other spellings
                objs = [(o, False)] + [(variants(rng, o), True) for _ in range(2)]
                for ob, mutated in objs:
                    if mutated and maybe_unmodelled(t, ob):
                        continue
                    try:
                        obc = py_coq(ob)
                    except Unmodelled:
                        continue
                    okf, mv = impl.frm(ob)
                    try:
                        ac = val_coq(json_val(t, mv)) if okf else None
                    except (AssertionError, KeyError, TypeError, ValueError, IndexError):
                        raise lib.InternalError(f'cannot read back {mv!r} for {ty_json(t)}')
                    emit(f'from:{"ok" if okf else "reject"}', f'(QFrom {obc})', f'(AFrom {cok(ac)})')
                    # (B) every accepted spelling must encode to a *valid* value (sorted, duplicate-free collections …)
                    # that decodes and re-encodes to itself
                    if okf and mutated:
                        v2 = json_val(t, mv)
                        okv, o3 = lib.call(lambda: impl.T.from_micheline_value(mv).to_python_object(lazy_diff=None))
                        if not okv:
                            fail(t, v2, f'from_python_object({ob!r}) produced {mv!r}, which is not a valid value of the type: {o3!r}',
                                 {'python': repr(ob), 'encoded': mv})
                        else:
                            okb3, back3 = impl.frm(o3)
                            if not okb3 or canon(back3) != canon(mv):
                                fail(t, v2, f'encode({ob!r}) = {mv!r} decodes to {o3!r} which encodes to {back3!r}',
                                     {'python': repr(ob), 'encoded': mv})
            # comparable rendering (map keys / set elements use it)
            if is_comparable(t) and rng.random() < 0.5:
                okc, oc_ = impl.to(m, cmp=True)
                try:
                    emit(f'tocmp:{"ok" if okc else "reject"}', f'(QToCmp {val_coq(v)})', f'(ATo {cok(py_coq(oc_) if okc else None)})')
                except Unmodelled:
                    pass
        if qcs:
            cases.append((f'({ty_coq(t)}, {clist(qcs)})', clist(acs)))
            groups.append((first, len(meta)))

    for path in sorted(glob.glob(os.path.join(lib.VERIF, 'corpus', PROP, '*.json'))):
        doc = json.load(open(path))
        add_type(doc['type'], 4, 'corpus')
        ctx.corpus_cases += 1
    for t in FIXED_TYPES:
        add_type(t, 4, 'fixed')
    ntypes = ctx.n(100, 4000)
    for i in range(ntypes):
        depth = rng.choice([1, 2, 2, 3, 3, 4])
        k = rng.random()
        if rng.random() < 0.15:
            t = gen_union(rng, rng.choice([2, 2, 3]), set(), rng.choice([0.0, 0.5, 1.0]))
        else:
            t = gen_ty(rng, depth, set(), p_named=rng.choice([0.0, 0.3, 0.6, 0.9]), tricky=0.0 if k < 0.7 else 0.2)
        if rng.random() < 0.3:
            t[1] = gen_annot(rng, set(), 0.3)
        add_type(t, ctx.n(3, 4), 'gen')
        if rng.random() < 0.2:
            add_type(twin(t), 1, 'twin')

    def report(what, extra):
        if len(viol) < 3:
            viol.append(1)
            ctx.violation(what, extra)
    started = history_start(ctx, in_process)
    entrypoint_checks(ctx, report)

    bad_groups = ctx.coq_mismatches('py', IMPORTS, 'fun c => map (run_query (fst c)) (snd c)', 'list_eqb answer_eqb',
                                    'aty * list query', 'list answer', cases, shard=24)
    history_oracle(ctx, started, in_process, seen_types, report)
    bad = []
    for g in ([] if viol else bad_groups[:3]):     # pin down single queries only when no failing input is known yet
        lo, hi = groups[g]
        sub = [(f'({ty_coq(meta[i][0])}, {meta[i][2]})', meta[i][3]) for i in range(lo, hi)]
        sb = ctx.coq_mismatches('py1', IMPORTS, 'fun c => run_query (fst c) (snd c)', 'answer_eqb', 'aty * query', 'answer', sub)
        bad.extend(lo + i for i in sb)
        if len(bad) > 20:
            break

    # witnesses of the known findings must still fail the way the finding says (otherwise the finding file is stale: report)
    if not viol and bad:
        i = bad[0]
        t, qk, qc, ac = meta[i]
        ctx.violation('implementation no longer corresponds to the model the theorems are about',
                      {'correspondence': CORR, 'disagreements': len(bad), 'type': ty_json(t), 'type_tuple': t, 'query_kind': qk,
                       'query_coq': qc, 'observed_coq': ac, 'model': ctx.coq_eval(IMPORTS, f'run_query {ty_coq(t)} {qc}')}, found=False)



# ---- ContractEntrypoint.encode / decode: oracle (B) only (composition of C13's resolution with the conversions above) ----
def _json_some_none(m):
    if isinstance(m, list):
        return any(_json_some_none(x) for x in m)
    if isinstance(m, dict):
        if m.get('prim') == 'Some' and m.get('args') and isinstance(m['args'][0], dict) and m['args'][0].get('prim') == 'None':
            return True
        return any(_json_some_none(x) for x in m.get('args', []) or [])
    return False


def _c13_to_c12(t):
    """c13 type tuple -> c12 type list (for the collision class test)"""
    def sty(s, fn=None, tn=None):
        return [s[0], fn, tn] + [sty(x) for x in s[1:]]
    if t[0] == 'leaf':
        return sty(t[2], t[1], t[3])
    return ['or', t[1], t[4], _c13_to_c12(t[2]), _c13_to_c12(t[3])]


def entrypoint_checks(ctx, report):
    """For listed entrypoint e and argument a: obj = python object of a; ContractEntrypoint(e).encode(obj) must denote the
    same full parameter as (e, a); decoding it and encoding the decoded object at the root entrypoint must give it again."""
    import c13
    from pytezos.context.impl import ExecutionContext
    from pytezos.contract.entrypoint import ContractEntrypoint
    from pytezos.michelson.sections.parameter import ParameterSection
    rng = ctx.rng
    for _ in range(ctx.n(60, 600)):
        used: set = set()
        t = c13.gen_ty(rng, rng.choice([0, 1, 2, 2, 3]), used, p_or=0.9, annot_p=rng.choice([0.4, 1.0]))
        sp = c13.spec(t)
        if not sp['wf'] or sp['collide']:
            continue
        expr = {'prim': 'parameter', 'args': [c13.ty_json(t)]}
        ok, P = lib.call(ParameterSection.match, expr)
        if not ok:
            continue
        ectx = ExecutionContext()
        ectx.parameter_expr = expr
        ents = [(k, p, n) for k, p, n in sp['branches']] + [(sp['root'], '', t)]
        for e, epath, node in rng.sample(ents, min(3, len(ents))):
            lp, _ = rng.choice(c13.leaves(node))
            a, _ = c13.gen_val(rng, node, lp)
            t12 = _c13_to_c12(t)
            known = []
            if _json_some_none(a):
                known.append(ctx.finding('nested-option'))
            if collides(t12):
                known.append(ctx.finding('generated-name-collision'))
            ctx.case(('entrypoint', json.dumps(expr), e, json.dumps(a)), nontrivial=t[0] == 'or', kind='entrypoint-codec')

            def run():
                full = P.from_parameters({'entrypoint': e, 'value': a}).to_micheline_value()
                obj = P.list_entrypoints()[e].from_micheline_value(a).to_python_object()
                enc = ContractEntrypoint(ectx, e).encode(obj)
                if canon(P.from_parameters(enc).to_micheline_value()) != canon(full):
                    return f'ContractEntrypoint({e!r}).encode({obj!r}) = {enc!r} does not denote the parameter built from ({e!r}, arg)'
                dec = ContractEntrypoint(ectx, enc['entrypoint']).decode(enc['value'])
                inner = dec if t[0] == 'or' else dec[sp['root']]
                enc2 = ContractEntrypoint(ectx, sp['root']).encode(inner)
                if canon(P.from_parameters(enc2).to_micheline_value()) != canon(full):
                    return f'decode gave {dec!r}; encoding it back gives {enc2!r}, a different parameter'
                return None
            okr, why = lib.call(run)
            if not okr:
                why = f'ContractEntrypoint encode/decode raised {why!r}'
            if why:
                known = [k for k in known if k]
                if known:
                    ctx.known_hit(known[0])
                else:
                    report(why, {'parameter': expr, 'entrypoint': e, 'argument': a,
                                 'repro': "ctx=ExecutionContext(); ctx.parameter_expr=parameter; ContractEntrypoint(ctx, entrypoint).encode(<python object of argument>)"})

def fresh_eval(steps):
    """run harness/c12_fresh.py: the steps, in order, in a new interpreter; one observation per step"""
    import subprocess
    import sys
    r = subprocess.run([sys.executable, os.path.join(os.path.dirname(os.path.abspath(__file__)), 'c12_fresh.py')],
                       input=json.dumps(steps), capture_output=True, text=True, timeout=900)
    if r.returncode != 0:
        raise lib.InternalError(f'c12_fresh.py failed: {r.stderr[-1500:]}')
    return json.loads(r.stdout)


def history_start(ctx, in_process):
    """launch the reversed-order run in a new interpreter (runs while coqc evaluates the model)"""
    import concurrent.futures
    cap = ctx.n(600, 6000)
    sample = in_process if len(in_process) <= cap else ctx.rng.sample(in_process, cap)
    ex = concurrent.futures.ThreadPoolExecutor(max_workers=1)
    return sample, ex.submit(fresh_eval, [{'type': ty_json(t), 'value': m} for t, m, _, _ in reversed(sample)])


def history_oracle(ctx, started, in_process, seen_types, report):
    """Field names (and the whole documented object) must be a function of the type only.  The (type, value) pairs this
    long-lived process converted are converted again by a new interpreter in REVERSE order; any dependence on what was
    converted before shows up as a difference for at least one member of each confused pair of types.  On a difference
    the search looks for a single predecessor type that reproduces it in a new interpreter: the witness is that
    two-step sequence, checked against the one-step run."""
    import concurrent.futures
    if not in_process:
        return
    sample, other_f = started
    other = list(reversed(other_f.result()))
    ctx.extra['history_oracle_cases'] = len(sample)
    reported = 0
    for (t, m, seen, pos), ot in zip(sample, other):
        ctx.case(('history', json.dumps(ty_json(t)), json.dumps(m)), nontrivial=True, kind='history-oracle')
        if ot.get('python') == seen or reported >= 2:
            continue
        reported += 1
        step = {'type': ty_json(t), 'value': m}

        def shape(x):
            return [x[1], x[2]] + [shape(y) for y in x[3:]]
        # candidate predecessors: every type this process (or the reversed run) converted, same annotations/shape first
        cands = [(u, um) for u, um in seen_types if um is not None and u != t]
        cands.sort(key=lambda c: 0 if shape(c[0]) == shape(t) else 1 if c[0][0] == t[0] else 2)
        cands = cands[:12]
        with concurrent.futures.ThreadPoolExecutor(max_workers=6) as ex:
            alone_f = ex.submit(fresh_eval, [step])
            after_f = [ex.submit(fresh_eval, [{'type': ty_json(u), 'value': um}, step]) for u, um in cands]
            alone = alone_f.result()[0]
            after = [f.result()[1] for f in after_f]
        doc = {'type': ty_json(t), 'type_tuple': t, 'value': m, 'python_in_new_interpreter': alone.get('python'),
               'layouts_in_new_interpreter': alone.get('layouts'), 'python_in_this_process': seen,
               'python_in_reversed_run': ot.get('python')}
        witness = next(((u, um, ar) for (u, um), ar in zip(cands, after) if ar.get('python') != alone.get('python')), None)
        if witness:
            u, um, ar = witness
            doc.update({'sequence': [{'type': ty_json(u), 'value': um}, step],
                        'python_after_predecessor': ar.get('python'), 'layouts_after_predecessor': ar.get('layouts'),
                        'error_after_predecessor': ar.get('error'),
                        'repro': "for s in sequence: T=MichelsonType.match(s['type']); print(T.from_micheline_value(s['value']).to_python_object(lazy_diff=None))"
                                 "  # in one interpreter; the last line differs from what a new interpreter prints for the last step alone"})
            report(f'field names are not a function of the type: after converting a value of {ty_json(u)}, the value {m} of {ty_json(t)} '
                   f'converts to {ar.get("python")}; alone it converts to {alone.get("python")}', doc)
        else:
            doc['repro'] = 'convert the (type, value) pairs of this run in order (seed in this file) and in reverse order'
            report(f'field names are not a function of the type: {m} of {ty_json(t)} converts to {seen} in this process, to '
                   f'{ot.get("python")} after other types and to {alone.get("python")} in a new interpreter', doc)


def maybe_unmodelled(t, o):
    """Conservative test for mutated objects: could a bool reach an int/nat/big_map reader, or a str a bytes reader?
    (Python accepts those — bool is an int, bytes may be given as hex text — the model does not cover them.)"""
    kinds = set()

    def collect(x):
        kinds.add(x[0])
        for y in x[3:]:
            collect(y)
    collect(t)
    vals = []

    def flat(x):
        if isinstance(x, dict):
            for k, v in x.items():
                flat(k)
                flat(v)
        elif isinstance(x, (tuple, list)):
            for y in x:
                flat(y)
        else:
            vals.append(x)
    flat(o)
    if any(isinstance(x, bool) for x in vals) and ({'nat', 'int', 'big_map'} & kinds):
        return True
    # dict keys naming fields are str too; only a problem when the type reads bytes somewhere
    if any(isinstance(x, str) for x in vals) and 'bytes' in kinds:
        return True
    return False


def is_comparable(t):
    p = t[0]
    if p in SCALARS:
        return True
    if p in ('pair', 'or', 'option'):
        return all(is_comparable(x) for x in t[3:])
    return False


S = lambda p, fn=None, tn=None: [p, fn, tn]  # noqa: E731

FIXED_TYPES = [
    # #14 nested option
    ['option', None, None, ['option', None, None, S('nat')]],
    ['map', None, None, ['option', None, None, ['option', None, None, S('nat')]], S('string')],
    # #30 generated-name collision
    ['pair', None, None, S('nat', 'nat_1'), S('nat')],
    ['or', None, None, S('nat', 'nat_1'), S('nat')],
    ['pair', None, None, S('nat'), ['pair', None, None, S('int', 'nat_0'), S('string')]],
    # duplicates, type names, bare annotations
    ['pair', None, None, S('nat', 'a'), S('nat', 'a')],
    ['pair', None, None, S('nat', None, 'a'), S('nat', 'a')],
    ['pair', None, None, S('nat', 'b', 'a'), S('nat', 'a')],
    ['pair', None, None, S('nat', ''), S('int')],
    ['pair', None, None, ['pair', '', None, S('nat'), S('nat')], S('int')],
    # nested pairs: right comb, left nested, named inner
    ['pair', None, None, S('nat', 'a'), ['pair', None, None, S('int', 'b'), S('string')]],
    ['pair', None, None, ['pair', None, None, S('nat'), S('int')], ['pair', 'p', None, S('string', 'a'), S('string', 'a')]],
    ['pair', None, None, S('nat'), ['pair', None, 't', S('int'), S('string')]],
    # unions: enum, nested, annotated inner
    ['or', None, None, ['or', None, None, S('unit'), S('unit')], S('unit', 'c')],
    ['or', None, None, ['or', 'x', None, S('nat', 'a'), S('int')], S('string')],
    ['list', None, None, ['or', None, None, S('unit'), S('unit')]],
    # collections with composite keys
    ['map', None, None, ['pair', None, None, S('nat', 'a'), ['or', None, None, S('string'), S('bytes')]], ['pair', None, None, S('nat', 'x'), S('int')]],
    ['set', None, None, ['pair', None, None, S('nat'), ['option', None, None, S('string')]]],
    ['big_map', None, None, S('nat'), ['pair', None, None, S('nat', 'x'), S('int')]],
    ['map', None, None, S('unit'), S('nat')],
    ['option', None, None, S('unit')],
    # storage-like: big_maps below records / options / unions (ids 0, 1, large are forced for every type with a big_map)
    ['pair', None, None, ['big_map', 'ledger', None, S('string'), S('nat')], S('nat', 'total')],
    ['pair', None, None, ['big_map', None, None, S('nat'), S('nat')], ['pair', None, None, ['big_map', 'meta', None, S('string'), S('bytes')], S('unit')]],
    ['option', None, None, ['big_map', None, None, S('nat'), S('nat')]],
    ['or', None, None, ['big_map', 'a', None, S('nat'), S('nat')], S('nat', 'b')],
    ['big_map', None, None, S('nat'), S('nat')],
    # balanced unions mixing payload and unit variants (is_enum must consider every leaf)
    ['or', None, None, ['or', None, None, S('nat', 'set_fee'), S('unit', 'pause')], ['or', None, None, S('unit', 'resume'), S('unit', 'stop')]],
    ['or', None, None, ['or', None, None, S('unit', 'resume'), S('unit', 'stop')], ['or', None, None, S('nat', 'set_fee'), S('unit', 'pause')]],
    ['or', None, None, ['or', None, None, S('unit'), S('nat')], ['or', None, None, S('unit'), S('unit')]],
    ['or', None, None, ['or', None, None, ['or', None, None, S('string'), S('unit')], ['or', None, None, S('unit'), S('unit')]], S('unit', 'last')],
    ['or', None, None, S('unit', 'first'), ['or', None, None, ['or', None, None, S('unit'), S('int')], ['or', None, None, S('unit'), S('unit')]]],
    ['pair', None, None, S('nat', 'n'), ['or', 'action', None, ['or', None, None, S('bytes'), S('unit')], ['or', None, None, S('unit'), S('unit')]]],
    # twins: same annotations and shape, other prims
    ['pair', None, None, S('nat', 'a'), S('int')],
    ['pair', None, None, S('nat', 'a'), S('string')],
    ['or', None, None, S('nat', 'a'), S('int')],
    ['or', None, None, S('nat', 'a'), S('bytes')],
    ['pair', None, None, S('nat', 'a'), S('int', 'a')],
    ['pair', None, None, S('nat', 'a'), S('string', 'a')],
]


def replay(ctx: lib.Ctx, doc: dict) -> int:
    """./check C12 --replay file: re-run the stored input on the current /repo; 1 = the round trip still fails on it."""
    if 'sequence' in doc:
        seq = doc['sequence']
        after = fresh_eval(seq)[-1]
        alone = fresh_eval(seq[-1:])[0]
        print(f"replay: last step alone            -> {alone.get('python')} {alone.get('error') or ''}")
        print(f"replay: last step after the others -> {after.get('python')} {after.get('error') or ''}")
        bad = after.get('python') != alone.get('python')
        print('replay: ' + ('FAILS: the documented object depends on what was converted before' if bad else 'property holds on this input now'))
        return 1 if bad else 0
    if 'type_tuple' not in doc or 'value' not in doc:
        print('replay: no (type, value) input in this file (layout / entrypoint / correspondence-only verdict)')
        return 0
    impl = Impl(doc['type_tuple'])
    m = doc['value']
    okn, norm = lib.call(lambda: impl.T.from_micheline_value(m).to_micheline_value(mode='readable', lazy_diff=None))
    ok, o = impl.to(m)
    print(f'replay: to_python_object -> {o!r}')
    if not okn or not ok:
        print('replay: FAILS (conversion raises)')
        return 1
    okb, back = impl.frm(o)
    print(f'replay: from_python_object -> {back!r}')
    bad = (not okb) or canon(back) != canon(norm)
    print('replay: ' + ('FAILS: round trip differs' if bad else 'property holds on this input now'))
    return 1 if bad else 0
