"""C20 — tickets are never forged, duplicated, zeroed or merged incorrectly.

(A) correspondence: programs over TICKET / READ_TICKET / SPLIT_TICKET / JOIN_TICKETS mixed with
    DUP, DUP n, SWAP, DROP, DIG, DUG, PAIR, UNPAIR, CAR, CDR, SOME, NONE, IF_NONE, NIL, CONS, IF_CONS, ITER, MAP,
    PUSH run by the real pytezos Interpreter (the self address is switched between top-level segments
    to obtain several ticketers) vs Michelson/Tickets.v `exec_from` evaluated inside coqc.
(B) the property's own oracle on the interpreter's final stack: no ticket with amount 0; for every
    (ticketer, content) the total amount on the stack is at most what TICKET created (counted by an
    independent reference machine); the final stack equals the reference machine's; and single-step
    specs of SPLIT_TICKET / JOIN_TICKETS / TICKET / DUP.
(C) oracle-only stream (no Coq model): LAMBDA / APPLY / EXEC / DUP of closures with tickets captured or passed,
    PUSH of ticket literals, maps and big_maps holding tickets - judged by mass conservation on the real final stack.
"""
import glob
import json
import os
import time

import lib
from lib import chex, clist, cnat


def cZ(n):
    """hexadecimal literals: Coq parses them much faster than long decimal ones"""
    return f'(-0x{-n:x})%Z' if n < 0 else f'(0x{n:x})%Z'


PROP = 'C20'
IMPORTS = 'From PV Require Import Michelson.Tickets.'


def addresses():
    from pytezos.context.abstract import get_originated_address
    return [get_originated_address(i) for i in (1, 2, 3)]


# --------------------------------------------------------------------------------------------
# canonical values: ('nat', n) ('str', s) ('addr', a) ('ticket', ticketer, content, amount)
#   ('pair', a, b) ('some', v) ('none', ty) ('list', ty, [v...]);  types: 'nat' 'string' 'address'
#   ('ticket', cty) ('pair', a, b) ('option', t) ('list', t)
# --------------------------------------------------------------------------------------------

def type_of(v):
    k = v[0]
    if k == 'nat':
        return 'nat'
    if k == 'str':
        return 'string'
    if k == 'addr':
        return 'address'
    if k == 'ticket':
        return ('ticket', type_of(v[2]))
    if k == 'pair':
        return ('pair', type_of(v[1]), type_of(v[2]))
    if k == 'some':
        return ('option', type_of(v[1]))
    if k == 'none':
        return ('option', v[1])
    if k == 'list':
        return ('list', v[1])
    if k == 'bool':
        return 'bool'
    if k in ('map', 'big_map'):
        return (k, v[1])
    if k == 'lam':
        return ('lambda', v[1], v[2])
    if k == 'left':
        return ('or', type_of(v[1]), v[2])
    if k == 'right':
        return ('or', v[1], type_of(v[2]))
    raise lib.InternalError(f'bad value {v!r}')


def is_content_ty(t):
    """comparable content types of the modelled domain: nat, string, options and pairs of them"""
    if t in ('nat', 'string'):
        return True
    if isinstance(t, tuple) and t[0] == 'option':
        return is_content_ty(t[1])
    if isinstance(t, tuple) and t[0] in ('pair', 'or'):
        return is_content_ty(t[1]) and is_content_ty(t[2])
    return False


def is_content(v):
    return v[0] in ('nat', 'str', 'none', 'some', 'pair', 'left', 'right') and is_content_ty(type_of(v))


def pushable(t):
    if isinstance(t, str) or t[0] == 'lambda':
        return True
    if t[0] in ('ticket', 'big_map'):
        return False
    return all(pushable(x) for x in t[1:])


def has_lam(v):
    if not isinstance(v, tuple):
        return False
    if v and v[0] == 'lam':
        return True
    return any(has_lam(x) if isinstance(x, tuple) else (isinstance(x, list) and any(has_lam(y) for y in x)) for x in v[1:])


def strip_lam(v):
    """closures are opaque on the pytezos side: compare them only as 'a closure'"""
    if isinstance(v, tuple):
        if v and v[0] == 'lam':
            return ('lam',)
        return tuple(strip_lam(x) for x in v)
    if isinstance(v, list):
        return [strip_lam(x) for x in v]
    return v


def duplicable(t):
    if isinstance(t, str) or t[0] == 'lambda':
        return True
    if t[0] == 'ticket':
        return False
    return all(duplicable(x) for x in t[1:])


def tickets_in(v):
    k = v[0]
    if k == 'ticket':
        yield v
    elif k == 'pair':
        yield from tickets_in(v[1])
        yield from tickets_in(v[2])
    elif k == 'some' or k == 'left':
        yield from tickets_in(v[1])
    elif k == 'right':
        yield from tickets_in(v[2])
    elif k == 'list':
        for x in v[2]:
            yield from tickets_in(x)
    elif k in ('map', 'big_map'):
        for _, x in v[2]:
            yield from tickets_in(x)


class Stuck(Exception):
    pass


class Outside(Exception):
    """the program leaves the modelled domain (TICKET on a content that is not a nat or string)"""


class RefMachine:
    """Independent reference semantics (Michelson reference for tickets; straightforward stack ops)."""

    def __init__(self, addr):
        self.self = addr
        self.stack = []  # top first
        self.minted = {}  # (ticketer, content) -> total
        self.lenient = False  # the run used an acceptance of pytezos beyond Michelson typing (ITER over a pair)

    def pop(self, n=1):
        if len(self.stack) < n:
            raise Stuck('stack too short')
        out, self.stack = self.stack[:n], self.stack[n:]
        return out

    def run(self, prog):
        for i in prog:
            self.step(i)

    def step(self, i):
        op = i[0]
        s = self.stack
        if op == 'SELF_IS':
            self.self = i[1]
        elif op == 'TICKET':
            item, amount = self.pop(2)
            if amount[0] != 'nat':
                raise Stuck('TICKET operands')
            if not is_content(item):
                raise Outside()
            if amount[1] > 0:
                key = (self.self, item)
                self.minted[key] = self.minted.get(key, 0) + amount[1]
                self.stack.insert(0, ('some', ('ticket', self.self, item, amount[1])))
            else:
                self.stack.insert(0, ('none', ('ticket', type_of(item))))
        elif op == 'READ_TICKET':
            (t,) = self.pop(1)
            if t[0] != 'ticket':
                raise Stuck('not a ticket')
            self.stack[0:0] = [('pair', ('addr', t[1]), ('pair', t[2], ('nat', t[3]))), t]
        elif op == 'SPLIT_TICKET':
            t, amounts = self.pop(2)
            if t[0] != 'ticket' or amounts[0] != 'pair' or amounts[1][0] != 'nat' or amounts[2][0] != 'nat':
                raise Stuck('SPLIT operands')
            l, r = amounts[1][1], amounts[2][1]
            if l > 0 and r > 0 and l + r == t[3]:
                self.stack.insert(0, ('some', ('pair', ('ticket', t[1], t[2], l), ('ticket', t[1], t[2], r))))
            else:
                tt = type_of(t)
                self.stack.insert(0, ('none', ('pair', tt, tt)))
        elif op == 'JOIN_TICKETS':
            (p,) = self.pop(1)
            if p[0] != 'pair' or p[1][0] != 'ticket' or p[2][0] != 'ticket' or type_of(p[1]) != type_of(p[2]):
                raise Stuck('JOIN operands')
            a, b = p[1], p[2]
            if a[1] == b[1] and a[2] == b[2]:
                self.stack.insert(0, ('some', ('ticket', a[1], a[2], a[3] + b[3])))
            else:
                self.stack.insert(0, ('none', type_of(a)))
        elif op == 'DUP':
            if not s or not duplicable(type_of(s[0])):
                raise Stuck('DUP')
            s.insert(0, s[0])
        elif op == 'DUPN':
            n = i[1]
            if n < 1 or len(s) < n or not duplicable(type_of(s[n - 1])):
                raise Stuck('DUP n')
            s.insert(0, s[n - 1])
        elif op == 'SWAP':
            a, b = self.pop(2)
            self.stack[0:0] = [b, a]
        elif op == 'DROP':
            self.pop(1)
        elif op == 'DIG':
            n = i[1]
            if len(s) < n + 1:
                raise Stuck('DIG')
            s.insert(0, s.pop(n))
        elif op == 'DUG':
            n = i[1]
            if len(s) < n + 1:
                raise Stuck('DUG')
            x = s.pop(0)
            s.insert(n, x)
        elif op == 'PAIR':
            a, b = self.pop(2)
            self.stack.insert(0, ('pair', a, b))
        elif op in ('UNPAIR', 'CAR', 'CDR'):
            (p,) = self.pop(1)
            if p[0] != 'pair':
                raise Stuck('not a pair')
            self.stack[0:0] = {'UNPAIR': [p[1], p[2]], 'CAR': [p[1]], 'CDR': [p[2]]}[op]
        elif op == 'SOME':
            (x,) = self.pop(1)
            self.stack.insert(0, ('some', x))
        elif op == 'NONE':
            s.insert(0, ('none', i[1]))
        elif op == 'IF_NONE':
            (o,) = self.pop(1)
            if o[0] == 'none':
                self.run(i[1])
            elif o[0] == 'some':
                self.stack.insert(0, o[1])
                self.run(i[2])
            else:
                raise Stuck('not an option')
        elif op == 'NIL':
            s.insert(0, ('list', i[1], []))
        elif op == 'CONS':
            x, l = self.pop(2)
            if l[0] != 'list' or l[1] != type_of(x):
                raise Stuck('CONS')
            self.stack.insert(0, ('list', l[1], [x] + l[2]))
        elif op == 'IF_CONS':
            (l,) = self.pop(1)
            if l[0] != 'list':
                raise Stuck('not a list')
            if l[2]:
                self.stack[0:0] = [l[2][0], ('list', l[1], l[2][1:])]
                self.run(i[1])
            else:
                self.run(i[2])
        elif op == 'ITER':
            (l,) = self.pop(1)
            if l[0] == 'list':
                items = l[2]
            elif l[0] == 'pair':       # pytezos: no type assertion, a pair iterates over its two components
                items = [l[1], l[2]]
                self.lenient = True
            elif l[0] == 'map':
                items = [('pair', ('nat', kk), vv) for kk, vv in l[2]]
            elif l[0] == 'big_map':
                raise Outside()
            else:
                raise Stuck('not iterable')
            for x in items:
                self.stack.insert(0, x)
                self.run(i[1])
        elif op in ('LEFT', 'RIGHT'):
            (x,) = self.pop(1)
            self.stack.insert(0, ('left', x, i[1]) if op == 'LEFT' else ('right', i[1], x))
        elif op == 'IF_LEFT':
            (o,) = self.pop(1)
            if o[0] == 'left':
                self.stack.insert(0, o[1])
                self.run(i[1])
            elif o[0] == 'right':
                self.stack.insert(0, o[2])
                self.run(i[2])
            else:
                raise Stuck('not an or')
        elif op == 'LAMBDA':
            s.insert(0, ('lam', i[1], i[2], (), tuple(i[3])))
        elif op == 'APPLY':
            x, lam = self.pop(2)
            if lam[0] != 'lam' or not (isinstance(lam[1], tuple) and lam[1][0] == 'pair') or lam[1][1] != type_of(x):
                raise Stuck('APPLY operands')
            self.stack.insert(0, ('lam', lam[1][2], lam[2], lam[3] + (x,), lam[4]))
        elif op == 'EXEC':
            x, lam = self.pop(2)
            if lam[0] != 'lam' or lam[1] != type_of(x):
                raise Stuck('EXEC operands')
            if not all(pushable(type_of(c)) for c in lam[3]):
                raise Stuck('captured value is not pushable')
            arg = x
            for c in reversed(lam[3]):
                arg = ('pair', c, arg)
            outer = self.stack
            self.stack = [arg]
            try:
                self.run(list(lam[4]))
                inner = self.stack
            finally:
                self.stack = outer
            if len(inner) != 1 or type_of(inner[0]) != lam[2]:
                raise Stuck('lambda result')
            self.stack.insert(0, inner[0])
        elif op == 'LOOP':
            n = 0
            while True:
                (c,) = self.pop(1)
                if c[0] != 'bool':
                    raise Stuck('LOOP condition')
                if not c[1]:
                    break
                n += 1
                if n > 50:
                    raise Outside()
                self.run(i[1])
        elif op == 'PUSH_BOOL':
            s.insert(0, ('bool', i[1]))
        elif op == 'EMPTY_MAP':
            s.insert(0, ('big_map' if i[1] else 'map', i[2], []))
        elif op in ('UPDATE', 'GET_AND_UPDATE'):
            k, o, m = self.pop(3)
            if k[0] != 'nat' or o[0] not in ('some', 'none') or m[0] not in ('map', 'big_map'):
                raise Stuck('map update operands')
            if o[0] == 'some' and type_of(o[1]) != m[1]:
                raise Outside()          # ill-typed Michelson: pytezos does not check the value type (observation in docs/C20.md)
            old = dict(m[2]).get(k[1])
            ents = [(kk, vv) for kk, vv in m[2] if kk != k[1]]
            if o[0] == 'some':
                ents = sorted(ents + [(k[1], o[1])], key=lambda e: e[0])
            self.stack.insert(0, (m[0], m[1], ents))
            if op == 'GET_AND_UPDATE':
                self.stack.insert(0, ('none', m[1]) if old is None else ('some', old))
        elif op in ('MEM', 'GET'):
            k, m = self.pop(2)
            if k[0] != 'nat' or m[0] not in ('map', 'big_map'):
                raise Stuck('map lookup operands')
            old = dict(m[2]).get(k[1])
            if op == 'MEM':
                self.stack.insert(0, ('bool', old is not None))
            else:
                if not duplicable(m[1]):
                    raise Stuck('use GET_AND_UPDATE instead')
                self.stack.insert(0, ('none', m[1]) if old is None else ('some', old))
        elif op == 'MAP':
            (l,) = self.pop(1)
            if l[0] in ('map', 'big_map'):
                raise Outside()
            if l[0] != 'list':
                raise Stuck('MAP: not a list')       # a pair is iterated by pytezos but PairType.from_items does not exist
            items = []
            for x in l[2]:
                self.stack.insert(0, x)
                self.run(i[1])
                (y,) = self.pop(1)
                items.append(y)
            if items:
                t0 = type_of(items[0])
                if any(type_of(y) != t0 for y in items[1:]):
                    raise Stuck('MAP: heterogeneous result')
                self.stack.insert(0, ('list', t0, items))
            else:
                self.stack.insert(0, l)
        elif op == 'PUSH_NAT':
            if i[1] < 0:
                raise Stuck('negative nat')
            s.insert(0, ('nat', i[1]))
        elif op == 'PUSH_STR':
            s.insert(0, ('str', i[1]))
        else:
            raise lib.InternalError(f'unknown instruction {i!r}')


def ref_run(addr, prog):
    m = RefMachine(addr)
    try:
        m.run(prog)
    except Stuck:
        return ('fail',), m
    except Outside:
        return ('outside',), m
    return ('ok', list(m.stack)), m


# --------------------------------------------------------------------------------------------
# text and Coq rendering
# --------------------------------------------------------------------------------------------

def ty_text(t):
    if isinstance(t, str):
        return t
    if t[0] in ('map', 'big_map'):
        return f'({t[0]} nat {ty_text(t[1])})'
    return '(' + t[0] + ' ' + ' '.join(ty_text(x) for x in t[1:]) + ')'


def instr_text(i):
    op = i[0]
    if op in ('DUPN', 'DIG', 'DUG'):
        return f'{"DUP" if op == "DUPN" else op} {i[1]}'
    if op in ('NONE', 'NIL', 'LEFT', 'RIGHT'):
        return f'{op} {ty_text(i[1])}'
    if op in ('IF_NONE', 'IF_CONS', 'IF_LEFT'):
        return f'{op} {{ {prog_text(i[1])} }} {{ {prog_text(i[2])} }}'
    if op == 'LAMBDA':
        return f'LAMBDA {ty_text(i[1])} {ty_text(i[2])} {{ {prog_text(i[3])} }}'
    if op == 'LOOP':
        return f'LOOP {{ {prog_text(i[1])} }}'
    if op == 'PUSH_BOOL':
        return f'PUSH bool {"True" if i[1] else "False"}'
    if op == 'EMPTY_MAP':
        return f'{"EMPTY_BIG_MAP" if i[1] else "EMPTY_MAP"} nat {ty_text(i[2])}'
    if op in ('ITER', 'MAP'):
        return f'{op} {{ {prog_text(i[1])} }}'
    if op == 'PUSH_NAT':
        return f'PUSH nat {i[1]}'
    if op == 'PUSH_STR':
        return f'PUSH string "{i[1]}"'
    return op


def prog_text(p):
    return ' ; '.join(instr_text(i) for i in p)


def coq_cty(t):
    if isinstance(t, str):
        return {'nat': 'CNat', 'string': 'CString'}[t]
    if t[0] == 'option':
        return f'(COption {coq_cty(t[1])})'
    return f'({"COr" if t[0] == "or" else "CPair"} {coq_cty(t[1])} {coq_cty(t[2])})'


def coq_cval(c):
    k = c[0]
    if k == 'nat':
        return f'(CN {cZ(c[1])})'
    if k == 'str':
        return f'(CS {coq_bytes(c[1])})'
    if k == 'none':
        return f'(CNone {coq_cty(c[1])})'
    if k == 'some':
        return f'(CSome {coq_cval(c[1])})'
    if k == 'left':
        return f'(CLeft {coq_cval(c[1])} {coq_cty(c[2])})'
    if k == 'right':
        return f'(CRight {coq_cty(c[1])} {coq_cval(c[2])})'
    return f'(CPairV {coq_cval(c[1])} {coq_cval(c[2])})'


def coq_ty(t):
    if isinstance(t, str):
        return {'nat': 'TNat', 'string': 'TString', 'address': 'TAddress', 'bool': 'TBool'}[t]
    if t[0] in ('map', 'big_map'):
        return f'(TMap {"true" if t[0] == "big_map" else "false"} {coq_ty(t[1])})'
    if t[0] == 'lambda':
        return f'(TLambda {coq_ty(t[1])} {coq_ty(t[2])})'
    if t[0] == 'or':
        return f'(TOr {coq_ty(t[1])} {coq_ty(t[2])})'
    if t[0] == 'ticket':
        return f'(TTicket {coq_cty(t[1])})'
    if t[0] == 'pair':
        return f'(TPair {coq_ty(t[1])} {coq_ty(t[2])})'
    return f'({"TOption" if t[0] == "option" else "TList"} {coq_ty(t[1])})'


ADDR_NAMES = {}


def coq_bytes(s):
    if s in ADDR_NAMES:
        return ADDR_NAMES[s]
    return chex(s.encode('ascii'))


def coq_prelude(addrs):
    """addresses are long literals that occur in every ticket: name them once"""
    out = []
    for i, a in enumerate(addrs):
        out.append(f'Definition addr{i} : bytes := Eval vm_compute in {chex(a.encode("ascii"))}.')
        ADDR_NAMES[a] = f'addr{i}'
    return '\n'.join(out)


def coq_val(v):
    k = v[0]
    if k == 'nat':
        return f'(VNat {cZ(v[1])})'
    if k == 'str':
        return f'(VStr {coq_bytes(v[1])})'
    if k == 'addr':
        return f'(VAddr {coq_bytes(v[1])})'
    if k == 'ticket':
        return f'(VTicket {coq_bytes(v[1])} {coq_cval(v[2])} {cZ(v[3])})'
    if k == 'pair':
        return f'(VPair {coq_val(v[1])} {coq_val(v[2])})'
    if k == 'some':
        return f'(VSome {coq_val(v[1])})'
    if k == 'none':
        return f'(VNone {coq_ty(v[1])})'
    if k == 'list':
        return f'(VList {coq_ty(v[1])} {clist(coq_val(x) for x in v[2])})'
    if k == 'left':
        return f'(VLeft {coq_val(v[1])} {coq_ty(v[2])})'
    if k == 'right':
        return f'(VRight {coq_ty(v[1])} {coq_val(v[2])})'
    if k == 'bool':
        return f'(VBool {"true" if v[1] else "false"})'
    if k in ('map', 'big_map'):
        ents = clist(f'({cZ(kk)}, {coq_val(vv)})' for kk, vv in v[2])
        return f'(VMap {"true" if k == "big_map" else "false"} {coq_ty(v[1])} {ents})'
    raise lib.InternalError(f'bad value {v!r}')


def coq_instr(i):
    op = i[0]
    if op in ('DUPN', 'DIG', 'DUG'):
        return f'({op} {cnat(i[1])})'
    if op in ('NONE', 'NIL', 'LEFT', 'RIGHT'):
        return f'({op} {coq_ty(i[1])})'
    if op in ('IF_NONE', 'IF_CONS', 'IF_LEFT'):
        return f'({op} {coq_prog(i[1])} {coq_prog(i[2])})'
    if op == 'LAMBDA':
        return f'(LAMBDA {coq_ty(i[1])} {coq_ty(i[2])} {coq_prog(i[3])})'
    if op == 'LOOP':
        return f'(LOOP {coq_prog(i[1])})'
    if op == 'PUSH_BOOL':
        return f'(PUSH_BOOL {"true" if i[1] else "false"})'
    if op == 'EMPTY_MAP':
        return f'(EMPTY_MAP {"true" if i[1] else "false"} {coq_ty(i[2])})'
    if op in ('ITER', 'MAP'):
        return f'({op} {coq_prog(i[1])})'
    if op == 'PUSH_NAT':
        return f'(PUSH_NAT {cZ(i[1])})'
    if op in ('PUSH_STR', 'SELF_IS'):
        return f'({op} {coq_bytes(i[1])})'
    return op


def coq_prog(p):
    return clist(coq_instr(i) for i in p)


def coq_obs(o):
    return f'(Ok {clist(coq_val(v) for v in o[1])})' if o[0] == 'ok' else 'Reject'


# --------------------------------------------------------------------------------------------
# the implementation
# --------------------------------------------------------------------------------------------

_INTERP = None


def interpreter():
    global _INTERP
    if _INTERP is None:
        from pytezos.michelson.repl import Interpreter
        _INTERP = Interpreter()
    _INTERP.reset()
    return _INTERP


def canon_ty(e):
    p = e['prim']
    if p in ('nat', 'string', 'address'):
        return p
    if p == 'ticket':
        return ('ticket', canon_ty(e['args'][0]))
    if p == 'pair':
        assert len(e['args']) == 2
        return ('pair', canon_ty(e['args'][0]), canon_ty(e['args'][1]))
    if p in ('option', 'list'):
        return (p, canon_ty(e['args'][0]))
    if p == 'bool':
        return 'bool'
    if p == 'lambda':
        return ('lambda', canon_ty(e['args'][0]), canon_ty(e['args'][1]))
    if p == 'or':
        return ('or', canon_ty(e['args'][0]), canon_ty(e['args'][1]))
    if p in ('map', 'big_map') and e['args'][0]['prim'] == 'nat':
        return (p, canon_ty(e['args'][1]))
    raise ValueError(f'type outside the modelled domain: {p}')


def canon_item(x):
    from pytezos.michelson import types as T
    if isinstance(x, T.TicketType):
        return ('ticket', x.ticketer, canon_item(x.item), int(x.amount))
    if isinstance(x, T.PairType):
        a, b = x.items
        return ('pair', canon_item(a), canon_item(b))
    if isinstance(x, T.OptionType):
        if x.is_none():
            return ('none', canon_ty(type(x).as_micheline_expr()['args'][0]))
        return ('some', canon_item(x.get_some()))
    if isinstance(x, T.MapType):     # also BigMapType (subclass); on-chain content is not part of this model
        t = canon_ty(type(x).as_micheline_expr())
        ents = sorted(((int(k), canon_item(v)) for k, v in x.items if v is not None), key=lambda e: e[0])
        return (t[0], t[1], ents)
    if x.prim == 'bool':
        return ('bool', bool(x))
    if x.prim == 'lambda':
        return ('lam',)
    if x.prim == 'or':
        t = canon_ty(type(x).as_micheline_expr())
        return ('left', canon_item(x.resolve()), t[2]) if x.is_left() else ('right', t[1], canon_item(x.resolve()))
    if isinstance(x, T.ListType):
        return ('list', canon_ty(type(x).as_micheline_expr()['args'][0]), [canon_item(y) for y in x.items])
    if x.prim == 'address':
        return ('addr', str(x))
    if x.prim == 'string':
        return ('str', str(x))
    if x.prim == 'nat':
        return ('nat', int(x))
    raise ValueError(f'value outside the modelled domain: {type(x).__name__}')


def segments(prog):
    """split at top-level SELF_IS -> [(addr or None, [instr])]"""
    out = [(None, [])]
    for i in prog:
        if i[0] == 'SELF_IS':
            out.append((i[1], []))
        else:
            out[-1][1].append(i)
    return out


def run_impl(addr, prog):
    interp = interpreter()
    interp.context.address = addr
    for a, seg in segments(prog):
        if a is not None:
            interp.context.address = a
        if not seg:
            continue
        ok, res = lib.call(interp.execute, prog_text(seg))
        if not ok or res.error is not None:
            return ('fail',)
    try:
        return ('ok', [canon_item(x) for x in interp.stack.items])
    except (ValueError, AssertionError) as e:
        return ('other', repr(e))


def repro(addr, prog):
    lines = ['from pytezos.michelson.repl import Interpreter', 'i = Interpreter()', f'i.context.address = {addr!r}']
    for a, seg in segments(prog):
        if a is not None:
            lines.append(f'i.context.address = {a!r}')
        if seg:
            lines.append(f'r = i.execute({prog_text(seg)!r}); print(r.error)')
    lines.append('print(i.stack.items)')
    return '; '.join(lines)


# --------------------------------------------------------------------------------------------
# generators
# --------------------------------------------------------------------------------------------

STRS = ['', 'a', 'b', 'ab', 'xyz']
AMOUNTS = [0, 0, 1, 1, 2, 3, 5, 7, 10, 100, (1 << 64) + 1]
SMALL_TYS = ['nat', 'string', ('ticket', 'nat'), ('ticket', 'string'), ('pair', 'nat', ('ticket', 'nat')),
             ('option', ('ticket', 'nat')), ('list', ('ticket', 'string')), 'address']


def is_ticket(v):
    return v[0] == 'ticket'


def random_instr(rng, depth=0):
    """any instruction, regardless of the stack (malformed stream / dead branches)"""
    k = rng.randrange(24)
    simple = ['TICKET', 'READ_TICKET', 'SPLIT_TICKET', 'JOIN_TICKETS', 'DUP', 'SWAP', 'DROP', 'PAIR', 'UNPAIR', 'CAR', 'CDR', 'SOME', 'CONS']
    if k < len(simple):
        return (simple[k],)
    if k == 13:
        return ('DUPN', rng.randrange(1, 4))
    if k == 14:
        return ('DIG', rng.randrange(0, 4))
    if k == 15:
        return ('DUG', rng.randrange(0, 4))
    if k == 16:
        return ('NONE', rng.choice(SMALL_TYS))
    if k == 17:
        return ('NIL', rng.choice(SMALL_TYS))
    if k == 18:
        return ('PUSH_NAT', rng.choice(AMOUNTS))
    if k == 19:
        return ('PUSH_STR', rng.choice(STRS))
    if k == 23 and rng.random() < 0.4:
        return rng.choice([('EXEC',), ('APPLY',), ('PUSH_BOOL', rng.random() < 0.5), ('LAMBDA', ('ticket', 'nat'), ('ticket', 'nat'), []),
                           ('LAMBDA', ('pair', 'nat', 'nat'), 'nat', [('CAR',)])])
    if k == 23:
        return rng.choice([('UPDATE',), ('GET_AND_UPDATE',), ('MEM',), ('GET',), ('EMPTY_MAP', rng.random() < 0.5, rng.choice(SMALL_TYS[:6]))])
    if k == 22 and depth < 2:
        return (rng.choice(['ITER', 'MAP']), [random_instr(rng, depth + 1) for _ in range(rng.randrange(0, 3))])
    if k in (20, 21) and depth < 2:
        return (rng.choice(['IF_NONE', 'IF_CONS', 'IF_LEFT']), [random_instr(rng, depth + 1) for _ in range(rng.randrange(0, 3))],
                [random_instr(rng, depth + 1) for _ in range(rng.randrange(0, 3))])
    return ('PUSH_NAT', rng.choice(AMOUNTS))


def content_prog(c):
    """instructions that push the content value c"""
    k = c[0]
    if k == 'nat':
        return [('PUSH_NAT', c[1])]
    if k == 'str':
        return [('PUSH_STR', c[1])]
    if k == 'none':
        return [('NONE', c[1])]
    if k == 'some':
        return content_prog(c[1]) + [('SOME',)]
    if k == 'left':
        return content_prog(c[1]) + [('LEFT', c[2])]
    if k == 'right':
        return content_prog(c[2]) + [('RIGHT', c[1])]
    return content_prog(c[2]) + content_prog(c[1]) + [('PAIR',)]


def mint(c, n):
    return [('PUSH_NAT', n)] + content_prog(c) + [('TICKET',), ('IF_NONE', [('PUSH_NAT', 99)], [])]


OO = [('none', ('option', 'nat')), ('some', ('none', 'nat')), ('some', ('some', ('nat', 0))), ('some', ('some', ('nat', 1)))]
RICH = {
    'option (option nat)': OO,
    'pair (option (option nat)) nat': [('pair', x, ('nat', 1)) for x in OO[:3]],
    'option nat': [('none', 'nat'), ('some', ('nat', 0)), ('some', ('nat', 1))],
    'or nat nat': [('left', ('nat', 1), 'nat'), ('right', 'nat', ('nat', 1)), ('left', ('nat', 0), 'nat')],
    'or (option nat) string': [('left', ('none', 'nat'), 'string'), ('left', ('some', ('nat', 0)), 'string'), ('right', ('option', 'nat'), ('str', ''))],
    'pair nat string': [('pair', ('nat', 0), ('str', 'a')), ('pair', ('nat', 1), ('str', '')), ('pair', ('nat', 0), ('str', ''))],
}


def applicable(rng, m, depth):
    """instructions that make sense on the reference machine's current stack, weighted towards ticket operations"""
    s = m.stack
    out = []
    top = s[0] if s else None
    snd = s[1] if len(s) > 1 else None
    if top is None or len(s) < 6:
        out += [('PUSH_NAT', rng.choice(AMOUNTS))] * 2 + [('PUSH_STR', rng.choice(STRS))]
    if top and is_content(top) and snd and snd[0] == 'nat':
        out += [('TICKET',)] * 6
    if top and top[0] in ('nat', 'str') and not (snd and snd[0] == 'nat'):
        # arrange for a TICKET: push an amount below the content
        out += [('PUSH_NAT', rng.choice(AMOUNTS)), ('SWAP',)] if snd else []
    if len(s) < 5 and rng.random() < 0.3:
        out += [('SEQ', mint(rng.choice(rng.choice(list(RICH.values()))), rng.choice([1, 2, 4, 6, 10])))] * 3
    if top and is_ticket(top) and top[3] >= 2:
        # SPLIT_TICKET with a prepared amounts pair: equal halves often (aliasing between the two results), also invalid ones
        a = top[3]
        k = rng.random()
        if k < 0.45 and a % 2 == 0:
            l = a // 2
            r = a - l
        elif k < 0.8:
            l = rng.randrange(1, a)
            r = a - l
        else:
            l, r = rng.choice([(0, a), (a, 0), (1, a), (a // 2, a // 2 + 1)])
        out += [('SEQ', [('PUSH_NAT', r), ('PUSH_NAT', l), ('PAIR',), ('SWAP',), ('SPLIT_TICKET',)])] * 6
    if top and is_ticket(top) and top[1] == m.self:
        # mint another ticket with the same key and join it with the one on top (either operand order);
        # whatever lies below (e.g. the other half of a split) stays alive and is compared at the end
        tail = rng.choice([[('PAIR',)], [('SWAP',), ('PAIR',)]]) + [('JOIN_TICKETS',)]
        out += [('SEQ', mint(top[2], rng.choice([1, 3, 5])) + tail)] * 5
    if top and is_ticket(top) and rng.random() < 0.5:
        # park the ticket in a map / big_map (a fresh one, or the one right below if it has the right value type)
        k = rng.choice([0, 1, 2, 7])
        if snd and snd[0] in ('map', 'big_map') and snd[1] == type_of(top):
            out += [('SEQ', [('SOME',), ('PUSH_NAT', k), rng.choice([('UPDATE',), ('GET_AND_UPDATE',)])])] * 4
        else:
            out += [('SEQ', [('EMPTY_MAP', rng.random() < 0.5, type_of(top)), ('SWAP',), ('SOME',), ('PUSH_NAT', k), ('UPDATE',)])] * 3
    if top and top[0] in ('map', 'big_map'):
        keys = [kk for kk, _ in top[2]] or [0]
        k = rng.choice(keys + [rng.choice([0, 1, 2, 7, 9])])
        out += [('SEQ', [('NONE', top[1]), ('PUSH_NAT', k), ('GET_AND_UPDATE',)])] * 6
        out += [('SEQ', [('NONE', top[1]), ('PUSH_NAT', k), ('UPDATE',)])] * 2
        out += [('SEQ', [('PUSH_NAT', k), ('MEM',)]), ('SEQ', [('PUSH_NAT', k), ('GET',)]), ('DUP',)]
        if top[0] == 'map' and depth < 3:
            out += [('ITER',)] * 2
    if top and is_ticket(top):
        out += [('READ_TICKET',)] * 2 + [('SOME',), ('DROP',)]
        if snd and is_ticket(snd):
            out += [('PAIR',)] * 4
        if snd and snd[0] == 'pair' and snd[1][0] == 'nat' and snd[2][0] == 'nat':
            out += [('SPLIT_TICKET',)] * 8
        if snd and snd[0] == 'list' and snd[1] == type_of(top):
            out += [('CONS',)] * 3
        out += [('NIL', type_of(top))]
    if top and top[0] == 'pair':
        if is_ticket(top[1]) and is_ticket(top[2]):
            out += [('JOIN_TICKETS',)] * 6 + [('UNPAIR',)] * 8
        out += [('UNPAIR',)] * 3 + [('CAR',), ('CDR',)]
    if top and top[0] == 'nat' and snd and snd[0] == 'nat':
        out += [('PAIR',)] * 2
    if top and top[0] == 'pair' and top[1][0] == 'nat' and top[2][0] == 'nat':
        # bring a ticket above the amounts pair
        for n, v in enumerate(s[1:4], start=1):
            if is_ticket(v):
                out += [('DIG', n)] * 4
    if top and top[0] in ('some', 'none') and depth < 3:
        out += [('IF_NONE',)] * 6
    if top and top[0] in ('left', 'right') and depth < 3:
        out += [('IF_LEFT',)] * 6
    if top and rng.random() < 0.08:
        out += [(rng.choice(['LEFT', 'RIGHT']), rng.choice(['nat', 'string', ('ticket', 'nat')]))] * 2
    if top and top[0] == 'list' and depth < 3:
        out += [('IF_CONS',)] * 3 + [('ITER',)] * 3 + [('MAP',)] * 3
    if top and top[0] == 'pair' and depth < 3 and rng.random() < 0.1:
        out += [('ITER',)]
    if len(s) >= 2:
        out += [('SWAP',), ('DIG', rng.randrange(0, len(s))), ('DUG', rng.randrange(0, len(s))), ('PAIR',)]
        n = rng.randrange(1, len(s) + 1)
        if duplicable(type_of(s[n - 1])) or rng.random() < 0.1:
            out += [('DUPN', n)]
    if top:
        out += [('SOME',)]
        if duplicable(type_of(top)) or rng.random() < 0.1:
            out += [('DUP',)]
    if rng.random() < 0.15:
        out += [('NONE', rng.choice(SMALL_TYS)), ('NIL', rng.choice(SMALL_TYS))]
    return out or [('PUSH_NAT', 1)]


def gen_block(rng, m, n, depth, p_bad):
    """generate up to n instructions following the reference machine m (mutated in place).
    Returns (program, stuck): when an instruction gets the machine stuck it is kept as the last one."""
    prog = []
    for _ in range(n):
        if rng.random() < p_bad:
            i = random_instr(rng, depth)
        else:
            i = rng.choice(applicable(rng, m, depth))
        if i[0] == 'SEQ':
            for j in i[1]:
                prog.append(j)
                try:
                    m.step(j)
                except (Stuck, Outside):
                    return prog, True
            continue
        if i[0] in ('IF_NONE', 'IF_CONS', 'IF_LEFT') and len(i) == 1:
            top = m.stack[0]
            taken_first = {'IF_NONE': top[0] == 'none', 'IF_CONS': top[0] == 'list' and len(top[2]) > 0, 'IF_LEFT': top[0] == 'left'}[i[0]]
            # the taken branch follows the machine, the dead branch is blind
            m.pop(1)
            if i[0] == 'IF_NONE' and top[0] == 'some':
                m.stack.insert(0, top[1])
            if i[0] == 'IF_LEFT':
                m.stack.insert(0, top[1] if taken_first else top[2])
            if i[0] == 'IF_CONS' and taken_first:
                m.stack[0:0] = [top[2][0], ('list', top[1], top[2][1:])]
            taken, stuck = gen_block(rng, m, rng.randrange(0, 4), depth + 1, p_bad)
            other = [random_instr(rng, depth + 1) for _ in range(rng.randrange(0, 3))]
            prog.append((i[0], taken, other) if taken_first else (i[0], other, taken))
            if stuck:
                return prog, True
            continue
        if i[0] == 'MAP' and len(i) == 1:
            top = m.stack[0]
            if top[2]:
                probe = RefMachine(m.self)
                probe.stack = [top[2][0]] + list(m.stack[1:])
                body, _ = gen_block(rng, probe, rng.randrange(0, 3), depth + 1, p_bad)
                if rng.random() < 0.5:
                    body = rng.choice([[], [('SOME',)], [('READ_TICKET',), ('DROP',)], [('PUSH_NAT', 1), ('PAIR',)], [('DROP',), ('PUSH_NAT', 1)],
                                       [('READ_TICKET',), ('SWAP',), ('DROP',)], [('DUP',)]])
            else:
                body = [random_instr(rng, depth + 1) for _ in range(rng.randrange(0, 3))]
            i = ('MAP', body)
        if i[0] == 'ITER' and len(i) == 1:
            top = m.stack[0]
            items = top[2] if top[0] == 'list' else ([('pair', ('nat', kk), vv) for kk, vv in top[2]] if top[0] == 'map' else [top[1], top[2]])
            if items:
                probe = RefMachine(m.self)
                probe.stack = [items[0]] + list(m.stack[1:])
                body, _ = gen_block(rng, probe, rng.randrange(0, 4), depth + 1, p_bad)
                if not body and items[0][0] == 'ticket' and rng.random() < 0.7:
                    body = rng.choice([[('DROP',)], [('SOME',), ('DROP',)], [('READ_TICKET',), ('DROP',), ('DROP',)]])
            else:
                body = [random_instr(rng, depth + 1) for _ in range(rng.randrange(0, 3))]
            i = ('ITER', body)
        prog.append(i)
        try:
            m.step(i)
        except (Stuck, Outside):
            return prog, True
    return prog, False


def gen_program(rng, addrs, length, p_bad):
    addr = rng.choice(addrs)
    m = RefMachine(addr)
    prog = []
    nseg = rng.choice([1, 1, 2, 3])
    for k in range(nseg):
        if k:
            a = rng.choice(addrs)
            prog.append(('SELF_IS', a))
            m.step(('SELF_IS', a))
        block, stuck = gen_block(rng, m, max(1, length // nseg), 0, p_bad)
        prog += block
        if stuck:
            break
    return addr, prog


def split_join_unit_cases(rng, addrs):
    """single-step programs aimed at the decision points of SPLIT / JOIN / TICKET / DUP"""
    out = []
    a0, a1 = addrs[0], addrs[1]
    for amt in (1, 2, 3, 10):
        for l, r in ((0, amt), (amt, 0), (1, amt - 1), (amt - 1, 1), (amt, amt), (0, 0), (1, amt), (amt + 1, 0), (amt // 2, amt - amt // 2)):
            if l < 0 or r < 0:
                continue
            out.append((a0, [('PUSH_NAT', r), ('PUSH_NAT', l), ('PAIR',), ('PUSH_NAT', amt), ('PUSH_STR', 'a'), ('TICKET',),
                             ('IF_NONE', [('PUSH_NAT', 99)], [('SPLIT_TICKET',)])]))
    mk = lambda c, n: [('PUSH_NAT', n), c, ('TICKET',), ('IF_NONE', [('PUSH_NAT', 99)], [])]  # noqa: E731
    for (ca, cb, sa, sb) in ((('PUSH_NAT', 1), ('PUSH_NAT', 1), a0, a0), (('PUSH_NAT', 1), ('PUSH_NAT', 2), a0, a0),
                             (('PUSH_NAT', 1), ('PUSH_NAT', 1), a0, a1), (('PUSH_STR', 'a'), ('PUSH_STR', 'a'), a0, a0),
                             (('PUSH_STR', 'a'), ('PUSH_STR', 'b'), a1, a1), (('PUSH_STR', ''), ('PUSH_NAT', 0), a0, a0),
                             (('PUSH_STR', 'a'), ('PUSH_STR', 'a'), a1, a0)):
        n1, n2 = rng.choice([1, 2, 5]), rng.choice([1, 3, 7])
        out.append((sa, mk(ca, n1) + [('SELF_IS', sb)] + mk(cb, n2) + [('PAIR',), ('JOIN_TICKETS',)]))
        out.append((sa, mk(ca, n1) + [('SELF_IS', sb)] + mk(cb, n2) + [('PAIR',), ('JOIN_TICKETS',),
                                                                     ('IF_NONE', [], [('READ_TICKET',), ('CDR',), ('CDR',)])]))
    for n in (0, 1, 5):
        out.append((a0, [('PUSH_NAT', n), ('PUSH_STR', 'a'), ('TICKET',)]))
        out.append((a0, [('PUSH_NAT', n), ('PUSH_NAT', 7), ('TICKET',), ('DUP',)]))
        out.append((a0, [('PUSH_NAT', n), ('PUSH_NAT', 7), ('TICKET',), ('IF_NONE', [('PUSH_NAT', 0)], [('DUP',)])]))
        out.append((a0, [('PUSH_NAT', n), ('PUSH_NAT', 7), ('TICKET',), ('IF_NONE', [('PUSH_NAT', 0)], [('PUSH_NAT', 3), ('PAIR',), ('DUP',)])]))
        out.append((a0, [('PUSH_NAT', n), ('PUSH_NAT', 7), ('TICKET',), ('IF_NONE', [('PUSH_NAT', 0)], [('PUSH_NAT', 3), ('SWAP',), ('DUPN', 2)])]))
        out.append((a0, [('PUSH_NAT', n), ('PUSH_NAT', 7), ('TICKET',), ('IF_NONE', [('PUSH_NAT', 0)], [('PUSH_NAT', 3), ('DUPN', 2)])]))
        out.append((a0, [('PUSH_NAT', n), ('PUSH_NAT', 7), ('TICKET',), ('IF_NONE', [('PUSH_NAT', 0)],
                                                                       [('NIL', ('ticket', 'nat')), ('SWAP',), ('CONS',), ('DUP',)])]))
    tk = lambda n: [('PUSH_NAT', n), ('PUSH_NAT', 7), ('TICKET',), ('IF_NONE', [('PUSH_NAT', 99)], [])]  # noqa: E731
    two = tk(3) + [('NIL', ('ticket', 'nat')), ('SWAP',), ('CONS',)] + tk(2) + [('CONS',)]
    out.append((a0, two + [('ITER', [('DROP',)])]))
    out.append((a0, two + [('ITER', [('DUP',)])]))
    out.append((a0, two + [('ITER', [('READ_TICKET',), ('SWAP',), ('DROP',)])]))
    out.append((a0, tk(5) + two + [('ITER', [('PAIR',), ('JOIN_TICKETS',), ('IF_NONE', [('PUSH_NAT', 99)], [])])]))
    out.append((a0, tk(5) + [('SELF_IS', a1)] + two + [('ITER', [('PAIR',), ('JOIN_TICKETS',), ('IF_NONE', [('PUSH_NAT', 99)], [])])]))
    out.append((a0, [('PUSH_NAT', 1), ('PUSH_NAT', 2), ('PAIR',), ('ITER', [('DROP',)])]))
    out.append((a0, two + [('MAP', [])]))
    out.append((a0, two + [('MAP', [('READ_TICKET',), ('DROP',)])]))
    out.append((a0, two + [('MAP', [('READ_TICKET',), ('SWAP',), ('DROP',)])]))
    out.append((a0, two + [('MAP', [('DUP',)])]))
    out.append((a0, two + [('MAP', [('SOME',)]), ('ITER', [('IF_NONE', [], [('DROP',)])])]))
    out.append((a0, two + [('MAP', [('DROP',)])]))
    out.append((a0, two + [('MAP', [('PUSH_NAT', 1), ('PUSH_NAT', 1), ('PAIR',), ('SWAP',), ('SPLIT_TICKET',)])]))
    out.append((a0, [('NIL', ('ticket', 'nat')), ('MAP', [('DUP',)])]))
    out.append((a0, [('PUSH_NAT', 1), ('PUSH_NAT', 2), ('PAIR',), ('MAP', [])]))
    out.append((a0, tk(3) + [('PUSH_NAT', 5), ('NIL', 'nat'), ('SWAP',), ('CONS',), ('PUSH_NAT', 6), ('CONS',), ('MAP', [('DROP',), ('PUSH_STR', 'a')])]))
    out.append((a0, tk(4) + tk(6) + [('PAIR',), ('ITER', [('SOME',)])]))
    out.append((a0, [('PUSH_NAT', 1), ('ITER', [('DROP',)])]))
    out.append((a0, tk(4) + [('ITER', [('DROP',)])]))
    out.append((a0, tk(4) + [('SOME',), ('ITER', [('DROP',)])]))
    out.append((a0, [('PUSH_STR', 'ab'), ('ITER', [('DROP',)])]))
    # full grid of SPLIT_TICKET amounts for small tickets: every (left, right) in 0..N+1 x 0..N+1
    for n in (1, 2, 3, 5):
        for l in range(0, n + 2):
            for r in range(0, n + 2):
                out.append((a0, [('PUSH_NAT', r), ('PUSH_NAT', l), ('PAIR',)] + mint(('nat', 7), n) + [('SPLIT_TICKET',)]))
    for n, l, r in ((10, 3, 0), (10, 0, 3), (10, 10, 0), (10, 0, 10), (10, 3, 7), (100, 99, 0), ((1 << 64) + 1, 1 << 64, 0), ((1 << 64) + 1, 1 << 64, 1)):
        out.append((a0, [('PUSH_NAT', r), ('PUSH_NAT', l), ('PAIR',)] + mint(('str', 'a'), n) + [('SPLIT_TICKET',), ('IF_NONE', [], [('UNPAIR',), ('READ_TICKET',)])]))
    # contents beyond nat/string: JOIN_TICKETS must use Michelson equality (None vs Some None, Pair None 1 vs Pair (Some None) 1 ...)
    for fam in RICH.values():
        for c1 in fam:
            for c2 in fam:
                out.append((a0, mint(c1, 5) + mint(c2, 3) + [('PAIR',), ('JOIN_TICKETS',)]))
    out.append((a0, mint(OO[0], 5) + [('READ_TICKET',)]))
    out.append((a0, mint(('pair', OO[1], ('nat', 1)), 4) + [('PUSH_NAT', 2), ('PUSH_NAT', 2), ('PAIR',), ('SWAP',), ('SPLIT_TICKET',)]))
    # aliasing: the two results of a split must be independent tickets, and a join must not touch its operands' siblings
    A = ('str', 'A')
    some = lambda body: ('IF_NONE', [('PUSH_NAT', 99)], body)  # noqa: E731
    for l, r in ((5, 5), (3, 7), (1, 1), (2, 2), (50, 50)):
        split = [('PUSH_NAT', r), ('PUSH_NAT', l), ('PAIR',)] + mint(A, l + r) + [('SPLIT_TICKET',), some([('UNPAIR',)])]
        join_left = mint(A, 3) + [('SWAP',), ('PAIR',), ('JOIN_TICKETS',), some([])]          # (left half + 3) : right half
        join_right = [('SWAP',)] + join_left                                                      # (right half + 3) : left half
        new_left = mint(A, 3) + [('PAIR',), ('JOIN_TICKETS',), some([])]                         # (3 + left half) : right half
        finish = [('SWAP',), ('READ_TICKET',), ('CDR',), ('CDR',), ('DUG', 2), ('SWAP',), ('PAIR',), ('JOIN_TICKETS',), some([('READ_TICKET',)])]
        for j in (join_left, join_right, new_left):
            out.append((a0, split + j))
            out.append((a0, split + j + finish))
        out.append((a0, split + [('PAIR',), ('JOIN_TICKETS',), some([('READ_TICKET',)])]))
        out.append((a0, split + [('NIL', ('ticket', 'string')), ('SWAP',), ('CONS',), ('SWAP',)] + mint(A, 3) + [('SWAP',), ('PAIR',), ('JOIN_TICKETS',), some([])]))
        out.append((a0, split + [('SWAP',), ('SOME',), ('SWAP',)] + mint(A, 3) + [('SWAP',), ('PAIR',), ('JOIN_TICKETS',), some([]), ('SWAP',),
                                 ('IF_NONE', [], [('READ_TICKET',)])]))
    # closures: LAMBDA / APPLY / EXEC with tickets captured (must never come out) or passed (fine), DUP of closures, LOOP
    TNt = ('ticket', 'nat')
    shapes = [(TNt, [], []),
              (('pair', TNt, 'nat'), [('PUSH_NAT', 7), ('SWAP',), ('PAIR',)], [('CAR',)]),
              (('option', TNt), [('SOME',)], [('IF_NONE', [('PUSH_NAT', 99)], [])]),
              (('list', TNt), [('NIL', TNt), ('SWAP',), ('CONS',)], [('IF_CONS', [('SWAP',), ('DROP',)], [('PUSH_NAT', 99)])])]
    ex = [('PUSH_NAT', 0), ('EXEC',)]
    for ty, wrap, unwrap in shapes:
        clo = tk(5) + wrap + [('LAMBDA', ('pair', ty, 'nat'), TNt, [('CAR',)] + unwrap), ('SWAP',), ('APPLY',)]
        out.append((a0, clo))
        out.append((a0, clo + [('DUP',)]))
        out.append((a0, clo + ex))
        out.append((a0, clo + [('DUP',)] + ex + [('SWAP',)] + ex + [('PAIR',), ('JOIN_TICKETS',)]))
        out.append((a0, [('LAMBDA', ty, TNt, unwrap)] + tk(5) + wrap + [('EXEC',)]))
        out.append((a0, [('LAMBDA', ty, TNt, unwrap), ('DUP',)] + tk(5) + wrap + [('EXEC',), ('SWAP',), ('DROP',)]))
    out.append((a0, [('LAMBDA', TNt, ('pair', TNt, TNt), [('DUP',), ('PAIR',)])] + tk(5) + [('EXEC',)]))
    out.append((a0, [('LAMBDA', ('pair', TNt, TNt), ('option', TNt), [('JOIN_TICKETS',)])] + tk(5) + tk(3) + [('PAIR',), ('EXEC',)]))
    out.append((a0, [('LAMBDA', ('pair', TNt, ('pair', 'nat', 'nat')), ('option', ('pair', TNt, TNt)), [('UNPAIR',), ('SPLIT_TICKET',)]),
                     ('PUSH_NAT', 2), ('PUSH_NAT', 3), ('PAIR',)] + tk(5) + [('PAIR',), ('EXEC',)]))
    out.append((a0, [('LAMBDA', ('pair', 'nat', 'nat'), 'nat', [('CAR',)]), ('PUSH_NAT', 7), ('APPLY',), ('DUP',), ('PUSH_NAT', 1), ('EXEC',), ('SWAP',), ('PUSH_NAT', 2), ('EXEC',)]))
    out.append((a0, [('LAMBDA', ('pair', 'nat', ('pair', 'string', 'nat')), 'string', [('CDR',), ('CAR',)]), ('PUSH_NAT', 7), ('APPLY',), ('PUSH_STR', 'ab'), ('APPLY',), ('PUSH_NAT', 1), ('EXEC',)]))
    out.append((a0, [('LAMBDA', 'nat', ('option', TNt), [('PUSH_NAT', 42), ('TICKET',)]), ('DUP',), ('PUSH_NAT', 4), ('EXEC',), ('SWAP',), ('PUSH_NAT', 6), ('EXEC',)]))
    out.append((a0, [('LAMBDA', 'nat', 'nat', []), ('PUSH_STR', 'a'), ('EXEC',)]))
    out.append((a0, [('LAMBDA', 'nat', 'string', []), ('PUSH_NAT', 1), ('EXEC',)]))
    out.append((a0, [('LAMBDA', 'nat', 'nat', [('PUSH_NAT', 1)]), ('PUSH_NAT', 1), ('EXEC',)]))
    out.append((a0, [('LAMBDA', 'nat', 'nat', []), ('PUSH_NAT', 1), ('APPLY',)]))
    out.append((a0, tk(5) + [('PUSH_BOOL', True), ('LOOP', [('READ_TICKET',), ('DROP',), ('PUSH_BOOL', False)])]))
    out.append((a0, tk(5) + [('PUSH_BOOL', True), ('LOOP', [('DUP',), ('PUSH_BOOL', False)])]))
    out.append((a0, [('PUSH_BOOL', False), ('LOOP', [('DUP',)])] + tk(2)))
    out.append((a0, [('EMPTY_MAP', False, TNt)] + tk(5) + [('SOME',), ('PUSH_NAT', 0), ('UPDATE',), ('PUSH_BOOL', True),
                     ('LOOP', [('NONE', TNt), ('PUSH_NAT', 0), ('GET_AND_UPDATE',), ('IF_NONE', [('PUSH_BOOL', False)], [('DROP',), ('PUSH_BOOL', True)])])]))
    out.append((a0, [('PUSH_NAT', 1), ('LOOP', [])]))
    for wrapi in (('LEFT', 'nat'), ('RIGHT', 'nat')):
        out.append((a0, tk(5) + [wrapi, ('DUP',)]))
        out.append((a0, tk(5) + [wrapi, ('IF_LEFT', [('READ_TICKET',)], [('READ_TICKET',)])]))
        out.append((a0, tk(5) + [wrapi, ('IF_LEFT', [('DUP',)], [('DROP',), ('PUSH_NAT', 1)])]))
    out.append((a0, [('PUSH_NAT', 1), ('LEFT', TNt), ('DUP',)]))
    out.append((a0, [('PUSH_NAT', 1), ('IF_LEFT', [], [])]))
    # maps and big_maps holding tickets (the shapes of defect #50 and of the oracle-only stream, now inside the model)
    TN = ('ticket', 'nat')
    take = lambda k: [('NONE', TN), ('PUSH_NAT', k), ('GET_AND_UPDATE',)]  # noqa: E731
    for big in (False, True):
        store = [('EMPTY_MAP', big, TN)] + tk(5) + [('SOME',), ('PUSH_NAT', 0), ('UPDATE',)]
        store2 = store + tk(3) + [('SOME',), ('PUSH_NAT', 1), ('UPDATE',)]
        out.append((a0, store + [('DUP',)]))
        out.append((a0, store + [('PUSH_NAT', 0), ('GET',)]))
        out.append((a0, store + [('PUSH_NAT', 3), ('DUPN', 2)]))
        out.append((a0, store + [('PUSH_NAT', 0), ('MEM',)]))
        out.append((a0, store + [('DUP',), ('PUSH_NAT', 0), ('GET',), ('SWAP',), ('PUSH_NAT', 0), ('GET',)]))
        out.append((a0, store + take(0)))
        out.append((a0, store + take(0) + [('SWAP',)] + take(0)))
        out.append((a0, store + take(0) + [('SWAP',)] + take(0) + [('IF_NONE', [], [('DIG', 2), ('IF_NONE', [('PUSH_NAT', 99)], [('PAIR',), ('JOIN_TICKETS',)])])]))
        out.append((a0, store + take(1)))
        out.append((a0, store + take(0) + [('PUSH_NAT', 0), ('GET_AND_UPDATE',), ('DROP',)] + take(0)))
        out.append((a0, store + [('NONE', TN), ('PUSH_NAT', 0), ('UPDATE',)] + take(0)))
        out.append((a0, store2 + take(1) + [('SWAP',)] + take(0) + [('IF_NONE', [], [('DIG', 2), ('IF_NONE', [('PUSH_NAT', 99)], [('PAIR',), ('JOIN_TICKETS',)])])]))
        out.append((a0, store2 + tk(4) + [('SOME',), ('PUSH_NAT', 0), ('GET_AND_UPDATE',)]))
        out.append((a0, store2 + tk(4) + [('SOME',), ('PUSH_NAT', 0), ('UPDATE',)]))
        out.append((a0, [('EMPTY_MAP', big, 'nat'), ('PUSH_NAT', 5), ('SOME',), ('PUSH_NAT', 2), ('UPDATE',), ('DUP',), ('PUSH_NAT', 2), ('GET',), ('SWAP',), ('PUSH_NAT', 3), ('MEM',)]))
        out.append((a0, [('EMPTY_MAP', big, ('option', TN))] + tk(2) + [('SOME',), ('SOME',), ('PUSH_NAT', 4), ('UPDATE',), ('PUSH_NAT', 4), ('GET',)]))
        out.append((a0, [('EMPTY_MAP', big, ('list', TN)), ('DUP',)]))
    out.append((a0, [('EMPTY_MAP', False, TN)] + tk(5) + [('SOME',), ('PUSH_NAT', 3), ('UPDATE',)] + tk(2) + [('SOME',), ('PUSH_NAT', 1), ('UPDATE',), ('ITER', [('CDR',), ('DROP',)])]))
    out.append((a0, [('EMPTY_MAP', False, TN)] + tk(5) + [('SOME',), ('PUSH_NAT', 3), ('UPDATE',)] + tk(2) + [('SOME',), ('PUSH_NAT', 1), ('UPDATE',), ('ITER', [('UNPAIR',), ('DROP',)]), ('PAIR',), ('JOIN_TICKETS',)]))
    out.append((a0, [('EMPTY_MAP', False, TN)] + tk(5) + [('SOME',), ('PUSH_NAT', 3), ('UPDATE',), ('ITER', [('DUP',)])]))
    out.append((a0, [('NIL', ('ticket', 'nat')), ('DUP',)]))
    out.append((a0, [('NONE', ('ticket', 'string')), ('DUP',)]))
    out.append((a0, [('NONE', ('pair', 'nat', ('ticket', 'string'))), ('PUSH_NAT', 1), ('DUPN', 2)]))
    return out


# --------------------------------------------------------------------------------------------
# oracle (B)
# --------------------------------------------------------------------------------------------

def oracle(addr, prog, obs):
    """property on the implementation's observation; returns a reason or None"""
    want, m = ref_run(addr, prog)
    if obs[0] == 'ok':
        mass = {}
        for v in obs[1]:
            for t in tickets_in(v):
                if t[3] <= 0:
                    return f'a ticket with amount {t[3]} is on the stack'
                mass[(t[1], t[2])] = mass.get((t[1], t[2]), 0) + t[3]
        if want[0] == 'ok':
            for k, a in mass.items():
                if a > m.minted.get(k, 0):
                    return f'total amount {a} of tickets {k} exceeds what TICKET created ({m.minted.get(k, 0)})'
    if strip_lam(obs) != strip_lam(want):
        if want[0] == 'fail':
            return 'the program must fail (an instruction is applied to operands it must refuse, e.g. DUP of a ticket) but it ran'
        if obs[0] == 'fail':
            return 'the program fails although every instruction is applicable'
        return 'final stack differs from the reference semantics of the ticket instructions'
    return None


# --------------------------------------------------------------------------------------------
# oracle-only stream: Michelson texts outside the Coq model (lambdas / APPLY / EXEC, maps and big_maps holding
# tickets, PUSH of a ticket literal).  Judged by mass conservation on the real interpreter's final stack:
# whatever the program does, the tickets alive at the end must not exceed what TICKET minted.
# --------------------------------------------------------------------------------------------

def raw_programs(addr):
    mk = lambda n: f'PUSH nat {n} ; PUSH nat 42 ; TICKET ; IF_NONE {{ PUSH string "none" ; FAILWITH }} {{}}'  # noqa: E731
    some = 'IF_NONE { PUSH string "n" ; FAILWITH } {}'
    out = []  # (tag, minted total, text)
    shapes = [('ticket nat', '', ''),
              ('pair (ticket nat) nat', 'PUSH nat 7 ; SWAP ; PAIR ;', 'CAR'),
              ('option (ticket nat)', 'SOME ;', some),
              ('list (ticket nat)', 'NIL (ticket nat) ; SWAP ; CONS ;', 'IF_CONS { SWAP ; DROP } { PUSH string "empty" ; FAILWITH }')]
    for ty, wrap, unwrap in shapes:
        body = 'CAR' + (f' ; {unwrap}' if unwrap else '')
        closure = f'{mk(5)} ; {wrap} LAMBDA (pair ({ty}) unit) (ticket nat) {{ {body} }} ; SWAP ; APPLY'
        out.append(('closure', 5, f'{closure} ; DUP ; UNIT ; EXEC ; SWAP ; UNIT ; EXEC ; PAIR ; JOIN_TICKETS'))
        out.append(('closure', 5, f'{closure} ; DUP ; UNIT ; EXEC ; SWAP ; UNIT ; EXEC'))
        out.append(('closure', 5, f'{closure} ; UNIT ; EXEC'))
        out.append(('closure', 5, f'{closure} ; DUP ; DUP ; UNIT ; EXEC ; DIP {{ UNIT ; EXEC }} ; PAIR ; JOIN_TICKETS ; {some} ; SWAP ; UNIT ; EXEC ; SWAP ; PAIR ; JOIN_TICKETS'))
        # the captured value passed as an ordinary argument instead (legitimate): still conserved
        out.append(('closure', 5, f'LAMBDA ({ty}) (ticket nat) {{ {unwrap or "DUP ; DROP"} }} ; {mk(5)} ; {wrap} EXEC'))
    out.append(('closure', 5, f'LAMBDA (ticket nat) (pair (ticket nat) (ticket nat)) {{ DUP ; PAIR }} ; {mk(5)} ; EXEC'))
    out.append(('closure', 5, f'LAMBDA (ticket nat) (ticket nat) {{}} ; {mk(5)} ; EXEC'))
    out.append(('closure', 5, f'LAMBDA (ticket nat) (ticket nat) {{}} ; DUP ; {mk(5)} ; EXEC ; SWAP ; DROP'))
    out.append(('closure', 8, f'LAMBDA (pair (ticket nat) (ticket nat)) (option (ticket nat)) {{ JOIN_TICKETS }} ; {mk(5)} ; {mk(3)} ; PAIR ; EXEC'))
    out.append(('closure', 5, f'LAMBDA (pair (ticket nat) (pair nat nat)) (option (pair (ticket nat) (ticket nat))) {{ UNPAIR ; SPLIT_TICKET }} ; '
                              f'PUSH nat 0 ; PUSH nat 5 ; PAIR ; {mk(5)} ; PAIR ; EXEC'))
    lit = f'Pair "{addr}" 42 5'
    out.append(('push', 0, f'PUSH (ticket nat) ({lit})'))
    out.append(('push', 0, f'LAMBDA unit (ticket nat) {{ DROP ; PUSH (ticket nat) ({lit}) }} ; UNIT ; EXEC'))
    out.append(('push', 0, f'PUSH (option (ticket nat)) (Some ({lit}))'))
    out.append(('push', 0, f'PUSH (list (ticket nat)) {{ {lit} }}'))
    out.append(('push', 0, f'PUSH (pair nat (ticket nat)) (Pair 1 ({lit}))'))
    for kind in ('EMPTY_MAP', 'EMPTY_BIG_MAP'):
        tag = 'map' if kind == 'EMPTY_MAP' else 'big_map'
        store = f'{kind} nat (ticket nat) ; {mk(5)} ; SOME ; PUSH nat 0 ; UPDATE'
        out.append((tag, 5, f'{store} ; DUP ; PUSH nat 0 ; GET ; {some} ; SWAP ; PUSH nat 0 ; GET ; {some} ; PAIR ; JOIN_TICKETS'))
        out.append((tag, 5, f'{store} ; DUP'))
        out.append((tag, 5, f'{store} ; PUSH nat 0 ; GET'))
        out.append((tag, 5, f'{store} ; NONE (ticket nat) ; PUSH nat 0 ; GET_AND_UPDATE'))
        out.append((tag, 5, f'{store} ; NONE (ticket nat) ; PUSH nat 0 ; GET_AND_UPDATE ; {some} ; SWAP ; NONE (ticket nat) ; PUSH nat 0 ; GET_AND_UPDATE ; DIP {{ DROP }}'))
        out.append((tag, 8, f'{store} ; {mk(3)} ; SOME ; PUSH nat 1 ; UPDATE ; DUP 1'))
        out.append((tag, 5, f'{store} ; PUSH nat 0 ; MEM'))
    # a live ticket's contents must not change when the value read out of it is modified (UPDATE n and friends)
    none = 'IF_NONE { PUSH string "none" ; FAILWITH } {}'

    def mkc(n, ty, v):
        return f'PUSH nat {n} ; PUSH ({ty}) ({v}) ; TICKET ; {none}'

    def ck(ty, v):
        from pytezos.michelson.parse import michelson_to_micheline
        return content_key(michelson_to_micheline(v))

    P2, P3 = 'pair nat nat', 'pair nat (pair nat nat)'
    for ty, v, edits in ((P2, 'Pair 1 2', [('PUSH nat 9 ; UPDATE 1', 'Pair 9 2'), ('PUSH nat 9 ; UPDATE 2', 'Pair 1 9'),
                                           ('PUSH (pair nat nat) (Pair 9 2) ; UPDATE 0', 'Pair 9 2')]),
                         (P3, 'Pair 1 (Pair 2 3)', [('PUSH nat 9 ; UPDATE 1', 'Pair 9 (Pair 2 3)'), ('PUSH nat 9 ; UPDATE 3', 'Pair 1 (Pair 9 3)'),
                                                    ('PUSH nat 9 ; UPDATE 4', 'Pair 1 (Pair 2 9)'),
                                                    ('PUSH (pair nat nat) (Pair 7 8) ; UPDATE 2', 'Pair 1 (Pair 7 8)')])):
        for edit, v2 in edits:
            both = {ck(ty, v): 5, ck(ty, v2): 3}
            read = f'{mkc(5, ty, v)} ; READ_TICKET ; GET 3 ; {edit}'
            out.append(('contents', {ck(ty, v): 5}, f'{read} ; DROP ; READ_TICKET ; DROP'))
            out.append(('contents', both, f'{read} ; DROP ; {mkc(3, ty, v2)} ; PAIR ; JOIN_TICKETS'))
            out.append(('contents', both, f'{read} ; DROP ; {mkc(3, ty, v2)} ; SWAP ; PAIR ; JOIN_TICKETS'))
            out.append(('contents', {ck(ty, v): 8}, f'{read} ; DROP ; {mkc(3, ty, v)} ; PAIR ; JOIN_TICKETS'))
            out.append(('contents', both, f'{read} ; PUSH nat 3 ; SWAP ; TICKET ; {none} ; PAIR ; JOIN_TICKETS'))
            # edit the comb READ_TICKET returns (ticketer / contents / amount positions) instead of the contents alone
            out.append(('contents', {ck(ty, v): 5}, f'{mkc(5, ty, v)} ; READ_TICKET ; PUSH ({ty}) ({v2}) ; UPDATE 3 ; PUSH nat 99 ; UPDATE 4 ; DROP ; READ_TICKET ; DROP'))
        out.append(('contents', {ck(ty, v): 5}, f'{mkc(5, ty, v)} ; READ_TICKET ; GET 3 ; UNPAIR ; DROP ; DROP ; PUSH nat 2 ; PUSH nat 3 ; PAIR ; SWAP ; SPLIT_TICKET'))
    out.append(('contents', {ck('option nat', 'Some 1'): 5, ck('option nat', 'Some 9'): 3},
                f'{mkc(5, "option nat", "Some 1")} ; READ_TICKET ; GET 3 ; MAP {{ DROP ; PUSH nat 9 }} ; DROP ; {mkc(3, "option nat", "Some 9")} ; PAIR ; JOIN_TICKETS'))
    return out


def content_key(micheline):
    return json.dumps(lib.canon_micheline(micheline), sort_keys=True)


K42 = content_key({'int': '42'})


def live_tickets(item):
    """(content key, amount) of every ticket inside a real stack item (pairs, options, lists, maps, big_map diffs)"""
    from pytezos.michelson import types as T
    if isinstance(item, T.TicketType):
        yield content_key(item.item.to_micheline_value(mode='optimized')), int(item.amount)
        return
    subs = []
    if isinstance(item, T.PairType):
        subs = list(item.items)
    elif isinstance(item, T.OptionType):
        subs = [] if item.is_none() else [item.get_some()]
    elif isinstance(item, (T.ListType, T.SetType)):
        subs = list(item.items)
    elif isinstance(item, (T.MapType, T.BigMapType)):
        subs = [v for _, v in item.items if v is not None]
    for x in subs:
        yield from live_tickets(x)


def mass_verdict(items, minted):
    """minted: int (contents nat 42) or {content key: amount}.  -> reason or None"""
    if isinstance(minted, int):
        minted = {K42: minted}
    live = {}
    for x in items:
        for k, a in live_tickets(x):
            if a <= 0:
                return f'a ticket with amount {a} is alive'
            live[k] = live.get(k, 0) + a
    for k, a in live.items():
        if a > minted.get(k, 0):
            return f'tickets with contents {k} of total amount {a} are alive although only {minted.get(k, 0)} were created / stored'
    return None


def run_raw(addr, text, minted):
    """-> 'rejected' | None (property holds) | reason"""
    interp = interpreter()
    interp.context.address = addr
    ok, res = lib.call(interp.execute, text)
    if not ok or res.error is not None:
        return 'rejected'
    return mass_verdict(list(interp.stack.items), minted)


# ---- big_maps of tickets that live on chain (served by a stub context, no node)

CHAIN_TYPES = 'parameter unit ; storage (pair (big_map nat (ticket nat)) (option (ticket nat))) ;'


def chain_programs():
    """(stored {key: amount}, body).  The body starts with the big_map on the stack and must leave  option (ticket nat) : big_map"""
    take = lambda k: f'NONE (ticket nat) ; PUSH nat {k} ; GET_AND_UPDATE'  # noqa: E731
    comb = 'DIG 2 ; IF_NONE {} { SWAP ; IF_NONE { SOME } { PAIR ; JOIN_TICKETS } }'
    out = []
    for stored, keys in (({0: 5}, [0, 0]), ({0: 5}, [0, 0, 0]), ({0: 5, 1: 3}, [0, 1]), ({0: 5, 1: 3}, [0, 1, 0, 1]), ({0: 5, 1: 3}, [1, 1, 0]),
                         ({0: 5}, [2]), ({0: 5}, [2, 0, 2, 0])):
        body = take(keys[0])
        for k in keys[1:]:
            body += f' ; SWAP ; {take(k)} ; {comb}'
        out.append((stored, body))
    # take out, put back, take out again, and once more
    out.append(({0: 5}, f'{take(0)} ; PUSH nat 0 ; GET_AND_UPDATE ; DROP ; {take(0)} ; SWAP ; {take(0)} ; {comb}'))
    # remove with UPDATE, then try to take
    out.append(({0: 5}, f'NONE (ticket nat) ; PUSH nat 0 ; UPDATE ; {take(0)}'))
    out.append(({0: 5}, f'{take(0)} ; SWAP ; NONE (ticket nat) ; PUSH nat 0 ; UPDATE ; {take(0)} ; {comb}'))
    # GET / DUP on it must be refused (non-duplicable values)
    out.append(({0: 5}, f'DUP ; PUSH nat 0 ; GET ; SWAP ; DROP ; SWAP'))
    out.append(({0: 5}, f'PUSH nat 0 ; GET ; NONE (ticket nat) ; PAIR ; DROP ; NONE (ticket nat) ; EMPTY_BIG_MAP nat (ticket nat) ; SWAP'))
    return out


def run_chain(stored, body):
    """run a contract whose storage big_map (id 0) lives in the context -> 'rejected' | None | reason"""
    from pytezos.context.impl import ExecutionContext
    from pytezos.michelson.forge import forge_script_expr
    from pytezos.michelson.parse import michelson_to_micheline
    from pytezos.michelson.program import MichelsonProgram
    from pytezos.michelson.stack import MichelsonStack
    from pytezos.michelson.types import NatType

    class ChainCtx(ExecutionContext):
        chain_big_maps: dict = {}

        def get_big_map_value(self, ptr, key_hash):
            if ptr not in self.big_maps:
                return None
            src, _ = self.big_maps[ptr]
            return self.chain_big_maps.get((src, key_hash))

    def go():
        code = f'{CHAIN_TYPES} code {{ CDR ; CAR ; {body} ; SWAP ; PAIR ; NIL operation ; PAIR }}'
        script = michelson_to_micheline(code)
        storage = {'prim': 'Pair', 'args': [{'int': '0'}, {'prim': 'None'}]}
        ctx = ChainCtx(script={'code': script, 'storage': storage})
        me = ctx.get_self_address()
        ctx.chain_big_maps = {(0, forge_script_expr(NatType(k).pack(legacy=True))): {'prim': 'Pair', 'args': [{'string': me}, {'int': '42'}, {'int': str(a)}]}
                              for k, a in stored.items()}
        stack, stdout = MichelsonStack(), []
        program = MichelsonProgram.load(ctx, with_code=True)
        res = program.instantiate(entrypoint='default', parameter={'prim': 'Unit'}, storage=storage)
        res.begin(stack, stdout, ctx)
        res.execute(stack, stdout, ctx)
        return list(stack.items)

    ok, items = lib.call(go)
    if not ok:
        return 'rejected'
    return mass_verdict(items, sum(stored.values()))


def has(prog, names):
    for i in prog:
        if i[0] in names:
            return True
        if i[0] in ('IF_NONE', 'IF_CONS', 'IF_LEFT') and (has(i[1], names) or has(i[2], names)):
            return True
        if i[0] in ('ITER', 'MAP', 'LOOP') and has(i[1], names):
            return True
        if i[0] == 'LAMBDA' and has(i[3], names):
            return True
    return False


def to_json(x):
    if isinstance(x, tuple):
        return [to_json(y) for y in x]
    if isinstance(x, list):
        return [to_json(y) for y in x]
    return x


def from_json(x):
    if isinstance(x, list):
        if x and isinstance(x[0], str) and x[0].isupper() or (x and isinstance(x[0], str) and x[0] in ('ticket', 'pair', 'option', 'list')):
            return tuple(from_json(y) for y in x)
        return [from_json(y) for y in x]
    return x


def run(ctx: lib.Ctx) -> None:
    addrs = addresses()
    prelude = coq_prelude(addrs)
    rng = ctx.rng
    ctx.rule = ('programs generated by following an independent reference machine: at each step an instruction applicable to the current '
                'stack is drawn (weights favour TICKET, SPLIT_TICKET, JOIN_TICKETS, READ_TICKET and the pair/option/list shuffling that '
                'feeds them; amounts from {0,1,2,3,5,7,10,100,2^64+1}; three ticketers via context.address; contents nat/string and options/pairs of them), with probability '
                '3-25 % an arbitrary instruction instead (DUP of tickets, JOIN of unrelated values, ...); IF_NONE/IF_CONS get a followed taken '
                'branch and a blind dead branch; plus a fixed family of single-step SPLIT/JOIN/TICKET/DUP cases. non-trivial = the program '
                'executes at least one ticket instruction beyond TICKET or a DUP on a value containing a ticket')
    ctx.assumptions.append('C20: ticket contents restricted to nat, string and options/pairs of them; the ghost ledger of the model is compared through an independent '
                           'reference machine in the harness, not observed in pytezos; TICKET_DEPRECATED and big_map/map storage of tickets are outside the model')
    progs = []
    for path in sorted(glob.glob(os.path.join(lib.VERIF, 'corpus', PROP, '*.json'))):
        for c in json.load(open(path)):
            progs.append(('corpus', c['self'], from_json(c['program'])))
    ctx.corpus_cases = len(progs)
    for addr, p in split_join_unit_cases(rng, addrs):
        progs.append(('unit', addr, p))
    for k in range(ctx.n(330, 5000)):
        p_bad = rng.choice([0.0, 0.03, 0.03, 0.1, 0.25])
        addr, p = gen_program(rng, addrs, rng.choice([4, 8, 12, 20, 30]), p_bad)
        progs.append(('gen', addr, p))

    cases, meta, direct_bad, lenient_cases = [], [], [], []
    reported = 0
    t_impl = time.time()
    for kind, addr, prog in progs:
        if ref_run(addr, prog)[0][0] == 'outside':
            ctx.dist['skipped: TICKET content outside the modelled comparable types'] += 1
            continue
        obs = run_impl(addr, prog)
        nt = has(prog, ('SPLIT_TICKET', 'JOIN_TICKETS', 'READ_TICKET')) or (has(prog, ('TICKET',)) and has(prog, ('DUP', 'DUPN')))
        ctx.case((addr, repr(prog)), nontrivial=nt, kind=f'{kind}:{obs[0]}',
                 sample={'self': addr, 'program': prog_text([i for i in prog])[:400], 'result': to_json(obs)})
        for name in ('TICKET', 'READ_TICKET', 'SPLIT_TICKET', 'JOIN_TICKETS', 'DUP', 'DUPN', 'IF_NONE', 'IF_CONS', 'CONS', 'ITER', 'MAP', 'SELF_IS', 'EMPTY_MAP', 'UPDATE', 'GET_AND_UPDATE', 'GET', 'MEM', 'LAMBDA', 'APPLY', 'EXEC', 'LOOP', 'LEFT', 'IF_LEFT'):
            if has(prog, (name,)):
                ctx.dist['uses ' + name] += 1
        if ref_run(addr, prog)[1].lenient:
            # ITER over a pair is accepted by pytezos only because IterInstruction asserts no type: outside the property;
            # compared for the record, never part of the verdict (a stricter pytezos must not raise an alarm here)
            lenient_cases.append((f'({coq_bytes(addr)}, {coq_prog(prog)})', coq_obs(obs) if obs[0] != 'other' else 'Reject'))
            continue
        if obs[0] == 'other':
            direct_bad.append((addr, prog, obs))
        elif has_lam(obs):
            ctx.dist['closure left on the final stack: oracle only, no model comparison'] += 1
        else:
            cases.append((f'({coq_bytes(addr)}, {coq_prog(prog)})', coq_obs(obs)))
            meta.append((addr, prog, obs))
        why = oracle(addr, prog, obs)
        if why and reported < 3:
            reported += 1
            ctx.violation(f'ticket property violated: {why}',
                          {'self': addr, 'program': to_json(prog), 'text': prog_text(prog), 'observed': to_json(obs),
                           'expected': to_json(ref_run(addr, prog)[0]), 'repro': repro(addr, prog)})
    # oracle-only stream (outside the Coq model)
    raw_seen = {'rejected': 0, 'ran': 0}
    for tag, minted, text in raw_programs(addrs[0]):
        why = run_raw(addrs[0], text, minted)
        ctx.case(('raw', text), nontrivial=True, kind=f'raw:{tag}:{"rejected" if why == "rejected" else "ran"}')
        raw_seen['rejected' if why == 'rejected' else 'ran'] += 1
        if why and why != 'rejected' and reported < 3:
            reported += 1
            ctx.violation(f'ticket property violated: {why}',
                          {'self': addrs[0], 'text': text, 'minted': minted,
                           'repro': f"from pytezos.michelson.repl import Interpreter; i=Interpreter(); i.context.address={addrs[0]!r}; print(i.execute({text!r}).error, i.stack.items)"})
    for stored, body in chain_programs():
        why = run_chain(stored, body)
        ctx.case(('chain', repr(stored), body), nontrivial=True, kind=f'raw:chain_big_map:{"rejected" if why == "rejected" else "ran"}')
        raw_seen['rejected' if why == 'rejected' else 'ran'] += 1
        if why and why != 'rejected' and reported < 3:
            reported += 1
            ctx.violation(f'ticket property violated (big_map of tickets stored on chain, no TICKET executed): {why}',
                          {'stored': {str(k): v for k, v in stored.items()}, 'body': body, 'storage_type': CHAIN_TYPES,
                           'repro': 'harness/c20.py run_chain(stored, body): contract whose storage big_map id 0 is served by a stub context'})
    # fixed defects must stay fixed
    for f in ctx.known['fixed']:
        w = f.get('witness', {})
        if 'text' in w and 'minted' in w and isinstance(w['text'], str):
            why = run_raw(w['self'], w['text'], w['minted'])
            if why and why != 'rejected' and reported < 3:
                reported += 1
                ctx.violation(f'fixed defect is back: {f["what"]} ({why})', {'self': w['self'], 'text': w['text'], 'minted': w['minted']})
    ctx.extra['oracle_only_stream'] = raw_seen
    t_coq = time.time()
    allbad = ctx.coq_mismatches('tickets', IMPORTS, 'fun c => exec_from (fst c) (snd c)', 'obs_eqb', 'bytes * list instr',
                                'result (list val)', cases + lenient_cases, shard=150, prelude=prelude)
    bad = [i for i in allbad if i < len(cases)]
    lbad = [i for i in allbad if i >= len(cases)]
    ctx.extra['lenient_acceptances'] = {'cases': len(lenient_cases), 'differ_from_model': len(lbad),
                                        'note': 'programs that ITER over a pair: outside Michelson typing, not part of the verdict'}
    ctx.extra['model_disagreements'] = len(bad) + len(direct_bad)
    ctx.extra['timing_s'] = {'implementation+oracle': round(t_coq - t_impl, 1), 'coqc_cases': round(time.time() - t_coq, 1)}
    if reported == 0 and (bad or direct_bad):
        if bad:
            addr, prog, obs = meta[bad[0]]
            rep = {'self': addr, 'program': to_json(prog), 'text': prog_text(prog), 'observed': to_json(obs),
                   'model': ctx.coq_eval(IMPORTS, f'exec_from {coq_bytes(addr)} {coq_prog(prog)}', prelude=prelude), 'disagreements': len(bad),
                   'repro': repro(addr, prog)}
        else:
            addr, prog, obs = direct_bad[0]
            rep = {'self': addr, 'program': to_json(prog), 'text': prog_text(prog), 'observed': to_json(obs), 'repro': repro(addr, prog)}
        rep['correspondence'] = 'C20/Interpreter(ticket programs) vs Michelson.Tickets.exec_from'
        ctx.violation('implementation no longer corresponds to the model the theorems are about', rep, found=False)


def replay(ctx: lib.Ctx, doc: dict) -> bool:
    """./check C20 --replay file : re-run the recorded program; True (exit 1) if the property still fails on it."""
    if 'program' not in doc and 'text' in doc and 'minted' in doc:
        why = run_raw(doc['self'], doc['text'], doc['minted'])
        print('verdict now:', why or 'property holds on this input')
        return bool(why) and why != 'rejected'
    if 'body' in doc and 'stored' in doc:
        why = run_chain({int(k): v for k, v in doc['stored'].items()}, doc['body'])
        print('verdict now:', why or 'property holds on this input')
        return bool(why) and why != 'rejected'
    if 'program' not in doc or 'self' not in doc:
        return False
    prog = from_json(doc['program'])
    obs = run_impl(doc['self'], prog)
    why = oracle(doc['self'], prog, obs)
    print('observed now:', to_json(obs))
    print('verdict     :', why or 'property holds on this input')
    return bool(why)
