"""Helpers shared by harness/c30.py and harness/c31.py: compact byte-string literals ([bp] of Codec/Diff.v and
Codec/Merkle.v) and cost-balanced ordering of generated cases over the coqc shards."""
import heapq


def cbp(data: bytes) -> str:
    """bytes -> `(bp [0x..%positive; ...])`: pieces of <= 256 bytes, each int.from_bytes(piece + 01, 'little')"""
    data = bytes(data)
    if not data:
        return '(bp nil)'
    return '(bp [' + '; '.join(hex(int.from_bytes(data[i:i + 256] + b'\x01', 'little')) + '%positive'
                               for i in range(0, len(data), 256)) + '])'


def balanced(items, shard):
    """items: list of (cost, payload). Returns the payloads reordered so that consecutive chunks of `shard`
    items have about equal total cost (longest-processing-time greedy with a capacity per chunk)."""
    n = len(items)
    if n == 0:
        return []
    k = (n + shard - 1) // shard
    caps = [shard] * k
    caps[-1] = n - shard * (k - 1)
    buckets = [[] for _ in range(k)]
    heap = [(0, j) for j in range(k)]
    heapq.heapify(heap)
    for cost, payload in sorted(items, key=lambda x: -x[0]):
        while True:
            tot, j = heapq.heappop(heap)
            if len(buckets[j]) < caps[j]:
                break
        buckets[j].append(payload)
        if len(buckets[j]) < caps[j]:
            heapq.heappush(heap, (tot + cost, j))
    return [p for b in buckets for p in b]
