"""C02 — values produced by execution have the statically expected type.

Same generated programs as C01 (harness/c01_gen.py, harness/c01.py).
(A) correspondence: the implementation's final stack, as pytezos objects with the classes they carry at every
    depth, vs Michelson/PySem.v `py_eval` (inside coqc).
(B) the property's oracle: `type(v).as_micheline_expr()` of every slot of the final stack vs the static stack type
    computed by Michelson/Typing.v `typecheck` for the program (inside coqc); for contracts run through
    Interpreter.run_code: the returned storage vs the reference result (run_code itself checks its type).
"""
from __future__ import annotations

import c01
import c01_gen as G
import lib

PROP = 'C02'


def run(ctx: lib.Ctx) -> None:
    ctx.rule = c01.RULE + '; C02 additionally requires inputs "of every type shape": input types are drawn to depth 3'
    cases, metas, coq_cases = c01.collect(ctx, PROP)

    # (A) (+ the generator agrees with Typing.v, + the reference: a disagreement there alone is C01's business)
    obs_l = [G.obs_coq(o) for o in metas]
    bad_t, bad_a, _ = c01.triple_check(ctx, 'main', coq_cases, [f'(Full {o})' for o in obs_l], [f'(erase_obs {o})' for o in obs_l])
    skip = c01.tc_fail(ctx, cases, bad_t)
    bad_a = [i for i in bad_a if i not in skip]
    # (B) static type vs run-time type expression of every slot
    idx, b_cases, outside = [], [], []
    for i, (c, o) in enumerate(zip(coq_cases, metas)):
        if o['kind'] == 'unrenderable':
            outside.append(i)
        if o['kind'] != 'done':
            continue
        tys = [x[1] for x in o['stack']]
        if any(t is None for t in tys):
            outside.append(i)
            continue
        idx.append(i)
        b_cases.append((c, '(Some ' + lib.clist(G.ty_coq(t) for t in tys) + ')'))
        ctx.dist['slots_checked'] += len(tys)
    bad_b = [idx[j] for j in ctx.coq_mismatches('ty', c01.IMPORTS, 'static_types', 'option_eqb (list_eqb ty_eqb)', c01.CASE_TY,
                                                'option (list ty)', b_cases, prelude=c01.PRELUDE)]
    bad_b = sorted((set(bad_b) | set(outside)) - skip)
    ctx.extra['disagreements_model'] = len(bad_a)
    ctx.extra['type_mismatches'] = len(bad_b)
    ctx.extra['first_disagreements'] = [{'i': i, 'program': G.case_text(cases[i])[:400], 'stream': cases[i]['stream'],
                                         'impl': metas[i]['kind'], 'why': metas[i].get('why'), 'A': i in bad_a, 'B': i in bad_b}
                                        for i in sorted(set(bad_a) | set(bad_b)) if cases[i]['stream'] != 'known-class'][:12]
    reported = 0
    for i in bad_b:
        case, obs = cases[i], metas[i]
        if case.get('known') == 'empty-map-retype' and i not in bad_a:
            f = ctx.finding('empty-map-retype')
            if f is not None:
                ctx.known_hit(f)
                continue
        if reported >= 3:
            continue
        reported += 1
        static = ctx.coq_eval(c01.IMPORTS, f'static_types {coq_cases[i]}', prelude=c01.PRELUDE)
        what = 'a fixed defect is back: ' + case['fixed']['what'] if case.get('fixed') else \
            'a value left on the stack does not have the type the Michelson typing rules assign to its slot'
        ctx.violation(what, c01.replay_doc(ctx, case, obs, {'static_stack_type': static,
                                                             'runtime_types': [x[2] for x in obs.get('stack', [])]}), found=True)

    # contracts: the storage returned by run_code
    ccases, cmetas, ccoq = c01.collect_contracts(ctx)
    cobs = [G.contract_obs_coq(o) for o in cmetas]
    cbad_t, cbad_a, cbad_b = c01.triple_check(ctx, 'contract', ccoq, [f'(Erased {o})' for o in cobs], cobs)
    cskip = c01.tc_fail(ctx, ccases, cbad_t, 'contracts')
    cbad_a = [i for i in cbad_a if i not in cskip]
    cbad_b = [i for i in cbad_b if i not in cskip]
    ctx.extra['contract_disagreements_reference'] = len(cbad_b)
    for i in cbad_b:
        o = cmetas[i]
        typeish = o['kind'] == 'unrenderable' or 'resulting storage' in str(o.get('why', ''))
        if reported >= 3 or not typeish:
            continue
        reported += 1
        ctx.violation('the storage returned by run_code does not have the storage type of the contract',
                      c01.contract_doc(ccases[i], o), found=True)

    if reported == 0 and (bad_a or cbad_a or cbad_b):
        if bad_a:
            i = bad_a[0]
            model = ctx.coq_eval(c01.IMPORTS, f"py_run' {coq_cases[i]}", prelude=c01.PRELUDE)
            doc = c01.replay_doc(ctx, cases[i], metas[i], {'model': model})
        else:
            i = (cbad_a or cbad_b)[0]
            model = ctx.coq_eval(c01.IMPORTS, f"py_run' {ccoq[i]}", prelude=c01.PRELUDE)
            doc = c01.contract_doc(ccases[i], cmetas[i], {'model': model})
        doc.update({'correspondence': 'C02/Interpreter.execute|run_code vs Michelson.PySem.py_eval (values with classes)',
                    'disagreements': len(bad_a) + len(cbad_a) + len(cbad_b)})
        ctx.violation('implementation no longer corresponds to the model the theorems are about', doc, found=False)
