"""C23 — operation groups from any account kind are signed and hashed per protocol.

(A) the real OperationGroup.sign() / binary_payload() / hash() with keys of the four curves (the message handed to
    Key.sign is captured by a spy) vs Client/OpSign.v `run_case` (watermark choice, refusal of mixed groups, signed
    message, base58 prefix kind, binary payload), inside coqc; the implementation's raw signature is supplied to the
    model as the signing oracle's answer.
(B) the property itself on the implementation's outputs: message = 0x03 / 0x02++chain id ++ canonical bytes (checked
    with the independent reader of c06_spec), the signature verifies over that message with an independent library
    (`cryptography` for Ed25519 / secp256k1 / P-256 with the public key re-derived from the secret; py_ecc for BLS), payload =
    forged bytes ++ raw signature, hash = base58check(0x0574 ++ Blake2b-256(payload)) computed with hashlib + base58.
"""
from __future__ import annotations

import glob
import json
import os

import c06 as C6
import c06_gen as G
import c06_spec as S
import lib
from c25_node import make_key
from lib import clist, copt

PROP = 'C23'
IMPORTS = 'From PV Require Import Codec.Zarith Codec.Ops Client.OpSign.'
CURVES = {b'ed': 'KEd', b'sp': 'KSp', b'p2': 'KP2', b'BL': 'KBl'}
PASS = {'failing_noop': -1, 'endorsement': 0, 'activate_account': 2}


def vpass(kind: str) -> int:
    return PASS.get(kind, 3)


# ---- independent verification --------------------------------------------------------------------------------------
def verify_independent(curve: bytes, secret: bytes, msg: bytes, sig: bytes) -> bool:
    from cryptography.exceptions import InvalidSignature
    from cryptography.hazmat.primitives import hashes
    from cryptography.hazmat.primitives.asymmetric import ec, ed25519, utils

    digest = G.blake2b(msg)
    try:
        if curve == b'ed':
            pk = ed25519.Ed25519PrivateKey.from_private_bytes(secret[:32]).public_key()
            pk.verify(sig, digest)
            return True
        if curve in (b'sp', b'p2'):
            crv = ec.SECP256K1() if curve == b'sp' else ec.SECP256R1()
            pk = ec.derive_private_key(int.from_bytes(secret, 'big'), crv).public_key()
            der = utils.encode_dss_signature(int.from_bytes(sig[:32], 'big'), int.from_bytes(sig[32:], 'big'))
            pk.verify(der, digest, ec.ECDSA(utils.Prehashed(hashes.SHA256())))
            return True
        if curve == b'BL':
            from py_ecc.bls import G2MessageAugmentation as AUG
            sk = int.from_bytes(secret, 'little')
            return bool(AUG.Verify(AUG.SkToPk(sk), msg, sig))
    except InvalidSignature:
        return False
    raise lib.InternalError(f'curve {curve!r}')


# ---- cases -----------------------------------------------------------------------------------------------------------
def gen_case(rng, keys, allow_bls):
    curve = rng.choice([b'ed', b'sp', b'p2'] + ([b'BL'] if allow_bls else []))
    key = rng.choice(keys[curve])
    k = rng.random()
    chain = G.b58('Net', G.rand_bytes(rng, 4)) if rng.random() < 0.85 else None
    branch = G.rand_block_hash(rng)
    if k < 0.45:
        n = rng.choice([1, 1, 2, 3, rng.randrange(1, 9)])
        contents = [G.rand_content(rng, rng.choice(G.MANAGER_KINDS)) for _ in range(n)]
    elif k < 0.62:
        contents = [G.rand_content(rng, 'endorsement') for _ in range(rng.choice([1, 1, 2]))]
    elif k < 0.72:
        contents = [G.rand_content(rng, 'failing_noop')]
    elif k < 0.8:
        contents = [G.rand_content(rng, 'activate_account') for _ in range(rng.choice([1, 2]))]
    elif k < 0.97:  # mixed validation passes
        kinds = rng.sample(['endorsement', 'failing_noop', 'activate_account', 'transaction', 'reveal'], 2)
        contents = [G.rand_content(rng, kk) for kk in kinds] + [G.rand_content(rng, rng.choice(kinds)) for _ in range(rng.randrange(0, 3))]
        rng.shuffle(contents)
    else:
        contents = []
    # how the group object comes about: fresh, or derived from a group that was already sent (it carries the old signature and
    # the hash reported by the node; _spawn copies both into every derived group)
    lineage = rng.choice(['fresh', 'fresh', 'fresh', 'extended', 'extended', 'resigned'])
    steps = []
    if contents and rng.random() < 0.45:
        # forge()/hash()/sign() interleaved with in-place edits of fields of existing contents; `contents` becomes the final state
        initial = json.loads(json.dumps(contents))
        for _ in range(rng.choice([1, 2, 3])):
            steps.append((rng.choice(['forge', 'forge', 'hash_try', 'sign']),))
            i = rng.randrange(len(contents))
            c = contents[i]
            if c['kind'] in G.MANAGER_KINDS:
                field = rng.choice(['fee', 'counter', 'gas_limit', 'storage_limit'] + (['amount'] if c['kind'] == 'transaction' else []))
                val = str(G.rand_nat(rng))
            elif c['kind'] == 'endorsement':
                field, val = 'level', rng.getrandbits(31)
            elif c['kind'] == 'failing_noop':
                field, val = 'arbitrary', G.rand_text(rng, rng.choice([0, 3, len(c['arbitrary'])]))
            else:
                field, val = 'secret', G.rand_bytes(rng, 20).hex()
            c[field] = val
            steps.append(('edit', i, field, val))
        return {'curve': curve, 'key': key, 'chain_id': chain, 'group': {'branch': branch, 'contents': contents}, 'lineage': 'fresh',
                'initial_contents': initial, 'steps': steps,
                'stale_hash': G.b58o(G.rand_bytes(rng, 32)), 'stale_signature': G.b58('sig', G.rand_bytes(rng, 64))}
    return {'curve': curve, 'key': key, 'chain_id': chain, 'group': {'branch': branch, 'contents': contents}, 'lineage': lineage,
            'stale_hash': G.b58o(G.rand_bytes(rng, 32)), 'stale_signature': G.b58('sig', G.rand_bytes(rng, 64))}


def run_impl(case):
    from pytezos.context.impl import ExecutionContext
    from pytezos.operation.group import OperationGroup

    key = case['key']
    g = case['group']
    seen = {}
    orig = key.sign

    def spy(message, generic=False):
        seen['message'] = bytes(message) if not isinstance(message, str) else message
        seen['generic'] = generic
        return orig(message=message, generic=generic)
    key.sign = spy
    try:
        ctx_ = ExecutionContext(key=key)
        lineage = case.get('lineage', 'fresh')
        contents = json.loads(json.dumps(case.get('initial_contents') or g['contents']))
        if lineage == 'extended' and contents:      # a sent group is extended by one more content, then signed again
            parent = OperationGroup(context=ctx_, contents=contents[:-1], branch=g['branch'], chain_id=case['chain_id'],
                                    signature=case['stale_signature'], opg_hash=case['stale_hash'])
            opg = parent.operation(contents[-1])
        elif lineage == 'resigned':                 # a group that carries an old signature/hash is signed again
            opg = OperationGroup(context=ctx_, contents=contents, branch=g['branch'], chain_id=case['chain_id'],
                                 signature=case['stale_signature'], opg_hash=case['stale_hash'])
        else:
            opg = OperationGroup(context=ctx_, contents=contents, branch=g['branch'], chain_id=case['chain_id'])
        for st in case.get('steps', ()):     # the same object is used for a while before it is signed
            if st[0] == 'forge':
                lib.call(opg.forge)
            elif st[0] == 'hash_try':        # not signed yet: raises; must not leave anything behind
                lib.call(opg.hash)
                lib.call(opg.binary_payload)
            elif st[0] == 'edit':
                opg.contents[st[1]][st[2]] = json.loads(json.dumps(st[3]))
            elif st[0] == 'sign':            # sign, keep working on the signed object
                ok0, r0 = lib.call(opg.sign)
                if ok0:
                    lib.call(r0.hash)
                    opg = r0
        ok, res = lib.call(opg.sign)
    finally:
        del key.sign
    if not ok:
        return {'ok': False, 'error': f'{type(res).__name__}: {res}'[:200]}
    sig_text = res.signature
    # the property does not prescribe the base58 notation of the signature: curve-specific prefixes are decoded too
    # (the model says generic 'sig' / 'BLsig', so a different prefix shows up as a correspondence difference only)
    kind, raw_sig = 9, b''
    for i, pfx in ((1, 'BLsig'), (2, 'edsig'), (3, 'spsig1'), (4, 'p2sig'), (0, 'sig')):
        if sig_text.startswith(pfx):
            kind, raw_sig = i, G.unb58(pfx, sig_text)
            break
    ok2, payload = lib.call(res.binary_payload)
    ok3, h = lib.call(res.hash)
    return {'ok': True, 'message': seen.get('message'), 'generic': seen.get('generic'), 'signature': sig_text, 'kind': kind, 'raw_sig': raw_sig,
            'payload': payload if ok2 else None, 'hash': h if ok3 else None, 'forged': bytes.fromhex(res.forge())}


def spec_expect(case):
    """what the protocol prescribes: None if the group cannot be signed, else the watermark"""
    cs = case['group']['contents']
    if not cs:
        return None
    ps = {vpass(c['kind']) for c in cs}
    if len(ps) != 1:
        return None
    if ps == {0}:
        if case['chain_id'] is None:
            return None
        return b'\x02' + G.unb58('Net', case['chain_id'])
    return b'\x03'


def oracle(case, out):
    """(B): reason of failure or None"""
    wm = spec_expect(case)
    if wm is None:
        return None if not out['ok'] else 'sign() accepted a group that mixes validation passes / lacks a chain id'
    if not out['ok']:
        return f"sign() failed for a {CURVES[case['curve']]} key: {out['error']}"
    msg = out['message']
    if not isinstance(msg, (bytes, bytearray)) or not msg.startswith(wm):
        return f"signed message does not start with watermark {wm.hex()} followed by the forged bytes"
    forged = bytes(msg[len(wm):])          # what was actually signed, judged against the group's CURRENT contents
    try:
        if S.decode_group(forged) != S.canon_group(case['group'], C6.mich):
            return 'the signed bytes are not the canonical encoding of the current contents of the group (stale or wrong forging)'
    except S.Bad as e:
        return f'the signed bytes are not a valid operation encoding: {e}'
    if out['forged'] != forged:
        return 'forge() of the signed group differs from the bytes that were signed'
    want_len = 96 if case['curve'] == b'BL' else 64
    if len(out['raw_sig']) != want_len:
        return f"signature has {len(out['raw_sig'])} bytes"
    if not case.get('skip_verify') and not verify_independent(case['curve'], case['key'].secret_exponent, wm + forged, out['raw_sig']):
        return 'signature does not verify over watermark ++ forged bytes (independent verifier)'
    if out['payload'] != forged + out['raw_sig']:
        return 'binary payload is not forged bytes ++ raw signature'
    if out['hash'] != G.b58o(G.blake2b(forged + out['raw_sig'])):
        return 'hash is not base58 "o" of Blake2b-256(forged bytes ++ signature)'
    return None


def coq_case(case, out):
    g = case['group']
    chain = copt(C6.chex(G.unb58('Net', case['chain_id']))) if case['chain_id'] else 'None'
    sig = out['raw_sig'] if out['ok'] else bytes(96 if case['curve'] == b'BL' else 64)
    inp = f"({CURVES[case['curve']]}, {C6.c_group(g)}, {chain}, {C6.chex(sig)})"
    if not out['ok'] or out['payload'] is None or out['message'] is None:
        return inp, 'Reject'
    return inp, f"(Ok ({C6.chex(out['message'])}, {lib.cN(out['kind'])}, {C6.chex(out['payload'])}))"


def tables(ctx):
    from pytezos.rpc.kind import validation_passes
    ctx.table('rpc/kind.py validation_passes (forgeable kinds)')
    rows = [(0, validation_passes['endorsement']), (4, validation_passes['activate_account']), (17, validation_passes['failing_noop']),
            (107, validation_passes['reveal'])]
    same = len({validation_passes[k] for k in G.MANAGER_KINDS}) == 1
    lit = clist(f'({lib.cN(a)}, {lib.cZ(b)})' for a, b in rows)
    bad = ctx.coq_mismatches('passes', IMPORTS, 'fun _ : unit => pass_table', 'list_eqb (prod_eqb N.eqb Z.eqb)', 'unit', 'list (N * Z)',
                             [('tt', lit)], prelude='From Coq Require Import ZArith.')
    return [] if (not bad and same) else [{'validation_passes': rows, 'manager_kinds_uniform': same}]


def run(ctx: lib.Ctx) -> None:
    rng = ctx.rng
    ctx.rule = ('groups of the C06 generator restricted to one validation pass (manager batches of 1..8, consensus groups, failing_noop, '
                'activation) plus groups mixing passes, empty groups and consensus groups without chain id; keys of the four curves '
                '(BLS on a small share: py_ecc is slow), random chain ids. non-trivial = a group that must be signed; distinct = distinct '
                '(curve, key, chain id, group). In addition a sweep of 1500 P-256, 1500 secp256k1 and 300 Ed25519 signatures over a counter-swept '
                'transfer, judged by the oracle only (value-dependent signature defects)')
    keys = {cv: [make_key(rng, cv) for _ in range(3 if cv != b'BL' else 2)] for cv in CURVES}
    import concurrent.futures
    pool = concurrent.futures.ThreadPoolExecutor(max_workers=1)
    fut_tables = pool.submit(tables, ctx)
    cases = []
    for p in sorted(glob.glob(os.path.join(lib.VERIF, 'corpus', PROP, '*.json'))):
        d = json.load(open(p))
        from pytezos.crypto.key import Key
        cv = {v: k for k, v in CURVES.items()}[d['curve']]
        cases.append({'curve': cv, 'key': Key.from_secret_exponent(bytes.fromhex(d['secret_exponent']), curve=cv), 'chain_id': d['chain_id'],
                      'group': d['group']})
        ctx.corpus_cases += 1
    # each curve signs at least one manager group and one consensus group
    for cv in CURVES:
        for kinds in (['transaction'], ['endorsement']):
            cases.append({'curve': cv, 'key': keys[cv][0], 'chain_id': G.b58('Net', G.rand_bytes(rng, 4)),
                          'group': {'branch': G.rand_block_hash(rng), 'contents': [G.rand_content(rng, k) for k in kinds]}})
    # byte-identical messages signed by different keys in one process (a failing_noop and a consensus group do not mention the
    # signer, so every key signs the very same bytes, twice): each signature must verify under its own key
    shared = [{'branch': G.rand_block_hash(rng), 'contents': [G.rand_content(rng, 'failing_noop')]},
              {'branch': G.rand_block_hash(rng), 'contents': [G.rand_content(rng, 'endorsement')]}]
    shared_chain = G.b58('Net', G.rand_bytes(rng, 4))
    for rnd in range(2):
        for cv in CURVES:
            for key in (keys[cv] if rnd == 0 else list(reversed(keys[cv]))):
                for g in (shared if cv != b'BL' else shared[:1]):
                    cases.append({'curve': cv, 'key': key, 'chain_id': shared_chain, 'group': json.loads(json.dumps(g))})
    # large groups (the protocol allows 32 kB of operation data): oracle (B) only, the literals would dominate the coqc time
    for size in (8_000, 16_000, 16_300, 16_400, 16_600, 24_000, 32_000):
        c = G.rand_content(rng, rng.choice(['register_global_constant', 'transaction']))
        if c['kind'] == 'transaction':
            c['parameters'] = {'entrypoint': 'big', 'value': {'bytes': G.rand_bytes(rng, size).hex()}}
        else:
            c['value'] = {'bytes': G.rand_bytes(rng, size).hex()}
        cv = rng.choice([b'ed', b'sp', b'p2'])
        cases.append({'curve': cv, 'key': keys[cv][0], 'chain_id': None, 'group': {'branch': G.rand_block_hash(rng), 'contents': [c]}, 'big': True})
    n_total, n_bls = len(cases) + ctx.n(230, 5000), 0
    while len(cases) < n_total:
        c = gen_case(rng, keys, allow_bls=n_bls < ctx.n(6, 120))
        n_bls += c['curve'] == b'BL'
        cases.append(c)

    coq_cases, meta, reported = [], [], 0
    for case in cases:
        out = run_impl(case)
        must = spec_expect(case) is not None
        ctx.case((case['curve'], case['key'].secret_exponent.hex(), case['chain_id'], json.dumps(case['group'], sort_keys=True)), nontrivial=must,
                 kind=f"{CURVES[case['curve']]}:{'signable' if must else 'refused'}:{'ok' if out['ok'] else 'raised'}:{case.get('lineage', 'fresh')}",
                 sample={'curve': CURVES[case['curve']], 'kinds': [c['kind'] for c in case['group']['contents']], 'chain_id': case['chain_id'],
                         'signed': out['ok'], 'signature': out.get('signature'), 'hash': out.get('hash')})
        if not case.get('big'):
            coq_cases.append(coq_case(case, out))
            meta.append((case, out))
        why = oracle(case, out)
        if why and reported < 3:
            reported += 1
            ctx.violation(why, replay_doc(case, out), found=True)

    # ---- signature sweep (oracle (B) only): signatures are random-looking values; defects that depend on the value of a
    # signature component (a leading zero byte of r or s: 1 signature in 128) need volume, not structure
    sweep = {b'p2': ctx.n(1500, 8000), b'sp': ctx.n(1500, 8000), b'ed': ctx.n(300, 1500)}
    for cv, count in sweep.items():
        base = G.rand_content(rng, 'transaction')
        base.pop('parameters', None)
        branch = G.rand_block_hash(rng)
        short = 0
        for i in range(count):
            c = dict(base, counter=str(i + 1))
            case = {'curve': cv, 'key': keys[cv][i % len(keys[cv])], 'chain_id': None, 'group': {'branch': branch, 'contents': [c]}}
            out = run_impl(case)
            ctx.case((cv, i), nontrivial=True, kind=f'sweep:{CURVES[cv]}')
            if out['ok'] and cv != b'ed' and (out['raw_sig'][:1] == b'\0' or out['raw_sig'][32:33] == b'\0'):
                short += 1
            why = oracle(case, out)
            if why and reported < 3:
                reported += 1
                ctx.violation(why, replay_doc(case, out), found=True)
        ctx.extra[f'sweep_{CURVES[cv]}_signatures_with_leading_zero_component'] = short

    bad = ctx.coq_mismatches('sign', IMPORTS, 'run_case', 'case_eqb', 'kcurve * group * option bytes * bytes', 'result (bytes * N * bytes)',
                             coq_cases, shard=ctx.n(25, 100))
    problems = fut_tables.result()
    pool.shutdown()
    if reported == 0 and (bad or problems):
        rep = {'correspondence': 'C23/OperationGroup.sign+binary_payload vs Client.OpSign.run_case', 'disagreements': len(bad), 'tables': problems}
        if bad:
            case, out = meta[bad[0]]
            rep.update(replay_doc(case, out))
            rep['model'] = ctx.coq_eval(IMPORTS, f'run_case {coq_cases[bad[0]][0]}')[:2000]
        ctx.violation('implementation no longer corresponds to the model the theorems are about', rep, found=False)


def replay_doc(case, out):
    d = {'curve': CURVES[case['curve']], 'secret_exponent': case['key'].secret_exponent.hex(), 'chain_id': case['chain_id'], 'group': case['group'],
         'lineage': case.get('lineage', 'fresh'), 'stale_hash': case.get('stale_hash'), 'stale_signature': case.get('stale_signature'),
         'initial_contents': case.get('initial_contents'), 'steps_before_sign': [list(x) for x in case.get('steps', [])],
         'repro': 'lineage fresh: as below; extended: OperationGroup(.., contents[:-1], signature=stale_signature, opg_hash=stale_hash).operation(contents[-1]); '
                  'resigned: OperationGroup(.., contents, signature=stale_signature, opg_hash=stale_hash); then: '
                  'OperationGroup(context=ExecutionContext(key=Key.from_secret_exponent(bytes.fromhex(secret_exponent), curve)), '
                  'contents=group["contents"], branch=group["branch"], chain_id=chain_id).sign() then .binary_payload(), .hash()'}
    if out:
        d['observed'] = {k: (v.hex() if isinstance(v, (bytes, bytearray)) else v) for k, v in out.items()}
    return d


def replay(ctx, doc):
    from pytezos.crypto.key import Key
    cv = {v: k for k, v in CURVES.items()}[doc['curve']]
    case = {'curve': cv, 'key': Key.from_secret_exponent(bytes.fromhex(doc['secret_exponent']), curve=cv), 'chain_id': doc['chain_id'],
            'group': doc['group'], 'lineage': doc.get('lineage', 'fresh'), 'stale_hash': doc.get('stale_hash'),
            'initial_contents': doc.get('initial_contents'), 'steps': [tuple(x) for x in doc.get('steps_before_sign', [])],
            'stale_signature': doc.get('stale_signature')}
    out = run_impl(case)
    why = oracle(case, out)
    print(json.dumps({'verdict': why, 'observed': {k: (v.hex() if isinstance(v, (bytes, bytearray)) else v) for k, v in out.items()}}, indent=1))
    return why is not None
