"""C18 — Michelson text formatting and parsing are inverse.

Implementation under test (imported from /repo/src as it is now):
  pytezos.michelson.format.micheline_to_michelson / format_node / is_framed
  pytezos.michelson.parse.michelson_to_micheline / MichelsonParser / SimpleMichelsonLexer

Comparison (A), evaluated by vm_compute inside coqc:
  (i)   text = micheline_to_michelson(e, inline)  ==  format_text inline e  byte for byte (Printer.v), and the
        MODEL lexer on it gives fmt_tokens e
  (ii)  PLY lexer token stream of a text  ==  model lexer (Lexer.v) on the same text
  (iii) michelson_to_micheline(text)       ==  parse_text (Parser.v)   (accept / reject / tree)
  on formatted texts (both layouts), re-laid-out texts (random white space and comments between the
  tokens), mutated texts and a list of hand-written corner cases; plus the static tables prim_tags
  and is_framed.
Comparison (B), the property itself on the real code: parse(format(e, inline)) == e for structured
  expressions (types, data, code, scripts), and parse(relayout(text)) == parse(text); history stream: round-trip,
  edit the returned tree in place, round-trip the unchanged expression again (still e, same text), edit the input
  in place between two format calls (no state may be carried from call to call).
"""
import json
import os

import lib
from lib import clist, cZ

PROP = 'C18'
IMPORTS = 'From PV Require Import Codec.Micheline Codec.Printer Codec.Lexer Codec.Parser.'
PRELUDE = '''
(* one comparison function for all generated cases; the expected answer is always [true] *)
Inductive ccase : Type :=
| CFmt (e : node) (inline : bool) (txt : bytes)    (* (i)  the text is format_text inline e; model lexer on it = fmt_tokens e *)
| CTxt (txt : bytes) (l : lexres) (r : tres)       (* (ii) PLY token stream, (iii) michelson_to_micheline outcome *)
| CName (t : byte) (n : option bytes)              (* tags.py, tag -> name *)
| CTag (n : bytes) (t : option byte)               (* tags.py, name -> tag *)
| CFramed (n : bytes) (a : bool) (r : bool)        (* is_framed *)
| CDom (e : node) (r : bool).                      (* the harness's domain predicate = michelson_expr *)
Definition chk (c : ccase) : bool :=
  match c with
  | CFmt e inline txt => bytes_eqb (format_text inline e) txt && lexres_eqb (lex txt) (LexOk (fmt_tokens e))
  | CTxt txt l r => lexres_eqb (lex txt) l && tres_agree (parse_text txt) r
  | CName t n => option_eqb bytes_eqb (name_of_tag t) n
  | CTag n t => option_eqb byte_eqb (tag_of_name n) t
  | CFramed n a r => Bool.eqb (is_framed n a) r
  | CDom e r => Bool.eqb (michelson_expr e) r
  end.
'''


def cb(b) -> str:
    """bytes literal as a list of byte constructors (much cheaper for coqc than a string literal)"""
    b = bytes(b)
    return '[' + ';'.join('x%02x' % c for c in b) + ']' if b else 'nil'


# ---------------------------------------------------------------------------------------------
# the implementation
# ---------------------------------------------------------------------------------------------

def impl():
    from pytezos.michelson import format as F  # type: ignore
    from pytezos.michelson import parse as P  # type: ignore
    from pytezos.michelson.tags import prim_tags  # type: ignore
    return F, P, prim_tags


_TAGS = None


def tags():
    """name -> tag for the protocol primitives (tags.py rows other than the 0xee placeholders)."""
    global _TAGS
    if _TAGS is None:
        _, _, prim_tags = impl()
        _TAGS = {k: v[0] for k, v in prim_tags.items() if v != b'\xee'}
    return _TAGS


def py_format(e, inline):
    F, _, _ = impl()
    return lib.call(F.micheline_to_michelson, e, inline=inline)


def py_parse(text):
    _, P, _ = impl()
    return lib.call(P.michelson_to_micheline, text)


_LEXER = None
TOKEN_KINDS = ('INT', 'BYTE', 'STR', 'ANNOT', 'PRIM', 'LEFT_CURLY', 'RIGHT_CURLY', 'LEFT_PAREN', 'RIGHT_PAREN', 'SEMI')


def py_lex(text):
    """Token stream of the PLY lexer: list of (type, value), or None when an illegal character is met
    (t_error hands the parser a token of unknown type)."""
    global _LEXER
    _, P, _ = impl()
    if _LEXER is None:
        _LEXER = P.SimpleMichelsonLexer()
    lx = _LEXER.lexer.clone()
    lx.input(text)
    out = []
    while True:
        t = lx.token()
        if t is None:
            return out
        if t.type not in TOKEN_KINDS:
            return None
        out.append((t.type, t.value))


def canon(m):
    """Micheline as produced by the parser -> canonical JSON (ints normalised, empty args/annots dropped)."""
    if m is None:
        return None
    if isinstance(m, list):
        return [canon(x) for x in m]
    if 'int' in m:
        return {'int': str(int(m['int']))}
    if 'string' in m:
        return {'string': m['string']}
    if 'bytes' in m:
        return {'bytes': m['bytes'].lower()}
    out = {'prim': m['prim']}
    if m.get('args'):
        out['args'] = [canon(x) for x in m['args']]
    if m.get('annots'):
        out['annots'] = list(m['annots'])
    return out


# ---------------------------------------------------------------------------------------------
# Coq literals
# ---------------------------------------------------------------------------------------------

def latin1(s):
    try:
        return s.encode('latin-1')
    except UnicodeEncodeError:
        return None


def cnode(m):
    """canonical Micheline JSON -> Coq node literal, or None when it is outside the model (a name that
    is not a protocol primitive, a character above U+00FF, an odd number of hex digits)."""
    if isinstance(m, list):
        xs = [cnode(x) for x in m]
        return None if any(x is None for x in xs) else '(NSeq ' + clist(xs) + ')'
    if 'int' in m:
        return f'(NInt {cZ(int(m["int"]))})'
    if 'string' in m:
        b = latin1(m['string'])
        return None if b is None else f'(NStr {cb(b)})'
    if 'bytes' in m:
        h = m['bytes']
        if len(h) % 2 or h != h.lower():
            return None                     # (upper-case digits are printed as they are: not fmt_tokens' text)
        return f'(NByt {cb(bytes.fromhex(h))})'
    t = tags().get(m['prim'])
    if t is None or t > 0x9e:
        return None
    xs = [cnode(x) for x in m.get('args', [])]
    an = [latin1(a) for a in m.get('annots', [])]
    if any(x is None for x in xs) or any(a is None for a in an):
        return None
    return f'(NPrim {lib.cbyte(t)} {clist(xs)} {clist(cb(a) for a in an)})'


def ctres(ok, val):
    """Python outcome of michelson_to_micheline -> Coq tres literal."""
    if not ok:
        return 'TReject'
    if val is None:
        return 'TEmpty'
    try:
        lit = cnode(canon(val))
    except Exception:  # noqa: BLE001  (a value that is not Micheline at all)
        lit = None
    return 'TUnsupported' if lit is None else f'(TNode {lit})'


_TOK = {'LEFT_CURLY': 'TLCurly', 'RIGHT_CURLY': 'TRCurly', 'LEFT_PAREN': 'TLParen', 'RIGHT_PAREN': 'TRParen', 'SEMI': 'TSemi'}


def clexres(toks):
    if toks is None:
        return 'LexErr'
    out = []
    for ty, v in toks:
        if ty in _TOK:
            out.append(_TOK[ty])
        elif ty == 'INT':
            out.append(f'(TInt {cb(v.encode("latin-1"))})')
        elif ty == 'BYTE':
            out.append(f'(TByt {cb(v[2:].encode("latin-1"))})')
        elif ty == 'STR':
            out.append(f'(TStr {cb(v[1:-1].encode("latin-1"))})')
        elif ty == 'ANNOT':
            out.append(f'(TAnnot {cb(v.encode("latin-1"))})')
        else:
            out.append(f'(TPrim {cb(v.encode("latin-1"))})')
    return '(LexOk ' + clist(out) + ')'


# ---------------------------------------------------------------------------------------------
# generators
# ---------------------------------------------------------------------------------------------
SIMPLE_TYPES = ['key', 'unit', 'signature', 'operation', 'int', 'nat', 'string', 'bytes', 'mutez', 'bool', 'key_hash',
                'timestamp', 'address', 'bls12_381_g1', 'bls12_381_g2', 'bls12_381_fr', 'chain_id', 'never', 'chest',
                'chest_key', 'tx_rollup_l2_address']
UNARY_TYPES = ['option', 'list', 'set', 'contract', 'ticket']
BINARY_TYPES = ['or', 'map', 'big_map', 'lambda']
SIZED_TYPES = ['sapling_state', 'sapling_transaction', 'sapling_transaction_deprecated']
# (constant, Lambda_rec, Ticket applications in argument position: defect #44, fixed by d644aa7, still generated)

ANNOT_BODY = '_.0123456789abcdefghijklmnopqrstuvwxyzABCDEFGHIJKLMNOPQRSTUVWXYZ'


class Gen:
    def __init__(self, rng, allow_findings=True):
        self.r = rng
        self.allow_findings = allow_findings
        self.all_prims = sorted(p for p in tags() if p[0] != '_')    # __CREATE_ACCOUNT__ is not a PRIM token
        self.instr_prims = [p for p in self.all_prims if p[0].isupper() and p.upper() == p and p[0] != '_']

    # ---- leaves
    def annot(self):
        r = self.r
        k = r.random()
        if k < 0.08:
            return r.choice(['%', '%%', '%@', '@%', '@%%', ':', '@', '::', '%:@'])
        if k < 0.11 and self.allow_findings:
            # inner sigil: legal in Octez, split in two by the PLY lexer (known finding `inner-sigil-annot`)
            return r.choice(['%a@b', '%a%b', ':t.x:y', '@v%f', '%a.b@'])
        n = r.choice([1, 1, 2, 3, 5, 9])
        return r.choice(':@%') + ''.join(r.choice(ANNOT_BODY) for _ in range(n))

    def annots(self, p=0.3):
        r = self.r
        if r.random() >= p:
            return []
        return [self.annot() for _ in range(r.choice([1, 1, 1, 2, 3]))]

    def string(self, wide=False):
        r = self.r
        k = r.random()
        if k < 0.15:
            return r.choice(['', '"', '\\', '\\"', 'a"b', 'a\\b', 'a\\nb', '\\u0041', 'abc\\', '\n', '\t', '\r\n', '\x00',
                             '\x08\x0c', '\x1f', '\x7f', '\x80', '\xff', '# not a comment', '/* nor this */', '"; DROP; "',
                             'x" "y', '(', ')', '{};', "'", '\\\\', '\\\\"', 'tz1VSUr8wwNhLAzempoch5d6hLRiTh8Cjcjb',
                             'é', 'a\u00a0b', '\\/'])
        n = r.choice([1, 2, 3, 5, 8, 13, 40])
        pools = ['abcXYZ 019_', '"\\', '\n\t\r\x00\x01\x08\x0c\x1f', '\x7f\x80\x9f\xa0\xe9\xff', '#/*(){};:%@-.']
        if wide:
            pools.append('\u0100\u1234\u20ac\u2028\U0001F600\U0010FFFF\uffff')    # (no surrogates: not text, see docs/C18.md)
        w = [8, 2, 1, 1, 2] + ([2] if wide else [])
        return ''.join(r.choice(r.choices(pools, w)[0]) for _ in range(n))

    def integer(self):
        r = self.r
        if r.random() < 0.3:
            return str(r.choice([0, 1, -1, 9, 10, -10, 99, 100, 255, -256, 10 ** 9, -10 ** 18, 10 ** 40, -(10 ** 40) + 1]))
        return str(lib.boundary_ints(r))

    def bytes_(self):
        r = self.r
        n = r.choice([0, 0, 1, 2, 3, 8, 20, 33])
        h = bytes(r.getrandbits(8) for _ in range(n)).hex()
        k = r.random()
        return h.upper() if k < 0.1 else (''.join(r.choice([c, c.upper()]) for c in h) if k < 0.2 else h)

    def leaf(self, wide=False):
        k = self.r.random()
        if k < 0.4:
            return {'int': self.integer()}
        if k < 0.75:
            return {'string': self.string(wide)}
        return {'bytes': self.bytes_()}

    @staticmethod
    def prim(name, args=(), annots=()):
        out = {'prim': name}
        if args:
            out['args'] = list(args)
        if annots:
            out['annots'] = list(annots)
        return out

    # ---- types
    def type_(self, d):
        r = self.r
        k = r.random()
        if d <= 0 or k < 0.4:
            return self.prim(r.choice(SIMPLE_TYPES), annots=self.annots(0.45))
        if k < 0.55:
            return self.prim('pair', [self.type_(d - 1) for _ in range(r.choice([2, 2, 3, 4]))], self.annots())
        if k < 0.7:
            return self.prim(r.choice(UNARY_TYPES), [self.type_(d - 1)], self.annots())
        if k < 0.9:
            return self.prim(r.choice(BINARY_TYPES), [self.type_(d - 1), self.type_(d - 1)], self.annots())
        if k < 0.96:
            return self.prim(r.choice(SIZED_TYPES), [{'int': str(r.choice([0, 8, 32]))}], self.annots())
        return self.prim('constant', [{'string': 'expruu5BTdW7ajqJ9XPTF3kgcV78pRiaBW3Gq31mgp3WSYjjUBYxre'}])

    # ---- data
    def data(self, d, wide=False):
        r = self.r
        k = r.random()
        if d <= 0 or k < 0.3:
            if r.random() < 0.25:
                return self.prim(r.choice(['Unit', 'True', 'False', 'None']))
            return self.leaf(wide)
        if k < 0.45:
            return self.prim('Pair', [self.data(d - 1, wide) for _ in range(r.choice([2, 2, 3, 4]))])
        if k < 0.6:
            return self.prim(r.choice(['Left', 'Right', 'Some']), [self.data(d - 1, wide)])
        if k < 0.72:
            return [self.data(d - 1, wide) for _ in range(r.choice([0, 1, 2, 3, 5]))]
        if k < 0.82:
            return [self.prim('Elt', [self.data(d - 1, wide), self.data(d - 1, wide)]) for _ in range(r.choice([1, 2, 3]))]
        if k < 0.92:
            return self.code(d - 1)
        if k < 0.95:
            return self.prim('Lambda_rec', [self.code(d - 1)])
        if k < 0.98:
            return self.prim('Ticket', [{'string': 'KT1BEqzn5Wx8uJrZNvuS9DVHmLvG9td3fDLi'}, self.type_(0), self.data(0), {'int': '1'}])
        return self.prim('constant', [{'string': 'expruu5BTdW7ajqJ9XPTF3kgcV78pRiaBW3Gq31mgp3WSYjjUBYxre'}])

    # ---- code
    def instr(self, d):
        r = self.r
        k = r.random()
        P = self.prim
        if d <= 0 or k < 0.3:
            return P(r.choice(self.instr_prims), annots=self.annots(0.25))
        if k < 0.42:
            return P('PUSH', [self.type_(d - 1), self.data(d - 1)], self.annots(0.15))
        if k < 0.5:
            return P(r.choice(['NIL', 'NONE', 'EMPTY_SET', 'LEFT', 'RIGHT', 'CONTRACT', 'UNPACK', 'CAST']), [self.type_(d - 1)], self.annots(0.2))
        if k < 0.55:
            return P(r.choice(['EMPTY_MAP', 'EMPTY_BIG_MAP']), [self.type_(d - 1), self.type_(d - 1)], self.annots(0.2))
        if k < 0.6:
            return P(r.choice(['LAMBDA', 'LAMBDA_REC']), [self.type_(d - 1), self.type_(d - 1), self.code(d - 1)], self.annots(0.2))
        if k < 0.68:
            return P(r.choice(['IF', 'IF_NONE', 'IF_LEFT', 'IF_CONS']), [self.code(d - 1), self.code(d - 1)])
        if k < 0.76:
            name = r.choice(['DIP', 'LOOP', 'ITER', 'MAP', 'LOOP_LEFT'])
            args = [self.code(d - 1)]
            if name == 'DIP' and r.random() < 0.5:
                args.insert(0, {'int': str(r.choice([0, 1, 2, 17]))})
            return P(name, args, self.annots(0.1))
        if k < 0.82:
            return P(r.choice(['DROP', 'DUP', 'DIG', 'DUG', 'PAIR', 'UNPAIR', 'GET', 'UPDATE', 'SAPLING_EMPTY_STATE']), [{'int': str(r.choice([0, 1, 2, 3, 1000]))}], self.annots(0.15))
        if k < 0.86:
            return self.code(d - 1)                     # nested sequence as an instruction
        if k < 0.9:
            return P('CREATE_CONTRACT', [self.script(d - 1)])
        if k < 0.93:
            return P('VIEW', [{'string': self.string()}, self.type_(d - 1)])
        if k < 0.95:
            return P('EMIT', [self.type_(d - 1)], ['%' + 'tag'])
        # any primitive in instruction position with arguments of the three kinds
        args = [r.choice([self.type_, self.data, self.code])(d - 1) for _ in range(r.choice([1, 2, 3]))]
        return P(r.choice(self.all_prims), args, self.annots(0.3))

    def code(self, d):
        return [self.instr(d) for _ in range(self.r.choice([0, 1, 1, 2, 3, 4, 6]))]

    def script(self, d):
        P = self.prim
        s = [P('parameter', [self.type_(d)]), P('storage', [self.type_(d)]), P('code', [self.code(d)])]
        if self.r.random() < 0.3:
            s.append(P('view', [{'string': 'v'}, self.type_(0), self.type_(0), self.code(d - 1)]))
        if self.r.random() < 0.2:
            self.r.shuffle(s)
        return s

    def root(self, wide=False):
        while True:
            kind, e = self.root1(wide)
            if in_domain(e) or kind == 'sections':
                return kind, e

    def root1(self, wide=False):
        r = self.r
        d = r.choice([1, 2, 2, 3, 3, 4])
        k = r.random()
        if k < 0.22:
            return 'type', self.type_(d)
        if k < 0.5:
            return 'data', self.data(d, wide)
        if k < 0.72:
            return 'code', self.code(d)
        if k < 0.85:
            return 'instr', self.instr(d)
        if k < 0.95:
            return 'script', self.script(d)
        P = self.prim
        return 'sections', r.choice([[], [[]], [[], []], [[[]], []],
                                     [P('parameter', [self.type_(1)]), P('storage', [self.type_(1)])],
                                     [P('code', [[]]), P('code', [[]])],
                                     [[P('code', [[]])]],
                                     [P('code', [[]]), P('DROP')]])

    # ---- arbitrary shapes (correspondence only): any primitive anywhere
    def wild(self, d):
        r = self.r
        k = r.random()
        if d <= 0 or k < 0.25:
            return self.leaf() if r.random() < 0.6 else self.prim(r.choice(self.all_prims), annots=self.annots(0.3))
        if k < 0.45:
            return [self.wild(d - 1) for _ in range(r.choice([0, 1, 2, 3]))]
        return self.prim(r.choice(self.all_prims), [self.wild(d - 1) for _ in range(r.choice([0, 1, 1, 2, 3]))], self.annots(0.3))


def sweep(full=True):
    """deterministic boundary cases, every run: every type primitive bare / annotated / applied in argument position,
    every data constructor in argument position, every instruction primitive bare and annotated, every character
    0..255 inside a string, small and boundary integers, sequences nested in every position"""
    P = Gen.prim
    out = []
    for t in SIMPLE_TYPES:
        out.append(('sweep-type', P('option', [P(t)])))
        out.append(('sweep-type', P('option', [P(t, annots=['%a'])])))
        out.append(('sweep-type', P('pair', [P(t, annots=[':t', '%f']), P(t)], ['%p'])))
        out.append(('sweep-type', P('PUSH', [P(t, annots=['@v']), {'int': '0'}])))
        out.append(('sweep-type', P(t, annots=['%root'])))
    nat, intt = P('nat'), P('int', annots=['%i'])
    comp = [P(u, [nat]) for u in UNARY_TYPES] + [P(b, [nat, intt]) for b in BINARY_TYPES] + \
           [P('pair', [nat, intt]), P('pair', [nat, intt, nat]), P('pair', [nat, intt, nat, nat])] + [P(z, [{'int': '8'}]) for z in SIZED_TYPES]
    for c in comp:
        out.append(('sweep-type', P('list', [c])))
        out.append(('sweep-type', P('list', [P(c['prim'], c['args'], ['%a'])], [':l'])))
        out.append(('sweep-type', P('lambda', [c, c])))
        out.append(('sweep-type', P('NIL', [c])))
        out.append(('sweep-type', [P('parameter', [c]), P('storage', [P(c['prim'], c['args'], ['%s'])]), P('code', [[P('NIL', [c])]])]))
    one, neg = {'int': '1'}, {'int': '-1'}
    for d in [P('Pair', [one, neg]), P('Pair', [one, neg, one]), P('Left', [one]), P('Right', [neg]), P('Some', [one])]:
        out.append(('sweep-data', P('Some', [d])))
        out.append(('sweep-data', P('Pair', [d, d])))
        out.append(('sweep-data', P('PUSH', [P('nat'), d])))
        out.append(('sweep-data', [d, d]))
        out.append(('sweep-data', [P('Elt', [d, d])]))
        out.append(('sweep-data', d))
    for d in ['Unit', 'True', 'False', 'None']:
        out.append(('sweep-data', P('Pair', [P(d), P('Some', [P(d)])])))
    seqs = [[], [[]], [[], []], [[[]]], [one], [[one]], [[one], one], [one, [one]], [[one, neg]], [[one, neg], []], [[[one], neg], one]]
    for q in seqs:
        out.append(('sweep-seq', q))
        out.append(('sweep-seq', P('Pair', [q, q])))
        out.append(('sweep-seq', P('DIP', [q])))
        out.append(('sweep-seq', P('IF', [q, []])))
        out.append(('sweep-seq', [P('PUSH', [P('list', [P('nat')]), q]), P('DROP')]))
        out.append(('sweep-seq', P('Some', [q])))
    for name in sorted(tags()):
        if name[0] == '_':
            continue
        out.append(('sweep-prim', [P(name, annots=['%a', '@b']), P(name)]))
        out.append(('sweep-prim', P(name, [[P(name)], {'int': '1'}], [':t'])))
        out.append(('sweep-prim', P('Pair', [P(name), P(name)])))
    for base in range(0, 256, 16):
        out.append(('sweep-string', {'string': ''.join(chr(c) for c in range(base, base + 16))}))
        out.append(('sweep-string', P('Pair', [{'string': ''.join(chr(c) for c in range(base + 15, base - 1, -1))}, {'string': 'x'}])))
    for c in '"\\\n\r\t\b\f/\x00\x1f\x7f\x80\xff #;{}()':
        out.append(('sweep-string', {'string': c}))
        out.append(('sweep-string', {'string': 'a' + c}))
        out.append(('sweep-string', [{'string': c + 'a'}, {'string': c + c}]))
    for i in list(range(-12, 13)) + [99, 100, 101, -99, -100, -101, 10 ** 18, -10 ** 18, 2 ** 64, -2 ** 64, 10 ** 50, -10 ** 50 - 1]:
        out.append(('sweep-int', P('Pair', [{'int': str(i)}, {'int': str(-i)}])))
    # the line-width rule (line_size = 100): texts whose width crosses 99/100/101 in every branch of format_node
    for k in range(70 if full else 80, 101):
        s_k = {'string': 'a' * k}
        out.append(('sweep-width', [s_k, {'int': '1'}]))                                   # sequence rule
        out.append(('sweep-width', P('Pair', [s_k, {'int': '1'}, {'string': 'b'}])))         # several arguments
        out.append(('sweep-width', P('IF', [[P('PUSH', [P('string'), s_k])], []])))          # is_complex rule
        out.append(('sweep-width', P('PUSH', [P('pair', [P('string'), P('nat')]), P('Pair', [s_k, {'int': '1'}])])))  # is_inline
        out.append(('sweep-width', [P('parameter', [P('unit')]), P('storage', [P('unit')]), P('code', [[P('PUSH', [P('string'), s_k])]])]))
        out.append(('sweep-width', [P('DIP', [[P('DIP', [[P('PUSH', [P('string'), {'string': 'a' * (k - 20)}]), P('DROP')]])]])]))  # nested indentation
        out.append(('sweep-width', P('LAMBDA', [P('unit'), P('unit'), [P('PUSH', [P('string'), {'string': 'a' * (k - 10)}])]])))
        out.append(('sweep-width', [P('DIP', [[{'string': 'a' * (k - 12)}, P('DROP')]]), P('DROP')]))                # two-item sequence, indented
        out.append(('sweep-width', P('Pair', [[{'string': 'a' * (k - 12)}, {'int': '1'}], P('Pair', [{'string': 'a' * (k - 30)}, {'int': '2'}, {'int': '3'}])])))
    for b in ['', '00', 'ff', '0001', 'deadbeef', 'DEADBEEF', 'aBcDeF09', '00' * 33]:
        out.append(('sweep-bytes', P('Pair', [{'bytes': b}, {'bytes': b}])))
        out.append(('sweep-bytes', {'bytes': b}))
    return out


def size(m):
    if isinstance(m, list):
        return 1 + sum(size(x) for x in m)
    return 1 + sum(size(x) for x in m.get('args', [])) if 'prim' in m else 1


def walk(m, in_arg=False):
    """yield (node, is_argument_position)"""
    if isinstance(m, list):
        for x in m:
            yield from walk(x, False)
        return
    yield m, in_arg
    for x in m.get('args', []) if 'prim' in m else []:
        yield from walk(x, True)


def finding_class(e):
    """which known-finding class (if any) the expression falls into — decidable predicates on the input"""
    cls = set()
    for n, in_arg in walk(e):
        if isinstance(n, dict) and 'prim' in n:
            for a in n.get('annots', []):
                body = a.lstrip(':@%')
                if any(c in ':@%' for c in body):
                    cls.add('inner-sigil-annot')
    return cls


# ---------------------------------------------------------------------------------------------
# texts
# ---------------------------------------------------------------------------------------------
CORNER_TEXTS = [
    '', ' ', ';', '{}', '{;}', 'a', 'DROP', 'DROP;', 'DROP;SWAP;DUP', '{DROP};SWAP', '1', '1;2', '{1;2}', '{{1;2}}',
    '{{1;2};3}', '(Pair 1 2)', 'Pair 1 2', '(Pair 1 2) (Pair 1 2)', '()', '(', ')', '(1)', 'PUSH nat :a 1',
    'PUSH (nat :a) 1', 'nat :a :b %c', 'nat:a:b', 'nat :a:b', '0x', '0xZZ', '0x0g', '0X12', '0xABcd', '0xabc', '12ab', '-', '-5',
    '--5', '- 5', '"a\\"', '"a\\" "b"', '"a\nb"', '"a\\nb"', '"\\u0041"', '"\\u00e9"', '"\\u0100"', '"\xe9"', '"\x7f"', '"\\/"', '"\\q"',
    '"\\u12"', '"\\u00G0"', '"\\ud83d\\ude00"', '"a', 'a"', '"\\\\"', '"\\\\\\""', '"\\', '"\\"', '""', '"" ""', '"a""b"', '"\t"',
    'DROP # c\n; SWAP', 'DROP # c', '# only', 'DROP /* c */ ; SWAP', 'DROP /* c * d */ ; SWAP', 'DROP /* c \n d */ ; SWAP',
    'DROP /**/ ; SWAP', 'DROP /* ; SWAP', 'DROP / ; SWAP', 'DROP /*/ ; SWAP', 'DROP/*x*/SWAP', 'DROP#x\nSWAP',
    'DIP {DROP} {SWAP}', 'IF {} {} ; DROP', '{} {}', '{};{}', 'Pair (Pair 1 2) 3', 'Pair {1} {}', 'Pair { {} } {{};{}}',
    'Pair {;} {;1;;2;}', 'DROP\x0cSWAP', 'DROP\x0bSWAP', 'DROP\rSWAP', '%a', 'nat %', 'nat %%', 'nat %@', 'nat @%%', 'nat %a.b_c9',
    'nat %a-b', 'nat %a@b', 'nat %.a', 'nat %9', 'bls12_381_g1', 'PUSH int -0', 'PUSH int 007', 'PUSH int - 7', 'PUSH int +7', 'PUSH int 1-2',
    'PAIR 2', 'DUP 2', 'CAR;CDR', 'parameter unit;storage unit;code {}', 'code {}', '(code {})', 'Unit)', '(Unit', '((Unit))',
    'Some (Unit)', 'Some ((Unit))', 'Some (1)', 'Some ({})', 'Some (Pair)', 'Some (Pair 1 2', 'Some Pair 1 2)', 'X', 'Xy', '_ab', 'a_', 'A1', '1A', 'DROP1',
    'constant "x"', 'list (constant "x")', 'list constant "x"', 'nat %a (int)', 'pair (nat %a) (int :b)', 'pair nat %a int',
    '{ DROP ; ; SWAP }', '{ ; }', '{ ;; }', ';;', '; DROP', 'DROP ; { }', '{ DROP } { SWAP }', '{ DROP ; (Pair 1 2) }', '{ (DROP) }',
    'PUSH nat 1 ; ; ', '( Pair 1 2 )', ' (Pair 1 2)', '(Pair 1 2) ', '(Pair 1 2)\n', '(DROP) ; (SWAP)', '(DROP ; SWAP)',
    'IF_LEFT { DROP } { SWAP } %a', 'DIP 2 { DROP }', 'DIP { DROP } 2', 'Elt 1 2', '{ Elt 1 2 ; Elt "a" 0x00 }', 'Pair 1 (Pair 2 (Pair 3 4))',
    'or (nat %a) (or %b (int %c) (string %d))', 'lambda (pair nat nat) (list operation)', 'PUSH (lambda unit unit) { DROP ; UNIT }',
    'PUSH string "a\\"b\\\\c\\n"', 'PUSH bytes 0x', 'PUSH (option (pair (nat %x) (int :y))) (Some (Pair 1 -1))',
]

# bounded-exhaustive stream for the grammar: every sequence of these eight tokens up to a length
GRAMMAR_ALPHABET = ['DROP', '%a', '1', '{', '}', '(', ')', ';']
# random token soup biased towards almost-well-formed programs
SOUP_TOKENS = ['DROP', 'PUSH', 'nat', 'Pair', 'pair', 'IF', 'Elt', 'Unit', 'code', '%a', ':t', '@v', '1', '-2', '"s"', '0x00',
               '{', '}', '{', '}', '(', ')', '(', ')', ';', ';', '{}', '{ }', 'CADR', 'x']


def exhaustive_texts(max_len):
    import itertools
    for n in range(0, max_len + 1):
        for toks in itertools.product(GRAMMAR_ALPHABET, repeat=n):
            yield ' '.join(toks)


_SHARED_PARSER = None


def py_parse_shared(text):
    """michelson_to_micheline with one parser object reused (PLY table construction costs 2 ms per call otherwise)"""
    global _SHARED_PARSER
    _, P, _ = impl()
    if _SHARED_PARSER is None:
        _SHARED_PARSER = P.MichelsonParser()
    return lib.call(P.michelson_to_micheline, text, parser=_SHARED_PARSER)


MUT_CHARS = '(){};"\\#/*-0x:%@._ \n\tAaZz9'


def mutate(rng, text):
    s = list(text)
    for _ in range(rng.choice([1, 1, 2, 3])):
        k = rng.random()
        pos = rng.randrange(len(s) + 1)
        if k < 0.35 and s:
            del s[min(pos, len(s) - 1)]
        elif k < 0.7:
            s.insert(pos, rng.choice(MUT_CHARS))
        elif s:
            s[min(pos, len(s) - 1)] = rng.choice(MUT_CHARS)
    return ''.join(s)


def render_tok(t):
    return t[1]


def need_space(a, b):
    punct = ('LEFT_CURLY', 'RIGHT_CURLY', 'LEFT_PAREN', 'RIGHT_PAREN', 'SEMI')
    return not (a[0] in punct or b[0] in punct)


def random_gap(rng, nonempty):
    out = []
    n = rng.choice([0, 1, 1, 1, 2, 3])
    if nonempty and n == 0:
        n = 1
    for _ in range(n):
        k = rng.random()
        if k < 0.7:
            out.append(rng.choice(' \t\r\n\x0c  \n'))
        elif k < 0.85:
            out.append('#' + ''.join(rng.choice('ab;"{}(/* ') for _ in range(rng.choice([0, 1, 4]))) + '\n')
        else:
            out.append('/*' + ''.join(rng.choice('ab;"{}(/#\n ') for _ in range(rng.choice([0, 1, 4]))) + '*/')
    return ''.join(out)


def relayout(rng, toks):
    """the same tokens with a random layout (white space and comments)"""
    out = [random_gap(rng, False)]
    # keep the first character away from '(' ... ')' stripping semantics: a leading gap is fine
    for i, t in enumerate(toks):
        if i:
            out.append(random_gap(rng, need_space(toks[i - 1], t)))
        out.append(render_tok(t))
    out.append(random_gap(rng, False))
    return ''.join(out)


# ---------------------------------------------------------------------------------------------
# the check
# ---------------------------------------------------------------------------------------------

def roundtrip_oracle(e, inline):
    """(B) parse(format(e, inline)) == e on the real code.  Returns None or a reason."""
    ok, text = py_format(e, inline)
    if not ok:
        return None, f'micheline_to_michelson raised {type(text).__name__}: {text}'[:200]
    ok2, back = py_parse(text)
    if not ok2:
        return text, f'michelson_to_micheline raised {type(back).__name__}: {back}'[:200]
    try:
        same = canon(back) == canon(e)
    except Exception:  # noqa: BLE001
        same = False
    if not same:
        return text, 'parsed expression differs: ' + json.dumps(back, default=repr)[:300]
    return text, None


# what valid Michelson puts, with arguments or annotations, in ARGUMENT position of an application: types and data
# constructors (fixed here, independent of /repo's is_framed)
ARG_APPLICATIONS = set(UNARY_TYPES + BINARY_TYPES + SIZED_TYPES + ['pair', 'Pair', 'Left', 'Right', 'Some', 'constant', 'Lambda_rec', 'Ticket'])


def in_domain(e):
    """the property's domain as far as shapes go: argument-position applications are types or data constructors
    (simple types carry annotations only), and the root is not a single-section list"""
    if not in_domain_root(e):
        return False
    for n, in_arg in walk(e):
        if in_arg and isinstance(n, dict) and 'prim' in n and (n.get('args') or n.get('annots')):
            if n['prim'] in ARG_APPLICATIONS:
                continue
            if n['prim'] in SIMPLE_TYPES and not n.get('args'):
                continue
            return False
    return True


def in_domain_root(e):
    """the root is not a list holding exactly one parameter/storage/code section (prints as the bare section)"""
    return not (isinstance(e, list) and len(e) == 1 and isinstance(e[0], dict) and e[0].get('prim') in ('parameter', 'storage', 'code'))


def candidates(e):
    """smaller variants of an expression (children hoisted, elements / arguments / annotations dropped,
    leaves simplified), outermost first"""
    if isinstance(e, list):
        for x in e:
            yield x
        for i in range(len(e)):
            yield e[:i] + e[i + 1:]
        for i, x in enumerate(e):
            for c in candidates(x):
                yield e[:i] + [c] + e[i + 1:]
        return
    if 'prim' in e:
        args, annots = e.get('args', []), e.get('annots', [])
        for x in args:
            yield x
        if annots:
            yield Gen.prim(e['prim'], args, [])
            for i in range(len(annots)):
                yield Gen.prim(e['prim'], args, annots[:i] + annots[i + 1:])
        for i in range(len(args)):
            yield Gen.prim(e['prim'], args[:i] + args[i + 1:], annots)
        for i, x in enumerate(args):
            for c in candidates(x):
                yield Gen.prim(e['prim'], args[:i] + [c] + args[i + 1:], annots)
        return
    if 'string' in e:
        v = e['string']
        if len(v) > 1:
            yield {'string': v[:len(v) // 2]}
            yield {'string': v[len(v) // 2:]}
            for i in range(min(len(v), 12)):
                yield {'string': v[:i] + v[i + 1:]}
    elif 'int' in e:
        if e['int'] not in ('0', '-1'):
            yield {'int': '0'}
            yield {'int': '-1'}
    elif 'bytes' in e and e['bytes']:
        yield {'bytes': ''}


def shrink(e, inline, budget=400):
    """greedy reduction of a failing expression while the round-trip oracle keeps failing (staying inside
    the domain and outside the known-finding classes)"""
    def fails(c):
        if not in_domain(c) or finding_class(c):
            return False
        return roundtrip_oracle(c, inline)[1] is not None
    progress = True
    while progress and budget > 0:
        progress = False
        for c in candidates(e):
            budget -= 1
            if budget <= 0:
                break
            if fails(c):
                e, progress = c, True
                break
    return e


# ---------------------------------------------------------------------------------------------
# history stream: the two functions must behave as FUNCTIONS (no state carried from call to call)
# ---------------------------------------------------------------------------------------------

def all_nodes(m, acc=None):
    acc = [] if acc is None else acc
    acc.append(m)
    if isinstance(m, list):
        for x in m:
            all_nodes(x, acc)
    elif isinstance(m, dict):
        for x in m.get('args', []) or []:
            all_nodes(x, acc)
    return acc


def edit_in_place(rng, m, nested):
    """one in-place edit of a Micheline value (root or a nested node); returns a description"""
    nodes = all_nodes(m)
    n = rng.choice(nodes[1:]) if nested and len(nodes) > 1 else m
    where = 'nested' if n is not m else 'root'
    if isinstance(n, list):
        k = rng.choice(['append', 'pop', 'insert', 'clear']) if n else 'append'
        if k == 'append':
            n.append({'int': '-3'})
        elif k == 'pop':
            n.pop()
        elif k == 'insert':
            n.insert(0, {'string': 'hist'})
        else:
            n.clear()
        return f'{where} list {k}'
    if 'prim' in n:
        k = rng.choice(['annot', 'rename', 'addarg', 'delargs', 'editarg'])
        if k == 'annot':
            n['annots'] = list(n.get('annots', [])) + ['%hist']
        elif k == 'rename':
            n['prim'] = 'nat' if n['prim'] != 'nat' else 'int'
        elif k == 'addarg':
            n.setdefault('args', []).append({'prim': 'unit'})
        elif k == 'delargs':
            n.pop('args', None)
            n.pop('annots', None)
        else:
            if n.get('args'):
                n['args'][-1] = {'bytes': 'c0ffee'}
            else:
                n['annots'] = ['@hist']
        return f'{where} prim {k}'
    key = next(k for k in ('int', 'string', 'bytes') if k in n)
    n[key] = {'int': '424242', 'string': 'hist "q" \\ x', 'bytes': 'c0ffee'}[key]
    return f'{where} leaf {key}'


def same(a, b):
    try:
        return canon(a) == canon(b)
    except Exception:  # noqa: BLE001
        return False


def history_oracle(rng, e, inline, inline2):
    """round-trip e, edit the RESULT in place, round-trip the unchanged e again (must still give e, and the same
    text); then edit the INPUT in place and round-trip it (must give the edited input, not a remembered one).
    Returns (steps, reason) — reason None when everything holds."""
    import copy
    steps = []
    e0 = copy.deepcopy(e)
    ok, t1 = py_format(e, inline)
    ok1, r1 = py_parse(t1) if ok else (False, None)
    if not (ok and ok1 and same(r1, e0)):
        return steps, None                       # the plain round trip is judged elsewhere
    steps.append(f'r1 = parse(format(e, inline={inline}))')
    if isinstance(r1, (list, dict)):
        for nested in (False, True, True):
            steps.append('edit r1 in place: ' + edit_in_place(rng, r1, nested))
    if not same(e, e0):
        return steps, 'editing the parse result changed the caller\'s expression (the result shares structure with the input)'
    for il in (inline, inline2):
        ok, t2 = py_format(e, il)
        if not ok or (il == inline and t2 != t1):
            return steps + [f'format(e, inline={il})'], f'formatting the unchanged expression again gives a different text: {t2!r}'[:300]
        ok2, r2 = py_parse(t2)
        steps.append(f'r2 = parse(format(e, inline={il}))')
        if not (ok2 and same(r2, e0)):
            return steps, ('the second round trip of the unchanged expression returns ' + (json.dumps(canon(r2), default=repr) if ok2 else repr(r2)))[:400]
        if r2 is r1:
            return steps, 'the second parse returned the very object handed out by the first one'
    # now the input itself is edited between two format calls
    w = copy.deepcopy(e0)
    if isinstance(w, (list, dict)):
        steps.append('w = deepcopy(e); format(w); edit w in place: ' + edit_in_place(rng, w, rng.random() < 0.5))
        py_format(w, inline)
        if in_domain(w) and not finding_class(w) and all(isinstance(x, list) or 'prim' not in x or x['prim'] in tags() for x in all_nodes(w)):
            snap = copy.deepcopy(w)
            ok, t3 = py_format(w, inline)
            ok3, r3 = py_parse(t3) if ok else (False, None)
            steps.append(f'r3 = parse(format(w, inline={inline}))')
            if not (ok and ok3 and same(r3, snap)):
                return steps, ('after editing the input in place its round trip returns ' + (json.dumps(canon(r3), default=repr) if ok3 else repr(r3)))[:400]
    return steps, None


def repro(e, inline):
    return ('from pytezos.michelson.format import micheline_to_michelson as f; from pytezos.michelson.parse import '
            f'michelson_to_micheline as p; e={e!r}; assert p(f(e, inline={inline})) == e')


def run(ctx: lib.Ctx) -> None:
    import re
    import time
    F, P, prim_tags = impl()
    rng = ctx.rng
    t_start = time.time()
    ctx.rule = ('expressions: seeded type-directed generators for types (every type primitive, annotated or not, in argument '
                'position), data (Pair/Left/Right/Some/Elt, nested and empty sequences, strings with quotes, backslashes, '
                'control and Latin-1/astral characters, boundary and huge integers, bytes), code (every instruction primitive, '
                'several arguments, nested code, CREATE_CONTRACT scripts), scripts and section lists; each formatted with '
                'inline=True and False. texts: those formatted texts, the same tokens re-laid-out with random white space and '
                'comments, 1-3 character mutations of them, a fixed list of corner cases, random token soup, and EVERY sequence of '
                'length <= 4 (quick) / 5 (thorough) over the eight tokens DROP %a 1 { } ( ) ;  plus arbitrary-shape Micheline '
                '(any primitive anywhere) for the correspondence only. non-trivial = expression with >= 3 nodes / text with '
                '>= 3 characters; distinct = distinct canonical JSON / text')
    violations = 0

    def violate(what, rep, found=True):
        nonlocal violations
        if violations < 3:
            ctx.violation(what, rep, found)
        violations += 1

    cases = []      # Coq ccase literals (expected answer: true)
    meta = []       # what each case is, for the report

    # ---- static tables -------------------------------------------------------------------------
    byname = {}
    for k, v in prim_tags.items():
        byname.setdefault(v[0], []).append(k)
    prim_re = re.compile(r'[A-Za-z][A-Za-z0-9_]+\Z')
    for t in range(256):
        names = byname.get(t, [])
        exp = names[0] if (len(names) == 1 and prim_re.match(names[0]) and t != 0xee) else None
        cases.append(f'CName {lib.cbyte(t)} {lib.copt(cb(exp.encode()) if exp else None)}')
        meta.append(('table', f'tag 0x{t:02x} -> {names}'))
    for k, v in sorted(prim_tags.items()):
        if latin1(k) is None:
            continue
        cases.append(f'CTag {cb(k.encode())} {lib.copt(lib.cbyte(v[0]) if v != bytes([0xee]) else None)}')
        meta.append(('table', f'name {k} -> 0x{v[0]:02x}'))
    for k in ['CADR', 'Foo', 'pairs', 'PAIRS', 'nat_', '']:
        if k not in prim_tags:
            cases.append(f'CTag {cb(k.encode())} None')
            meta.append(('table', f'name {k!r} is not a primitive'))
    ctx.table('prim_tags (tags.py) vs Printer.prim_names, both directions, all 256 tags')
    for k in sorted(prim_tags) + ['CADR', 'Foo', 'pairs', 'Pairs', 'PAIR_', 'x']:
        for ann in (False, True):
            node = {'prim': k}
            if ann:
                node['annots'] = ['%a']
            okf, val = lib.call(F.is_framed, node)
            cases.append(f'CFramed {cb(k.encode())} {lib.cbool(ann)} {lib.cbool(bool(val) if okf else False)}')
            meta.append(('table', f'is_framed({k}, annotated={ann}) = {val!r}'))
    ctx.table('is_framed (format.py) vs Printer.is_framed on every primitive name x annotated/not')

    # ---- fixed defects are replayed --------------------------------------------------------------
    for fx in ctx.known.get('fixed', []):
        w = fx.get('witness', {})
        if 'expr' in w:
            for inline in (True, False):
                text, why = roundtrip_oracle(w['expr'], inline)
                ctx.case(('fixed', json.dumps(w['expr'], sort_keys=True), inline), kind='fixed-witness')
                if why:
                    violate(f"fixed defect is back ({fx.get('what')}): {why}",
                            {'expr': w['expr'], 'inline': inline, 'text': text, 'repro': repro(w['expr'], inline)})

    # ---- expressions -------------------------------------------------------------------------------
    gen = Gen(rng)
    exprs = []          # (kind, e, structured)
    corpus_dir = os.path.join(lib.VERIF, 'corpus', PROP)
    corpus_texts = []
    if os.path.isdir(corpus_dir):
        for fn in sorted(os.listdir(corpus_dir)):
            if fn.endswith('.json'):
                doc = json.load(open(os.path.join(corpus_dir, fn)))
                for e in doc.get('exprs', []):
                    exprs.append(('corpus', e, True))
                    ctx.corpus_cases += 1
                for t in doc.get('texts', []):
                    corpus_texts.append(t)
                    ctx.corpus_cases += 1
    for kind, e in sweep(full=ctx.thorough):
        exprs.append((kind, e, True))
    for _ in range(ctx.n(300, 4500)):
        kind, e = gen.root()
        exprs.append((kind, e, True))
    for _ in range(ctx.n(40, 600)):
        kind, e = gen.root(wide=True)
        exprs.append((kind + '-wide', e, True))
    for _ in range(ctx.n(80, 1000)):
        exprs.append(('wild', gen.wild(rng.choice([1, 2, 3])), False))

    for kind, e, structured in exprs:
        if structured and kind not in ('corpus', 'sections', 'sections-wide') and not in_domain(e):
            raise lib.InternalError(f'generator produced an expression outside the domain: {kind} {e!r}')
    texts = {}                         # text -> origin
    known_hits = {}
    for kind, e, structured in exprs:
        key = json.dumps(e, sort_keys=True)
        ctx.case(key, nontrivial=size(e) >= 3, kind=kind, sample={'kind': kind, 'expr': e} if size(e) < 12 else None)
        lit = cnode(e)
        cls = finding_class(e)
        if lit is not None:
            # the oracle's domain (in_domain, outside the finding classes) is the theorem's domain michelson_expr
            cases.append(f'CDom {lit} {lib.cbool(in_domain(e) and not cls)}')
            meta.append(('dom', e))
        seen_text = set()
        for inline in (True, False):
            okf, text = py_format(e, inline)
            if not okf:
                if structured:
                    violate(f'micheline_to_michelson raised {type(text).__name__}: {text}'[:200],
                            {'expr': e, 'inline': inline, 'repro': repro(e, inline)})
                continue
            if lit is not None and latin1(text) is not None and 'inner-sigil-annot' not in cls and not (text in seen_text and kind.startswith('sweep')):
                # (an annotation with an inner sigil is not one ANNOT token: outside fmt_tokens' domain)
                cases.append(f'CFmt {lit} {lib.cbool(inline)} {cb(latin1(text))}')
                meta.append(('fmt', e, inline, text))
                seen_text.add(text)
            texts.setdefault(text, 'formatted')
            if structured and kind.startswith(('data', 'sweep-data')):
                # wrap=True only adds one pair of outer parentheses, which the parser strips again
                okw, tw = lib.call(F.micheline_to_michelson, e, inline=inline, wrap=True)
                okp, back = py_parse(tw) if okw else (False, None)
                okq, plain = py_parse(text)
                if not (okw and okp == okq and (not okp or canon(back) == canon(plain))):
                    violate('micheline_to_michelson(wrap=True) does not parse to the same expression as wrap=False',
                            {'expr': e, 'inline': inline, 'text': text, 'wrapped_text': tw if okw else repr(tw),
                             'repro': 'from pytezos.michelson.format import micheline_to_michelson as f; from pytezos.michelson.parse import '
                                      f'michelson_to_micheline as p; e={e!r}; assert p(f(e, inline={inline}, wrap=True)) == p(f(e, inline={inline}))'})
            if structured:
                _, why = roundtrip_oracle(e, inline)
                if why:
                    live = [c for c in cls if ctx.finding(c) is not None]
                    if live:
                        for c in live:
                            known_hits[c] = ctx.finding(c)
                    elif cls:
                        violate(f'round trip fails (class {sorted(cls)} is not a known finding): {why}',
                                {'expr': e, 'inline': inline, 'text': text, 'repro': repro(e, inline)})
                    elif violations < 3:
                        small = shrink(e, inline)
                        stext, swhy = roundtrip_oracle(small, inline)
                        violate(f'parse(format(e)) != e: {swhy}', {'expr': small, 'inline': inline, 'text': stext,
                                                                  'repro': repro(small, inline), 'original_expr': e})
                    else:
                        violations += 1
    for f in known_hits.values():
        ctx.known_hit(f)

    # ---- history stream: no state may be carried between calls ----------------------------------------------
    hist_pool = [(kind, e) for kind, e, structured in exprs if structured and not finding_class(e) and size(e) <= 60]
    step = max(1, len(hist_pool) // ctx.n(150, 2500))
    n_hist = 0
    for kind, e in hist_pool[::step]:
        for inline, inline2 in ((True, False), (False, True)):
            import copy
            e_in = copy.deepcopy(e)
            steps, why = history_oracle(rng, e_in, inline, inline2)
            n_hist += 1
            ctx.case(('history', json.dumps(e, sort_keys=True), inline), nontrivial=size(e) >= 3, kind='history')
            if why:
                violate(f'format/parse are not functions of their argument: {why}',
                        {'expr': e, 'inline': inline, 'history': steps,
                         'repro': 'from pytezos.michelson.format import micheline_to_michelson as f; from pytezos.michelson.parse import '
                                  f'michelson_to_micheline as p; e={e!r}; r=p(f(e, inline={inline})); '
                                  '(r.append(0) if isinstance(r, list) else r.update(prim="x")); '
                                  f'assert p(f(e, inline={inline})) == e'})
    ctx.extra['history_cases'] = n_hist
    t_expr = time.time()

    # ---- texts: re-laid-out, mutated, corner cases ------------------------------------------------------
    base = [t for t in texts if len(t) < 600]
    rng.shuffle(base)
    for t in base[:ctx.n(150, 2500)]:
        toks = py_lex(t)
        if not toks:
            continue
        t2 = relayout(rng, toks)
        texts.setdefault(t2, 'relayout')
        # (B2) layout independence on the real code
        r1, r2 = py_parse(t), py_parse(t2)
        same = (r1[0] == r2[0]) and (not r1[0] or canon(r1[1]) == canon(r2[1]))
        if not same:
            violate('the parse result depends on white space / comments between tokens',
                    {'text': t, 'relayout': t2, 'parsed': repr(r1[1])[:300], 'parsed_relayout': repr(r2[1])[:300],
                     'repro': f'from pytezos.michelson.parse import michelson_to_micheline as p; assert p({t!r}) == p({t2!r})'})
    short = [t for t in base if len(t) <= 300] or ['DROP']
    for i in range(ctx.n(300, 5000)):
        m = mutate(rng, short[i % len(short)])
        if m.count('\\') <= 12:
            texts.setdefault(m, 'mutated')
    for t in CORNER_TEXTS + corpus_texts:
        texts[t] = 'corner'
    for _ in range(ctx.n(400, 6000)):
        k = rng.choice([1, 2, 3, 3, 4, 5, 6, 8, 10])
        texts.setdefault(rng.choice(['', ' ', '']).join(rng.choice(SOUP_TOKENS) + rng.choice([' ', ' ', '']) for _ in range(k)), 'soup')
    glen = ctx.n(4, 5)
    for t in exhaustive_texts(glen):
        texts.setdefault(t, 'grammar')
    ctx.extra['grammar_exhaustive'] = f'all {sum(len(GRAMMAR_ALPHABET) ** n for n in range(glen + 1))} sequences of length <= {glen} over {GRAMMAR_ALPHABET}'

    for t, origin in texts.items():
        b = latin1(t)
        if b is None:
            continue
        if origin == 'formatted' and len(t) > 1500:
            continue
        toks = py_lex(t)
        ok, val = py_parse_shared(t) if origin == 'grammar' else py_parse(t)
        ctx.case(('text', t), nontrivial=len(t) >= 3, kind='text-' + origin + ('-accepted' if ok else '-rejected'),
                 sample={'text': t, 'parsed': canon(val) if ok else 'rejected'} if len(t) < 60 and origin != 'formatted' else None)
        cases.append(f'CTxt {cb(b)} {clexres(toks)} {ctres(ok, val)}')
        meta.append(('txt', t, origin, toks, ok, val))
    t_texts = time.time()

    if os.environ.get('C18_ORACLE_ONLY') == '1':     # debugging aid for mutation triage: skip comparison (A)
        cases = []
    bad = ctx.coq_mismatches('c', IMPORTS, 'chk', 'Bool.eqb', 'ccase', 'bool', [(c, 'true') for c in cases],
                             prelude=PRELUDE, shard=(1200 if ctx.thorough else max(250, -(-len(cases) // 12))))
    ctx.extra['correspondence_mismatches'] = len(bad)
    ctx.extra['cases_by_kind'] = {k: sum(1 for m in meta if m[0] == k) for k in ('table', 'fmt', 'txt', 'dom')}
    ctx.extra['timing_s'] = {'expressions+oracle': round(t_expr - t_start, 1), 'texts': round(t_texts - t_expr, 1),
                             'coqc': round(time.time() - t_texts, 1)}

    # ---- verdict on the correspondence ------------------------------------------------------------------
    if violations == 0 and bad:
        kinds = [meta[i][0] for i in bad]
        rep = {'correspondence': 'C18/format.py+parse.py vs Codec.Printer/Lexer/Parser',
               'disagreements': {k: kinds.count(k) for k in set(kinds)},
               'tables': [meta[i][1] for i in bad if meta[i][0] == 'table'][:10]}
        first_dom = next((meta[i] for i in bad if meta[i][0] == 'dom'), None)
        if first_dom:
            rep.update({'domain_expr': first_dom[1], 'harness_in_domain': in_domain(first_dom[1])})
        first_fmt = next((meta[i] for i in bad if meta[i][0] == 'fmt'), None)
        first_txt = next((meta[i] for i in bad if meta[i][0] == 'txt'), None)
        if first_fmt:
            _, e, inline, text = first_fmt
            rep.update({'expr': e, 'inline': inline, 'text': text,
                        'model_text': ctx.coq_eval(IMPORTS, f'format_text {lib.cbool(inline)} {cnode(e)}'),
                        'model_tokens': ctx.coq_eval(IMPORTS, f'fmt_tokens {cnode(e)}'),
                        'model_lex_of_text': ctx.coq_eval(IMPORTS, f'lex {cb(latin1(text))}')})
        if first_txt:
            _, t, origin, toks, ok, val = first_txt
            rep.update({'text2': t, 'origin': origin, 'ply_tokens': toks,
                        'impl_parse': canon(val) if ok else f'raised {type(val).__name__}',
                        'model': ctx.coq_eval(IMPORTS, f'(lex {cb(latin1(t))}, parse_text {cb(latin1(t))})')})
        violate('implementation no longer corresponds to the model the theorems are about', rep, found=False)


def replay(ctx, doc):
    """re-run the oracle on a stored failing input; non-zero when it still fails"""
    if 'history' in doc:
        import random
        bad = False
        for sd in range(20):
            steps, why = history_oracle(random.Random(sd), json.loads(json.dumps(doc['expr'])), doc.get('inline', False), not doc.get('inline', False))
            if why:
                print('history:', steps)
                print('oracle:', why)
                bad = True
                break
        if not bad:
            print('oracle: holds')
        return bad
    if 'expr' in doc:
        text, why = roundtrip_oracle(doc['expr'], doc.get('inline', False))
        print('text:', repr(text))
        print('oracle:', why or 'holds')
        return bool(why)
    if 'text' in doc and 'relayout' in doc:
        r1, r2 = py_parse(doc['text']), py_parse(doc['relayout'])
        bad = not ((r1[0] == r2[0]) and (not r1[0] or canon(r1[1]) == canon(r2[1])))
        print('oracle:', 'fails' if bad else 'holds')
        return bad
    return False
